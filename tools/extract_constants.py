#!/usr/bin/env python3
"""Translator: regenerate lean/BA/Generated/Constants.lean from /repo's Rust sources.

Every constant a theorem mentions is read from the source text on every run, so a changed
constant changes the model and the proofs are re-checked against it.  Fails loudly (exit 2)
when an expected definition is missing: the caller treats that as a broken tie.
"""
import re, sys, os

REPO = os.environ.get("BA_REPO") or os.path.normpath(os.path.join(os.path.dirname(os.path.abspath(__file__)), "..", "..", "repo"))
OUT = os.path.join(os.path.dirname(os.path.abspath(__file__)), "..", "lean", "BA", "Generated", "Constants.lean")

# files searched for `const NAME: T = EXPR;` when resolving identifiers
SEARCH = [
    "runtime/src/builtin/network.rs",
    "runtime/src/runtime/policy.rs",
    "runtime/src/builtin/shared.rs",
    "runtime/src/lib.rs",
    "actors/paych/src/types.rs",
    "actors/multisig/src/types.rs",
    "actors/miner/src/policy.rs",
    "actors/miner/src/monies.rs",
    "actors/miner/src/vesting_state.rs",
    "actors/market/src/policy.rs",
    "actors/market/src/lib.rs",
    "actors/verifreg/src/lib.rs",
    "actors/evm/src/interpreter/stack.rs",
    "actors/power/src/lib.rs",
    "actors/power/src/policy.rs",
    "actors/reward/src/lib.rs",
]

_src_cache = {}
def src(rel):
    if rel not in _src_cache:
        with open(os.path.join(REPO, rel)) as f:
            _src_cache[rel] = f.read()
    return _src_cache[rel]

CONST_RE = r"(?:pub(?:\([a-z]+\))?\s+)?const\s+%s\s*:\s*[A-Za-z0-9_:<>]+\s*=\s*([^;]+);"

def find_const(name, prefer=None):
    files = ([prefer] if prefer else []) + [f for f in SEARCH if f != prefer]
    for rel in files:
        try:
            m = re.search(CONST_RE % re.escape(name), src(rel))
        except FileNotFoundError:
            continue
        if m:
            return m.group(1), rel
    raise KeyError(name)

def evaluate(expr, prefer=None, depth=0):
    if depth > 20:
        raise ValueError("constant recursion too deep: " + expr)
    e = expr.strip()
    e = re.sub(r"//[^\n]*", "", e)
    e = re.sub(r"\bas\s+[iu](?:8|16|32|64|128|size)\b", "", e)
    e = re.sub(r"(\d)_(?=\d)", r"\1", e)
    e = re.sub(r"(\d)(?:[iu](?:8|16|32|64|128|size))\b", r"\1", e)
    e = e.replace("i64::MAX", str(2**63 - 1)).replace("u64::MAX", str(2**64 - 1))
    e = e.replace("ChainEpoch::MAX", str(2**63 - 1))
    def repl(m):
        name = m.group(0)
        val, rel = find_const(name, prefer)
        return "(" + str(evaluate(val, rel, depth + 1)) + ")"
    e = re.sub(r"\b[A-Z][A-Z0-9_]{2,}\b", repl, e)
    if not re.fullmatch(r"[0-9+\-*/()\s<]+", e):
        raise ValueError("cannot evaluate constant expression: %r (from %r)" % (e, expr))
    e = e.replace("/", "//")
    return int(eval(e, {"__builtins__": {}}, {}))

# (lean name, lean type, rust file, rust const name)
TABLE = [
    ("paychSettleDelay", "Int", "actors/paych/src/types.rs", "SETTLE_DELAY"),
    ("paychMaxLane", "Nat", "actors/paych/src/types.rs", "MAX_LANE"),
    ("paychMaxSecretSize", "Nat", "actors/paych/src/types.rs", "MAX_SECRET_SIZE"),
    # C09 / C10 (verifreg policy; DataCap token precision comes from extra_tables)
    ("verifregMinAllocSize", "Int", "runtime/src/runtime/policy.rs", "MINIMUM_VERIFIED_ALLOCATION_SIZE"),
    ("verifregMinAllocTerm", "Int", "runtime/src/runtime/policy.rs", "MINIMUM_VERIFIED_ALLOCATION_TERM"),
    ("verifregMaxAllocTerm", "Int", "runtime/src/runtime/policy.rs", "MAXIMUM_VERIFIED_ALLOCATION_TERM"),
    ("verifregMaxAllocExpiration", "Int", "runtime/src/runtime/policy.rs", "MAXIMUM_VERIFIED_ALLOCATION_EXPIRATION"),
    ("endOfLifeClaimDropPeriod", "Int", "runtime/src/runtime/policy.rs", "END_OF_LIFE_CLAIM_DROP_PERIOD"),
    ("minSectorExpiration", "Int", "runtime/src/runtime/policy.rs", "MIN_SECTOR_EXPIRATION"),
    ("maxSectorExpirationExtension", "Int", "runtime/src/runtime/policy.rs", "MAX_SECTOR_EXPIRATION_EXTENSION"),
]

def extra_tables():
    """hook for later additions that need custom patterns (policy struct defaults etc.)"""
    return datacap_precision() + miner_extension_switches()

def miner_extension_switches():
    """C10: does validate_extension_declarations reject (a) a claim id declared twice in a message
    (fix of finding F2) and (b) a sector listed in more than one declaration (fix of F2b)?
    The model carries both checks behind these switches, so it follows the source either way."""
    text = src("actors/miner/src/lib.rs")
    m = re.search(r"fn validate_extension_declarations\(.*?\n}\n", text, re.S)
    if not m:
        raise KeyError("fn validate_extension_declarations")
    body = m.group(0)
    for needle in ("claim_space_by_sector", "sc.maintain_claims", "sc.drop_claims", "get_claims(rt, &all_claim_ids)"):
        if needle not in body:
            raise KeyError("validate_extension_declarations: expected `%s`" % needle)
    dup_claims = bool(re.search(r"if\s+!\s*\w+\.insert\(\s*\*?\w*claim\w*\s*\)", body))
    dup_sectors = bool(re.search(r"\w+\.contains_any\(\s*&\w*sectors\w*\s*\)", body)
                       or re.search(r"if\s+!\s*\w+\.insert\(\s*\*?\w*sector\w*\s*\)", body))
    b = lambda x: "true" if x else "false"
    return ["def minerExtRejectsDuplicateClaims : Bool := %s" % b(dup_claims),
            "def minerExtRejectsDuplicateSectors : Bool := %s" % b(dup_sectors)]

def datacap_precision():
    """C09: DATACAP_GRANULARITY = frc46_token::TOKEN_PRECISION (external crate, version pinned by the
    repo's Cargo.lock; read from the vendored registry source)."""
    import glob
    dc = src("actors/datacap/src/lib.rs")
    if not re.search(r"pub const DATACAP_GRANULARITY\s*:\s*u64\s*=\s*TOKEN_PRECISION\s*;", dc):
        raise KeyError("DATACAP_GRANULARITY = TOKEN_PRECISION")
    lock = open(os.path.join(REPO, "Cargo.lock")).read()
    m = re.search(r'name = "frc46_token"\nversion = "([^"]+)"', lock)
    if not m:
        raise KeyError("frc46_token in Cargo.lock")
    home = os.environ.get("CARGO_HOME") or os.path.expanduser("~/.cargo")
    cands = glob.glob(os.path.join(home, "registry", "src", "*", "frc46_token-" + m.group(1), "src", "token", "mod.rs"))
    if not cands:
        raise KeyError("frc46_token-%s source" % m.group(1))
    mm = re.search(CONST_RE % "TOKEN_PRECISION", open(cands[0]).read())
    if not mm:
        raise KeyError("TOKEN_PRECISION")
    return ["def datacapTokenPrecision : Int := %d" % evaluate(mm.group(1))]

def main():
    lines = ["-- GENERATED by tools/extract_constants.py from /repo — do not edit by hand.",
             "namespace BA.Gen"]
    try:
        for lean, ty, rel, name in TABLE:
            val, _ = find_const(name, rel)
            v = evaluate(val, rel)
            lines.append(f"def {lean} : {ty} := {v}" if v >= 0 or ty != "Nat" else None)
        for l in extra_tables():
            lines.append(l)
    except Exception as ex:
        print("extract_constants: " + repr(ex), file=sys.stderr)
        return 2
    lines.append("end BA.Gen")
    text = "\n".join(lines) + "\n"
    out = os.path.normpath(OUT)
    old = open(out).read() if os.path.exists(out) else None
    if old != text:
        with open(out, "w") as f:
            f.write(text)
        print("extract_constants: regenerated (changed)")
    else:
        print("extract_constants: unchanged")
    return 0

if __name__ == "__main__":
    sys.exit(main())
