"""Per-property configuration of the check driver."""

COMMON_TB = [
    "harness VM (vvm, fork of /repo/test_vm) stands in for ref-fvm: message/rollback semantics, mocked proofs and signatures",
    "IPLD containers (HAMT/AMT/bitfield), CBOR, num-bigint are modelled as ideal maps/integers, exercised for real only by the correspondence runs",
    "rustc/cargo, python translators, canonicalisation and diff code of the harness",
]

PROPS = {
    "C16": {
        "lean_targets": ["BA.Props.C16"],
        "harness": "c16",
        "translators": ["extract_constants.py"],
        "trusted_base": COMMON_TB + [
            "signature authentication, address resolution, blake2b pre-image check and the voucher's `extra` call are environment inputs of the model (booleans); the harness derives them from how it built each voucher",
        ],
        "assumptions": [
            "chain epochs are non-negative (collect_after_delay)",
            "a voucher naming the same merge lane twice subtracts that lane once per list entry (code and model agree; exhibited as an example, recorded in notes)",
        ],
    },
}
