"""Per-property configuration of the check driver."""

COMMON_TB = [
    "harness VM (vvm, fork of /repo/test_vm) stands in for ref-fvm: message/rollback semantics, mocked proofs and signatures",
    "IPLD containers (HAMT/AMT/bitfield), CBOR, num-bigint are modelled as ideal maps/integers, exercised for real only by the correspondence runs",
    "rustc/cargo, python translators, canonicalisation and diff code of the harness",
]

CHAIN_TB = COMMON_TB + [
    "chain run: miners are created by plain CreateMiner messages; sector proofs, PoSt proofs and consensus-fault evidence are mocked by the harness VM; the cron tick is run at every epoch that has queued power-actor work (every epoch in 'dense' sequences) — a tick on an epoch without queued work only updates reward/power smoothing estimates",
    "fee, pledge and deposit *amounts* (monies.rs, smoothing estimates) are inputs of the ledger model, taken from the real run; the model decides what the ledgers do with them",
]

PROPS = {
    "C01": {
        "lean_targets": ["BA.Props.C01"],
        "harness": "c01",
        "translators": ["extract_constants.py"],
        "trusted_base": CHAIN_TB + [
            "the VM model (BA.VM) quantifies over every call tree; its tie is the replay of every real invocation tree of the run against the real post-message balances",
        ],
        "assumptions": [
            "market solvency is monitored on the real state here; its theorem lives in the market model (C06)",
            "EXPECTED_LEADERS_PER_EPOCH = 5 in the reward model",
        ],
        "timeout": 3600,
    },
    "C03": {
        "lean_targets": ["BA.Props.C03"],
        "harness": "c03",
        "translators": ["extract_constants.py"],
        "trusted_base": CHAIN_TB + [
            "the vesting table is abstracted to its total in the ledger model (how much has vested at an epoch is an input); the table itself is C14's model",
            "ledger model covers create / fund / pre-commit / prove-commit / apply-rewards / withdraw / repay-debt / proving-deadline callback; other operations (terminations, faults, extensions, consensus faults) re-synchronise the model from the real state and are covered by the oracle only",
        ],
        "assumptions": [
            "finding F1 (creation deposit never added to the network pledge total) is a known finding: network_pledge_eq is proved in the form total = Σ(ip+lf) − unaccounted creation deposits, with proved witnesses that the stated equality and the 'never blocks an operation' clause fail on the unchanged code",
        ],
        "timeout": 3600,
    },
    "C05": {
        "lean_targets": ["BA.Props.C05"],
        "harness": "c05",
        "translators": ["extract_constants.py"],
        "trusted_base": CHAIN_TB + [
            "scheduling model (BA.Cron): deadline arithmetic, activation and callback re-enrolment; every real activation and callback of the run is recomputed by the model and compared",
            "'every callback succeeds' is proved for the funds/scheduling logic the models cover; failures that could only come from IPLD containers or (de)serialisation are covered by the exploration only",
        ],
        "assumptions": [
            "findings F1 (cron callback fails when the pledge total underflows, the miner then loses its claim) and F3 (no proving-deadline callback between creation and the first pre-commit; the recorded deadline is stale until the proving-period start is next refreshed) are known findings of the unchanged tree",
        ],
        "timeout": 3600,
    },
    "C16": {
        "lean_targets": ["BA.Props.C16"],
        "harness": "c16",
        "translators": ["extract_constants.py"],
        "trusted_base": COMMON_TB + [
            "signature authentication, address resolution, blake2b pre-image check and the voucher's `extra` call are environment inputs of the model (booleans); the harness derives them from how it built each voucher",
        ],
        "assumptions": [
            "chain epochs are non-negative (collect_after_delay)",
            "a voucher naming the same merge lane twice subtracts that lane once per list entry (code and model agree; exhibited as an example, recorded in notes)",
        ],
    },
}
