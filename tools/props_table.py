"""Per-property configuration of the check driver."""

COMMON_TB = [
    "harness VM (vvm, fork of /repo/test_vm) stands in for ref-fvm: message/rollback semantics, mocked proofs and signatures",
    "IPLD containers (HAMT/AMT/bitfield), CBOR, num-bigint are modelled as ideal maps/integers, exercised for real only by the correspondence runs",
    "rustc/cargo, python translators, canonicalisation and diff code of the harness",
]

PROPS = {
    "C14": {
        "lean_targets": ["BA.Props.C14"],
        "harness": "c14",
        "translators": ["extract_constants.py"],
        "trusted_base": COMMON_TB + [
            "the block store under VestingFunds is ideal in the model (a tail CID is the list it points to); the correspondence runs go through the real MemoryBlockstore and CBOR",
            "in the withdrawal model the results of the transfer to the beneficiary and of power's UpdatePledgeTotal are environment inputs (booleans); the harness reads them from the invocation trace of the real message",
            "MinerFunds keeps only the fields WithdrawBalance reads or writes; the harness re-synchronises the model state from the real miner state before each withdrawal (per-step refinement, not a whole-trace simulation of the miner)",
        ],
        "assumptions": [
            "vesting specs have a positive quantisation unit and a positive step (SpecOk; the code only ever passes REWARD_VESTING_SPEC); strict epoch order additionally needs step >= unit",
            "table entries are compared up to zero-amount entries (they hold no funds; VestingFunds::load itself hides a head drawn down to zero)",
            "forced_unlock_exact is stated for targets >= 0 (callers pass fee debt / penalties, which are non-negative); conservation and well-formedness hold for any target",
            "withdraw_bound assumes fee_debt >= 0 in the pre-state (asserted by check_balance_invariants after every miner message)",
            "i64 epoch overflow is out of scope (DESIGN §5)",
            "actor-level runs plant pre_commit_deposits / initial_pledge / early_terminations with mutate_state instead of onboarding sectors; known finding F1 (UpdatePledgeTotal exit 20 on a network without other pledge) is counted as inconclusive for C14 and attributed to C03",
        ],
    },
    "C16": {
        "lean_targets": ["BA.Props.C16"],
        "harness": "c16",
        "translators": ["extract_constants.py"],
        "trusted_base": COMMON_TB + [
            "signature authentication, address resolution, blake2b pre-image check and the voucher's `extra` call are environment inputs of the model (booleans); the harness derives them from how it built each voucher",
        ],
        "assumptions": [
            "chain epochs are non-negative (collect_after_delay)",
            "a voucher naming the same merge lane twice subtracts that lane once per list entry (code and model agree; exhibited as an example, recorded in notes)",
        ],
    },
}
