"""Per-property configuration of the check driver: loaded from tools/props/<id>.json
({"config": {...}, "meta": {...}}), one file per property so that parallel work merges cleanly."""
import glob, json, os

_DIR = os.path.join(os.path.dirname(os.path.abspath(__file__)), "props")
PROPS = {}
META = {}
for _f in sorted(glob.glob(os.path.join(_DIR, "C*.json"))):
    _d = json.load(open(_f))
    _id = os.path.basename(_f)[:-5]
    PROPS[_id] = _d["config"]
    META[_id] = _d["meta"]
