"""Per-property configuration of the check driver."""

COMMON_TB = [
    "harness VM (vvm, fork of /repo/test_vm) stands in for ref-fvm: message/rollback semantics, mocked proofs and signatures",
    "IPLD containers (HAMT/AMT/bitfield), CBOR, num-bigint are modelled as ideal maps/integers, exercised for real only by the correspondence runs",
    "rustc/cargo, python translators, canonicalisation and diff code of the harness",
]

PROPS = {
    "C16": {
        "lean_targets": ["BA.Props.C16"],
        "harness": "c16",
        "translators": ["extract_constants.py"],
        "trusted_base": COMMON_TB + [
            "signature authentication, address resolution, blake2b pre-image check and the voucher's `extra` call are environment inputs of the model (booleans); the harness derives them from how it built each voucher",
        ],
        "assumptions": [
            "chain epochs are non-negative (collect_after_delay)",
            "a voucher naming the same merge lane twice subtracts that lane once per list entry (code and model agree; exhibited as an example, recorded in notes)",
        ],
    },
    "C18": {
        "lean_targets": ["BA.Props.C18"],
        "harness": "c18",
        "translators": ["extract_constants.py", "extract_opcodes.py"],
        "timeout": 3 * 3600,
        "trusted_base": COMMON_TB + [
            "values instructions compute, results of nested calls / precompiles / runtime queries are environment answers of the abstract machine (universally quantified); storage contents are not modelled (C17/C19 own them)",
            "the runtime's rule that a read-only caller can only make read-only sends (FVM; implemented by the harness VM) is an assumption of readonly_sticky; the actor-side flag (READ_ONLY iff STATICCALL, System.readonly = rt.read_only()) is extracted from the source",
            "memory safety of the two unsafe blocks of stack.rs is argued through the length invariant and the index preconditions proved for dup/swap_top/pop_many — not a proof about Rust's memory model",
            "tools/extract_opcodes.py (regex translator of def_opcodes!/def_*! macros, stack.rs comparisons, get_memory_region, Bytecode::new, read-only guards) — fails loudly on unknown shapes",
        ],
        "assumptions": [
            "natively there is no gas: arbitrary byte strings are rewritten to forward-only jumps before they are run (loops are exercised by the model only); call depth is capped",
            "accepted memory accesses near 4 GiB are not executed on the real interpreter (they would really allocate); the rejecting side of every bound and small accepted regions are",
        ],
    },
}
