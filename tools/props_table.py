"""Per-property configuration of the check driver."""

COMMON_TB = [
    "harness VM (vvm, fork of /repo/test_vm) stands in for ref-fvm: message/rollback semantics, mocked proofs and signatures",
    "IPLD containers (HAMT/AMT/bitfield), CBOR, num-bigint are modelled as ideal maps/integers, exercised for real only by the correspondence runs",
    "rustc/cargo, python translators, canonicalisation and diff code of the harness",
]

PROPS = {
    "C12": {
        "lean_targets": ["BA.Props.C12"],
        "harness": "c12",
        "translators": ["extract_constants.py"],
        "trusted_base": COMMON_TB + [
            "the outcome of every inner send (ok/abort) and the re-entrant calls made during it are environment inputs of the model (an activation tree); the harness reads them off the vvm invocation trace",
            "the proposal-hash comparison of Approve/Cancel is an input boolean of the model; the harness computes it with the actor's own compute_proposal_hash on the real pending entry",
            "parameter bytes are modelled as a flat integer encoding; the model's decoder for self-calls mirrors the CBOR parameter types and is exercised by the correspondence runs (including malformed parameters)",
        ],
        "assumptions": [
            "a message whose caller is the wallet exists only as the direct callee of the wallet's own inner send (an actor is the caller only of what it sends; the multisig actor sends only in execute_transaction_if_approved, and in address resolution of non-ID signer addresses, which is excluded next)",
            "signer addresses given to the constructor, AddSigner and SwapSigner are ID addresses of existing actors (resolve_to_actor_id succeeds without sending)",
            "transaction ids and epochs stay within i64; the exported-range receiver hook is modelled as accepting any parameters",
        ],
    },
    "C16": {
        "lean_targets": ["BA.Props.C16"],
        "harness": "c16",
        "translators": ["extract_constants.py"],
        "trusted_base": COMMON_TB + [
            "signature authentication, address resolution, blake2b pre-image check and the voucher's `extra` call are environment inputs of the model (booleans); the harness derives them from how it built each voucher",
        ],
        "assumptions": [
            "chain epochs are non-negative (collect_after_delay)",
            "a voucher naming the same merge lane twice subtracts that lane once per list entry (code and model agree; exhibited as an example, recorded in notes)",
        ],
    },
}
