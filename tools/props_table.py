"""Per-property configuration of the check driver."""

COMMON_TB = [
    "harness VM (vvm, fork of /repo/test_vm) stands in for ref-fvm: message/rollback semantics, mocked proofs and signatures",
    "IPLD containers (HAMT/AMT/bitfield), CBOR, num-bigint are modelled as ideal maps/integers, exercised for real only by the correspondence runs",
    "rustc/cargo, python translators, canonicalisation and diff code of the harness",
]

PROPS = {
    "C11": {
        "lean_targets": ["BA.Props.C11"],
        "harness": "c11",
        "translators": ["extract_constants.py", "extract_methods.py", "spec_c11_to_rust.py"],
        "trusted_base": COMMON_TB + [
            "regex translator tools/extract_methods.py (enum Method, dispatch tables, first validate_immediate_caller_* of each handler, structural facts of fvm.rs/dispatch.rs/shared.rs); it fails loudly on unrecognised shapes and its output is cross-checked cell by cell by the exhaustive matrix on the real actors",
            "runtime/src/runtime/fvm.rs (production runtime + trampoline) cannot be executed in the sandbox: tied structurally only (BA/Generated/FvmRuntime.lean); the matrix runs the actors on the vvm's implementation of the same validation rules (type/namespace mismatch exits SYS_ASSERTION_FAILED there, USR_FORBIDDEN in fvm.rs)",
            "the hand-written specification table (BA/Props/C11.lean `spec`) is the reading of 'designated caller' per method; body guards of validate-any methods are proved in other properties' models and only exercised here",
        ],
        "assumptions": [
            "callers are described to the model by what the runtime can observe: built-in code type (or none), the address expressions they equal in the receiver's state, f4 namespace",
            "every cell is a top-level message (caller = origin); nested-call cells (caller != origin) are not enumerated",
            "market.WithdrawBalance, miner.ChangeWorkerAddress, miner.PreCommitSectorBatch2 and miner.ExtendSectorExpiration2 query other actors before validating the caller (listed in specNotFirst); for them a rejected outsider may see an earlier error than forbidden",
        ],
    },
    "C16": {
        "lean_targets": ["BA.Props.C16"],
        "harness": "c16",
        "translators": ["extract_constants.py"],
        "trusted_base": COMMON_TB + [
            "signature authentication, address resolution, blake2b pre-image check and the voucher's `extra` call are environment inputs of the model (booleans); the harness derives them from how it built each voucher",
        ],
        "assumptions": [
            "chain epochs are non-negative (collect_after_delay)",
            "a voucher naming the same merge lane twice subtracts that lane once per list entry (code and model agree; exhibited as an example, recorded in notes)",
        ],
    },
}
