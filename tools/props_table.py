"""Per-property configuration of the check driver."""

COMMON_TB = [
    "harness VM (vvm, fork of /repo/test_vm) stands in for ref-fvm: message/rollback semantics, mocked proofs and signatures",
    "IPLD containers (HAMT/AMT/bitfield), CBOR, num-bigint are modelled as ideal maps/integers, exercised for real only by the correspondence runs",
    "rustc/cargo, python translators, canonicalisation and diff code of the harness",
]

MARKET_TB = [
    "market model: the proposal CID (blake2b of the normalised proposal) is idealised as the proposal itself (hash collisions out of scope); piece CID / size / label are folded into one tag",
    "market model: signature authentication, the static bounds of validate_deal (label, piece, duration, price/collateral upper bounds, provider collateral lower bound), miner control addresses, burn / notify / datacap sends are environment inputs; the harness derives them from how it built each message",
    "market model: provider_sectors is represented by a `mapped` flag on the deal state; DealState.slash_epoch is not modelled (no method stores a value other than -1; the harness oracle checks this on every stored state)",
]
MARKET_ASSUMPTIONS = [
    "OnMinerSectorsTerminate carries epoch = current epoch (its only caller, miner::request_terminate_deals, passes rt.curr_epoch()); the model's step passes the state's epoch",
    "verified deals are exercised in the model only (datacap answers are environment flags); the correspondence runs use verified_deal = false (datacap side effects belong to C09)",
    "an internal error in the middle of one deal's processing inside SettleDealPayments (possible only with inconsistent balance tables) leaves partial mutations in the code; the model treats that deal as failed without effect",
]

PROPS = {
    "C16": {
        "lean_targets": ["BA.Props.C16"],
        "harness": "c16",
        "translators": ["extract_constants.py"],
        "trusted_base": COMMON_TB + [
            "signature authentication, address resolution, blake2b pre-image check and the voucher's `extra` call are environment inputs of the model (booleans); the harness derives them from how it built each voucher",
        ],
        "assumptions": [
            "chain epochs are non-negative (collect_after_delay)",
            "a voucher naming the same merge lane twice subtracts that lane once per list entry (code and model agree; exhibited as an example, recorded in notes)",
        ],
    },
    "C06": {
        "lean_targets": ["BA.Props.C06"],
        "harness": "c06",
        "translators": ["extract_constants.py"],
        "trusted_base": COMMON_TB + MARKET_TB,
        "assumptions": MARKET_ASSUMPTIONS + [
            "approved withdrawers of a miner's balance are what the code computes: owner and worker (control addresses may publish deals but not withdraw); the recipient is the owner",
        ],
    },
    "C07": {
        "lean_targets": ["BA.Props.C07"],
        "harness": "c07",
        "translators": ["extract_constants.py"],
        "trusted_base": COMMON_TB + MARKET_TB,
        "assumptions": MARKET_ASSUMPTIONS + [
            "chain epochs are non-negative and deal start epochs are therefore >= 0 (the sentinel -1 of last_updated_epoch is not a real epoch)",
        ],
    },
    "C08": {
        "lean_targets": ["BA.Props.C08"],
        "harness": "c08",
        "translators": ["extract_constants.py"],
        "trusted_base": COMMON_TB + MARKET_TB,
        "assumptions": MARKET_ASSUMPTIONS + [
            "'pending at most once' is read literally (the pending-proposals set): an early SettleDealPayments on an activated deal removes its pending entry and the same signed proposal can then be published again while the first deal is live (exhibited as a Lean example and as a harness note, reported as suspicious, not counted as a violation)",
            "at epoch = start a proposal can still be activated and can also be timed out by anybody's SettleDealPayments (exhibited as a Lean example); activation is allowed iff epoch <= start, time-out iff epoch >= start",
        ],
    },
}
