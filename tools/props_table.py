"""Per-property configuration of the check driver."""

COMMON_TB = [
    "harness VM (vvm, fork of /repo/test_vm) stands in for ref-fvm: message/rollback semantics, mocked proofs and signatures",
    "IPLD containers (HAMT/AMT/bitfield), CBOR, num-bigint are modelled as ideal maps/integers, exercised for real only by the correspondence runs",
    "rustc/cargo, python translators, canonicalisation and diff code of the harness",
]

PROPS = {
    "C16": {
        "lean_targets": ["BA.Props.C16"],
        "harness": "c16",
        "translators": ["extract_constants.py"],
        "trusted_base": COMMON_TB + [
            "signature authentication, address resolution, blake2b pre-image check and the voucher's `extra` call are environment inputs of the model (booleans); the harness derives them from how it built each voucher",
        ],
        "assumptions": [
            "chain epochs are non-negative (collect_after_delay)",
            "a voucher naming the same merge lane twice subtracts that lane once per list entry (code and model agree; exhibited as an example, recorded in notes)",
        ],
    },
    "C17": {
        "lean_targets": ["BA.Props.C17"],
        "harness": "c17",
        "translators": ["extract_constants.py"],
        "timeout": 3 * 3600,
        "trusted_base": COMMON_TB + [
            "the `xSpec` definitions in BA/Model/Evm/Word.lean are a hand transcription of the Yellow Paper (app. H.2), EIP-145 and EIP-7939; the harness carries a second, independent big-integer transcription (harness/src/props/c17.rs `spec`)",
            "the `uint` crate's primitive operations (overflowing_add/sub/mul, / % << >> ! bit byte leading_zeros, U512 widening) are modelled as exact machine arithmetic on BitVec 256 / Nat; exercised for real by the per-instruction correspondence",
            "Keccak-256 is an environment oracle of the Lean interpreter; the harness supplies its own Keccak-f[1600] (checked against the standard vectors) both to the model and, as the `hash_64` primitive, to the vvm (the repo's FakePrimitives::hash_64 returns the multihash code as the digest length - see DESIGN §7 C17 notes)",
            "gas is out of scope (metered by the FVM at the Wasm level); calls to other actors, logs and context opcodes are outside the modelled instruction families",
        ],
        "assumptions": [
            "contract creation (EAM CreateExternal with init code PUSH2 len DUP1 PUSH1 10 PUSH0 CODECOPY PUSH0 RETURN) installs exactly the given runtime code",
            "memory offsets of generated programs are capped at 64 KiB + 512 B (natively there is no gas to stop a 4 GiB allocation); offsets/sizes > u32::MAX are exercised (they fail before allocating)",
        ],
    },
}
