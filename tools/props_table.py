"""Per-property configuration of the check driver."""

COMMON_TB = [
    "harness VM (vvm, fork of /repo/test_vm) stands in for ref-fvm: message/rollback semantics, mocked proofs and signatures",
    "IPLD containers (HAMT/AMT/bitfield), CBOR, num-bigint are modelled as ideal maps/integers, exercised for real only by the correspondence runs",
    "rustc/cargo, python translators, canonicalisation and diff code of the harness",
]

PROPS = {
    "C15": {
        "lean_targets": ["BA.Props.C15"],
        "harness": "c15",
        "translators": ["extract_constants.py"],
        "trusted_base": COMMON_TB + [
            "the alpha-beta filter estimates enter the model as opaque numbers (extrapolated cumulative reward/power ratio); smooth::extrapolated_cum_sum_of_ratio itself is exercised only by the correspondence runs",
            "the vesting table is abstract in the model (its total = locked_funds, the part with epoch < now is an input `vested` with 0 <= vested <= locked_funds); the harness reads it from the real table before each message",
            "answers of other actors (UpdatePledgeTotal accepted?, reward transfer delivered?) and the non-funds preconditions of each method (caller, deadline windows, proof validity) are environment inputs of the model; the harness derives them from the invocation trace / how it built the message",
            "faulty power of a deadline is an input of the model (no partition/deadline model here): the harness reads Deadline.faulty_power from the real state before the cron callback",
            "translator reads from the source text whether report_consensus_fault adds the unsent reward back to the burn (Gen.cfBurnsUnsentReward)",
        ],
        "assumptions": [
            "fee_debt, pre_commit_deposits, locked_funds, initial_pledge >= 0 and balance >= their sum (check_balance_invariants) in the starting state; preserved by every modelled step (theorem history_accounting)",
            "known finding F4: in the unrepaired code the consensus-fault step with a failing reward transfer loses the reward amount from the accounting (negation witness proved; penalty_accounting is therefore _partial)",
            "reporter and miner owner are distinct accounts in the scenarios (a reporter may be the owner by design; the reward is then a legitimate payment to that account)",
        ],
    },
    "C16": {
        "lean_targets": ["BA.Props.C16"],
        "harness": "c16",
        "translators": ["extract_constants.py"],
        "trusted_base": COMMON_TB + [
            "signature authentication, address resolution, blake2b pre-image check and the voucher's `extra` call are environment inputs of the model (booleans); the harness derives them from how it built each voucher",
        ],
        "assumptions": [
            "chain epochs are non-negative (collect_after_delay)",
            "a voucher naming the same merge lane twice subtracts that lane once per list entry (code and model agree; exhibited as an example, recorded in notes)",
        ],
    },
}
