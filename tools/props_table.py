"""Per-property configuration of the check driver."""

COMMON_TB = [
    "harness VM (vvm, fork of /repo/test_vm) stands in for ref-fvm: message/rollback semantics, mocked proofs and signatures",
    "IPLD containers (HAMT/AMT/bitfield), CBOR, num-bigint are modelled as ideal maps/integers, exercised for real only by the correspondence runs",
    "rustc/cargo, python translators, canonicalisation and diff code of the harness",
]

PROPS = {
    "C16": {
        "lean_targets": ["BA.Props.C16"],
        "harness": "c16",
        "translators": ["extract_constants.py"],
        "trusted_base": COMMON_TB + [
            "signature authentication, address resolution, blake2b pre-image check and the voucher's `extra` call are environment inputs of the model (booleans); the harness derives them from how it built each voucher",
        ],
        "assumptions": [
            "chain epochs are non-negative (collect_after_delay)",
            "a voucher naming the same merge lane twice subtracts that lane once per list entry (code and model agree; exhibited as an example, recorded in notes)",
        ],
    },
    "C19": {
        "lean_targets": ["BA.Props.C19"],
        "harness": "c19",
        "translators": [],
        "trusted_base": COMMON_TB + [
            "the journaled-state spec layer (BA/Model/Evm/Storage.lean, `specOps`) is my transcription of Ethereum's call/revert/transient/selfdestruct semantics with the FEVM choices the code makes (SELFDESTRUCT pays out immediately and returns empty data; a destroyed contract is an empty account that still accepts value)",
            "a state root is modelled by the state value (content addressing: equal CID iff equal state); the KAMT is an ideal map",
            "the script-interpreter contract (raw EVM bytecode assembled by the harness) and the decoding of its return data are part of the test rig",
        ],
        "assumptions": [
            "every top-level message has an (origin, nonce) that no earlier message used (chain rule: the sender's nonce increases); stated as `VM.Fresh` + `Nodup` hypotheses of impl_refines_spec",
            "CREATE/CREATE2 inside the call tree and Resurrect are not modelled (no theorem, no generated scripts); precompiles, gas and the call-depth limit are out of scope (scripts nest at most 4 deep)",
        ],
    },
}
