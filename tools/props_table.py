"""Per-property configuration of the check driver."""

COMMON_TB = [
    "harness VM (vvm, fork of /repo/test_vm) stands in for ref-fvm: message/rollback semantics, mocked proofs and signatures",
    "IPLD containers (HAMT/AMT/bitfield), CBOR, num-bigint are modelled as ideal maps/integers, exercised for real only by the correspondence runs",
    "rustc/cargo, python translators, canonicalisation and diff code of the harness",
]

PROPS = {
    "C02": {
        "lean_targets": ["BA.Props.C02"],
        "harness": "c02",
        "translators": ["extract_constants.py"],
        "trusted_base": COMMON_TB + [
            "the real fil_actor_miner::Partition is driven through its pub API on an in-memory blockstore (failing calls rolled back by the harness as the actor's transaction would); the real power actor runs in the harness VM with UpdateClaimedPower sent from miner id addresses",
            "sector power (raw = sector size, QA from fil_actor_miner::qa_power_for_sector) is an input of the model per sector; the QA-power formula itself is not modelled",
            "that lib.rs forwards every returned delta to the power actor (request_update_power after each transaction) is checked by the actor-level oracle, not proved",
        ],
        "assumptions": [
            "minimum_consensus_power > 0 (true of every shipped policy; with a non-positive minimum delete_claim leaves the deleted miner counted, exhibited as a Lean example)",
            "set arguments are bitfields (duplicate-free); infos handed to add_sectors are the Sectors-table infos of distinct sector numbers; one quantisation spec per partition",
            "actor ids are never reused (Init actor)",
        ],
    },
    "C04": {
        "lean_targets": ["BA.Props.C04"],
        "harness": "c04",
        "translators": ["extract_constants.py"],
        "trusted_base": COMMON_TB + [
            "the real fil_actor_miner::Partition / ExpirationQueue / BitFieldQueue / State::allocate_sector_numbers are driven through their pub API on an in-memory blockstore; a failing call is rolled back by the harness (clone/restore) as the actor's transaction would",
            "sector power (raw = sector size, QA from fil_actor_miner::qa_power_for_sector) is an input of the model per sector; the QA-power formula itself is not modelled",
        ],
        "assumptions": [
            "set arguments are bitfields (duplicate-free); the infos handed to add_sectors are the Sectors-table infos of distinct sector numbers (lib.rs glue guarantees both); the Sectors AMT stores each info under its own sector number",
            "one quantisation spec per partition (it belongs to one deadline); quantisation unit > 0",
            "bounded_iter limits (25000 addressed sectors, 10000 sectors per queue entry) and u64/i64 overflow are not modelled",
        ],
    },
    "C16": {
        "lean_targets": ["BA.Props.C16"],
        "harness": "c16",
        "translators": ["extract_constants.py"],
        "trusted_base": COMMON_TB + [
            "signature authentication, address resolution, blake2b pre-image check and the voucher's `extra` call are environment inputs of the model (booleans); the harness derives them from how it built each voucher",
        ],
        "assumptions": [
            "chain epochs are non-negative (collect_after_delay)",
            "a voucher naming the same merge lane twice subtracts that lane once per list entry (code and model agree; exhibited as an example, recorded in notes)",
        ],
    },
}
