"""Per-property configuration of the check driver."""

COMMON_TB = [
    "harness VM (vvm, fork of /repo/test_vm) stands in for ref-fvm: message/rollback semantics, mocked proofs and signatures",
    "IPLD containers (HAMT/AMT/bitfield), CBOR, num-bigint are modelled as ideal maps/integers, exercised for real only by the correspondence runs",
    "rustc/cargo, python translators, canonicalisation and diff code of the harness",
]

PROPS = {
    "C16": {
        "lean_targets": ["BA.Props.C16"],
        "harness": "c16",
        "translators": ["extract_constants.py"],
        "trusted_base": COMMON_TB + [
            "signature authentication, address resolution, blake2b pre-image check and the voucher's `extra` call are environment inputs of the model (booleans); the harness derives them from how it built each voucher",
        ],
        "assumptions": [
            "chain epochs are non-negative (collect_after_delay)",
            "a voucher naming the same merge lane twice subtracts that lane once per list entry (code and model agree; exhibited as an example, recorded in notes)",
        ],
    },
    "C20": {
        "lean_targets": ["BA.Props.C20"],
        "harness": "c20",
        "translators": ["extract_constants.py"],
        "leanchecker": True,
        "trusted_base": COMMON_TB + [
            "the vvm's create_actor rule (new actor, placeholder -> code swap, else forbidden), auto-creation of accounts/placeholders by sends, placeholder -> EthAccount promotion of a top-level sender and new_actor_address (shared per-message counter) stand in for ref-fvm's",
            "Keccak-256 and RLP are executable Lean code validated by tests only (known-answer vectors incl. the repo's compute_address vectors, random inputs against the implementation's hash and the rlp crate, every address the real EAM returns); no theorem depends on their values",
            "the robust address (new_actor_address), constructor outcomes (ok / fail / self-destruct in init code) and the endowment check are environment inputs of the model; the harness derives them from the real returns, the invocation trace and the init code it built",
            "nested creations inside constructors are flattened by the harness into a sequence of model operations in id-assignment order (creations inside a rolled-back frame are dropped)",
        ],
        "assumptions": [
            "collision resistance of Keccak-256 (distinct pre-images -> distinct addresses) is the usual assumption; the theorems prove injectivity of the pre-images only",
            "deployer nonces only grow is read per incarnation: Resurrect re-initialises a dead contract with nonce 1 (System::resurrect -> System::new), as Ethereum does for a re-created self-destructed contract; (incarnation, nonce) is lexicographically monotone",
            "reserved ranges are enforced by the EAM (can_assign_address), not by the init actor: a plain send to the f410 form of a reserved eth address creates a placeholder there, no contract can ever be deployed over it",
            "anyone may create multisigs and payment channels = any built-in non-EVM caller: Exec is below the FRC-42 range, restrict_internal_api rejects EVM contracts and non-builtin code",
            "u64 overflow of next_id and of nonces is out of scope (Nat in the model)",
        ],
    },
}
