"""Per-property configuration of the check driver."""

COMMON_TB = [
    "harness VM (vvm, fork of /repo/test_vm) stands in for ref-fvm: message/rollback semantics, mocked proofs and signatures",
    "IPLD containers (HAMT/AMT/bitfield), CBOR, num-bigint are modelled as ideal maps/integers, exercised for real only by the correspondence runs",
    "rustc/cargo, python translators, canonicalisation and diff code of the harness",
]

VERIFREG_TB = COMMON_TB + [
    "frc46_token (external crate) is modelled as an ideal ledger (balances, allowances, supply); the correspondence runs go through the real crate",
    "actor kinds (account / miner / other), address resolution and receiver-hook acceptance are a table of the model filled from the harness world; AuthenticateMessage answers of RemoveVerifiedClientDataCap are environment booleans",
    "allocations / claims are modelled as one id-keyed table each (ids come from one counter); the two-level HAMTs are exercised only by the correspondence runs",
]

PROPS = {
    "C09": {
        "lean_targets": ["BA.Props.C09"],
        "harness": "c09",
        "translators": ["extract_constants.py"],
        "trusted_base": VERIFREG_TB,
        "assumptions": [
            "top-level message senders are never the registry or the token actor themselves (they only send the messages their code sends, which are inside the modelled steps)",
            "chain epochs, sizes and terms fit i64/u64 (no wrap-around)",
            "a repeated id in RemoveExpiredAllocations/RemoveExpiredClaims panics (abort of the message, nothing removed or refunded): modelled as an error, recorded as a note",
            "a transfer listing the same claim extension twice burns the datacap once per entry (code and model agree; recorded as a note)",
        ],
    },
    "C10": {
        "lean_targets": ["BA.Props.C10"],
        "harness": "c10",
        "translators": ["extract_constants.py"],
        "trusted_base": VERIFREG_TB + [
            "miner side: only validate_extension_declarations / extend_sector_committment of SIMPLE_QA_POWER sectors are modelled (sector record {activation, expiration, power_base_epoch, verified_deal_weight}); partitions, deadlines, fees, deal weight are exercised only on the real actor",
        ],
        "assumptions": [
            "extension_covers_backing_claims / sector_claims_inv_partial assume (i) the claim ids declared for a sector (maintain + drop, over all declarations of the message) are distinct and (ii) the sector's claims are declared with the expiration the sector is extended to; the unchanged code enforces neither: findings F2 and F2b (known_findings.json), each proved as a negation witness and replayed on the real actors on every run",
            "declared claim ids are claims currently backing the sector (a previously dropped claim of the sector is not re-declared)",
            "onboarding (prove-commit / replica-update) is exercised on the real actors only; the model starts from the sector record read back after activation",
        ],
    },
    "C16": {
        "lean_targets": ["BA.Props.C16"],
        "harness": "c16",
        "translators": ["extract_constants.py"],
        "trusted_base": COMMON_TB + [
            "signature authentication, address resolution, blake2b pre-image check and the voucher's `extra` call are environment inputs of the model (booleans); the harness derives them from how it built each voucher",
        ],
        "assumptions": [
            "chain epochs are non-negative (collect_after_delay)",
            "a voucher naming the same merge lane twice subtracts that lane once per list entry (code and model agree; exhibited as an example, recorded in notes)",
        ],
    },
}
