"""Per-property configuration of the check driver."""

COMMON_TB = [
    "harness VM (vvm, fork of /repo/test_vm) stands in for ref-fvm: message/rollback semantics, mocked proofs and signatures",
    "IPLD containers (HAMT/AMT/bitfield), CBOR, num-bigint are modelled as ideal maps/integers, exercised for real only by the correspondence runs",
    "rustc/cargo, python translators, canonicalisation and diff code of the harness",
]

PROPS = {
    "C13": {
        "lean_targets": ["BA.Props.C13"],
        "harness": "c13",
        "translators": ["extract_constants.py"],
        "trusted_base": COMMON_TB + [
            "address resolution (ID-protocol check, resolve_address, the BLS-account check of a new worker) and the parts of withdraw_balance outside the control record (vesting, debt, transfer, pledge notification) are environment inputs of the model; the harness derives them from how it built each message and from the observed sub-call trace",
            "the proving-deadline cron callback is modelled as a CronTick op at an arbitrary epoch; the harness sends it to the model exactly when the trace shows a successful OnDeferredCronEvent on the miner",
        ],
        "assumptions": [
            "histories start from a freshly constructed miner (MinerInfo::new: nothing pending, beneficiary = owner); the history theorems only need `nothing pending` of the start state",
            "reading of the property: the beneficiary follows the owner in an ownership handover when beneficiary == owner; the confirming new owner drops the previous owner's pending beneficiary proposal (counted as withdrawal by the owner-after-the-step); a pending worker-key change cannot be withdrawn by anyone",
            "the current beneficiary's approval is waived iff the owner proposes at an epoch where BeneficiaryTerm::available is zero (expired or quota used up), evaluated at proposal time as in the code",
        ],
    },
    "C16": {
        "lean_targets": ["BA.Props.C16"],
        "harness": "c16",
        "translators": ["extract_constants.py"],
        "trusted_base": COMMON_TB + [
            "signature authentication, address resolution, blake2b pre-image check and the voucher's `extra` call are environment inputs of the model (booleans); the harness derives them from how it built each voucher",
        ],
        "assumptions": [
            "chain epochs are non-negative (collect_after_delay)",
            "a voucher naming the same merge lane twice subtracts that lane once per list entry (code and model agree; exhibited as an example, recorded in notes)",
        ],
    },
}
