#!/bin/sh
# Create an isolated workspace <base>/<name>/{verif,repo}: git worktrees of the framework and of
# builtin-actors side by side (the harness resolves the actors as ../../repo).
set -e
name="$1"; base="${2:-/tmp/ws}"
mkdir -p "$base/$name"
git -C /verif worktree add -q -b "ws-$name" "$base/$name/verif" HEAD
git -C /repo worktree add -q --detach "$base/$name/repo" HEAD
cd "$base/$name/verif"
printf '\n[build]\njobs = 4\n' >> harness/.cargo/config.toml
git update-index --assume-unchanged harness/.cargo/config.toml
echo "$base/$name"
