#!/bin/sh
# merge a work branch: tools/merge_ws.sh <name> <id> [<id>...]
set -e
cd /verif
name="$1"; shift
git merge --no-commit "ws-$name" || true
git checkout HEAD -- MANIFEST.json tools/props_table.py tools/manifest_meta.py 2>/dev/null || true
python3 tools/import_branch_props.py "ws-$name" "$@"
python3 tools/extract_constants.py || true
python3 tools/gen_ba_root.py
python3 tools/gen_manifest.py
git add -A
if grep -rn "^<<<<<<< \|^>>>>>>> " lean harness/src tools DESIGN.md known_findings.json AGENTS.md check >/dev/null; then echo "CONFLICT MARKERS LEFT"; grep -rln "^<<<<<<< " lean harness/src tools DESIGN.md known_findings.json; exit 1; fi
git commit -qm "Merge ws-$name: $*"
echo merged
