#!/usr/bin/env python3
"""Translator: regenerate lean/BA/Generated/Opcodes.lean from the EVM interpreter sources of ../repo.

What is read (all from actors/evm/src/interpreter/):
  * execution.rs      `def_opcodes!` invocation (byte -> mnemonic), shape of the jump table
                      (`[UNDEFINED; 256]`, `table[$code] = $op`), shape of `execute`/`step`
  * instructions/mod.rs  every `macro_rules! def_*` arm (how many values are popped through
                      `pop_many()?`, whether the result is pushed with `push_unchecked`, with the
                      checked `push(..)?`, after `ensure_one()?` or after an *ignored* `ensure_one();`)
                      and every `def_*! { MNEMONIC ... }` invocation (kind, arity, target fn)
  * stack.rs, instructions/stack.rs   limits and comparisons of push/ensure_one/dup/swap_top/pop_many/drop
  * instructions/memory.rs, memory.rs get_memory_region guard sequence and 32-byte growth
  * bytecode.rs       the jumpdest analysis loop; instructions/control.rs jump/jumpi validation
  * storage.rs/log_event.rs/lifecycle.rs/call.rs/system.rs  read-only guards, flags given to nested
                      calls, flush refusing in read-only mode

Fails loudly (exit 2) when an expected pattern is missing: the caller treats that as a broken tie.
"""
import os, re, sys

HERE = os.path.dirname(os.path.abspath(__file__))
REPO = os.environ.get("BA_REPO") or os.path.normpath(os.path.join(HERE, "..", "..", "repo"))
OUT = os.path.normpath(os.path.join(HERE, "..", "lean", "BA", "Generated", "Opcodes.lean"))
EVM = "actors/evm/src"


class Missing(Exception):
    pass


def src(rel):
    p = os.path.join(REPO, EVM, rel)
    try:
        with open(p) as f:
            text = f.read()
    except FileNotFoundError:
        raise Missing("file not found: " + p)
    # strip comments (line + doc); keep line structure
    text = re.sub(r"/\*.*?\*/", lambda m: "\n" * m.group(0).count("\n"), text, flags=re.S)
    return re.sub(r"//[^\n]*", "", text)


def need(pattern, text, what, flags=re.S):
    m = re.search(pattern, text, flags)
    if not m:
        raise Missing("pattern not found (%s): %s" % (what, pattern))
    return m


def balanced(text, start, open_ch="{", close_ch="}"):
    """text[start] == open_ch; returns index after the matching close"""
    assert text[start] == open_ch, (text[start:start + 20], open_ch)
    depth = 0
    for i in range(start, len(text)):
        c = text[i]
        if c == open_ch:
            depth += 1
        elif c == close_ch:
            depth -= 1
            if depth == 0:
                return i + 1
    raise Missing("unbalanced braces")


def fn_body(text, name, what=None):
    m = need(r"\bfn\s+%s\s*(?:<[^{;]*?>)?\s*\(" % re.escape(name), text, what or ("fn " + name))
    i = text.index("{", _sig_end(text, m.end() - 1))
    return text[i:balanced(text, i)]


def _sig_end(text, paren_start):
    return balanced(text, paren_start, "(", ")")


# ----------------------------------------------------------------------------- opcode bytes

def opcode_bytes():
    t = src("interpreter/execution.rs")
    # shape of the dispatcher
    need(r"let\s+mut\s+table\s*:\s*\[Instruction<'r,\s*'a,\s*RT>;\s*256\]\s*=\s*\[UNDEFINED;\s*256\]", t,
         "jump table defaults to UNDEFINED for all 256 bytes")
    need(r"\$\(table\[\$code\]\s*=\s*\$op;\)\*", t, "table[$code] = $op")
    und = need(r"UNDEFINED\(_m\)\s*\{(.*?)\}\s*\}", t, "UNDEFINED handler")
    need(r"Err\(ActorError::unchecked\(\s*crate::EVM_CONTRACT_UNDEFINED_INSTRUCTION", und.group(1),
         "UNDEFINED returns EVM_CONTRACT_UNDEFINED_INSTRUCTION")
    need(r"\$op\s*\(m\)\s*\{\s*instructions::\$op\(m\)\s*\}", t, "opcode handler = instructions::$op")
    need(r"while\s+self\.pc\s*<\s*self\.bytecode\.len\(\)\s*\{", t, "execute loop bound pc < len")
    need(r"let\s+op\s*=\s*self\.bytecode\[self\.pc\];\s*unsafe\s*\{\s*Self::JMPTABLE\[op\s+as\s+usize\]\(self\)\s*\}", t,
         "step dispatches on bytecode[pc]")
    need(r"const\s+JMPTABLE\s*:\s*\[opcodes::Instruction<'r,\s*'a,\s*RT>;\s*256\]", t, "JMPTABLE has 256 entries")
    m = need(r"pub\s+mod\s+opcodes\s*\{", t, "mod opcodes")
    body = t[m.end():]
    m2 = need(r"def_opcodes!\s*\{", body, "def_opcodes! invocation")
    j = m2.end() - 1
    inv = body[j:balanced(body, j)]
    table = {}
    for mm in re.finditer(r"(0[xX][0-9a-fA-F]{1,2})\s*:\s*([A-Za-z_][A-Za-z0-9_]*)\s*,", inv):
        table[int(mm.group(1), 16)] = mm.group(2)   # later assignment wins, as in the macro
    leftovers = re.sub(r"(0[xX][0-9a-fA-F]{1,2})\s*:\s*([A-Za-z_][A-Za-z0-9_]*)\s*,", "", inv).strip("{} \n\t")
    if leftovers:
        raise Missing("unparsed text in def_opcodes!: %r" % leftovers[:80])
    if len(table) < 100:
        raise Missing("def_opcodes!: only %d entries parsed" % len(table))
    return table


# ----------------------------------------------------------------------------- macro arms

KINDS = {
    "def_primop": "primop", "def_stackop": "stackop", "def_push": "push", "def_stdfun": "stdfun",
    "def_stdproc": "stdproc", "def_stdfun_code": "stdfunCode", "def_stdproc_code": "stdprocCode",
    "def_stdlog": "stdlog", "def_jmp": "jmp", "def_exit": "exit", "def_special": "special",
}


def macro_arms(t):
    """name -> list of dict(mode, fixed_pops, pop_checked, ensure, push, pc, order_ok)"""
    out = {}
    for m in re.finditer(r"macro_rules!\s+(def_[a-z_]+)\s*\{", t):
        name = m.group(1)
        if name not in KINDS:
            continue
        i = m.end() - 1
        block = t[i + 1:balanced(t, i) - 1]
        arms = []
        k = 0
        while True:
            mm = re.compile(r"\s*\(").match(block, k)
            if not mm:
                break
            ps = mm.end() - 1
            pe = balanced(block, ps, "(", ")")
            pat = block[ps:pe]
            ma = re.compile(r"\s*=>\s*\{").match(block, pe)
            if not ma:
                raise Missing("macro %s: arm without body" % name)
            bs = ma.end() - 1
            be = balanced(block, bs)
            body = block[bs:be]
            arms.append(analyse_arm(name, pat, body))
            k = be
            mm2 = re.compile(r"\s*;?").match(block, k)
            k = mm2.end()
        if not arms:
            raise Missing("macro %s: no arms" % name)
        out[name] = arms
    for k in KINDS:
        if k not in out:
            raise Missing("macro_rules! %s not found" % k)
    return out


def analyse_arm(name, pat, body):
    a = {"macro": name}
    p = re.sub(r"\s+", "", pat)
    if name in ("def_stackop", "def_push"):
        if p != "($op:ident=>$impl:path)":
            raise Missing("%s: unexpected pattern %s" % (name, p))
        a["mode"] = "path"
    elif name == "def_stdlog":
        if p != "($op:ident($ntopics:literal,($($topic:ident),*)))":
            raise Missing("def_stdlog: unexpected pattern " + p)
        a["mode"] = "log"
    elif name == "def_special":
        if p != "($op:ident($m:ident)=>$value:expr)":
            raise Missing("def_special: unexpected pattern " + p)
        a["mode"] = "special"
    else:
        mm = re.fullmatch(r"\(\$op:ident\((.*)\)=>\$impl:path\)", p)
        if not mm:
            raise Missing("%s: unexpected pattern %s" % (name, p))
        inner = mm.group(1)
        a["mode"] = {"$($arg:ident),+": "plus", "$($arg:ident),*": "star", "": "zero"}.get(inner)
        if a["mode"] is None:
            raise Missing("%s: unexpected argument pattern %s" % (name, inner))
    b = body
    # pops
    pm = re.search(r"let\s+&rev!\[(.*?)\]\s*=\s*m\.state\.stack\.pop_many\(\)(\?)?\s*;", b, re.S)
    if pm:
        inside = re.sub(r"\s+", "", pm.group(1))
        if not pm.group(2):
            raise Missing("%s: pop_many() without `?`" % name)
        rep = re.search(r"\$\(,?\$(arg|topic)(?:,)?\)?,?\*|\$\(\$(arg|topic)\),\*|\$\(,\$(arg|topic)\)\*", inside)
        fixed = inside
        for r in (r"\$\(\$arg\),\*", r"\$\(,\$topic\)\*", r"\$\(\$topic\),\*", r"\$\(,\$arg\)\*"):
            fixed = re.sub(r, "", fixed)
        fixed_ids = [x for x in fixed.split(",") if x]
        if any(not re.fullmatch(r"[a-z_][a-z0-9_]*", x) for x in fixed_ids):
            raise Missing("%s: cannot parse pop pattern %r" % (name, inside))
        a["pops_var"] = rep is not None or "$(" in inside
        a["fixed_pops"] = len(fixed_ids)
        a["pop_pos"] = pm.start()
    else:
        if "pop_many" in b:
            raise Missing("%s: unrecognised use of pop_many" % name)
        a["pops_var"] = False
        a["fixed_pops"] = 0
        a["pop_pos"] = None
    # ensure_one
    em = re.search(r"m\.state\.stack\.ensure_one\(\)(\?)?\s*;", b)
    a["ensure"] = ("checked" if em.group(1) else "ignored") if em else "none"
    if "ensure_one" in b and not em:
        raise Missing("%s: unrecognised use of ensure_one" % name)
    # push of the result
    pu = re.search(r"m\.state\.stack\.push_unchecked\(result\)\s*;", b)
    pc_ = re.search(r"m\.state\.stack\.push\(result\)(\?)?\s*;", b)
    if pu and pc_:
        raise Missing("%s: both push and push_unchecked" % name)
    if pu:
        a["push"] = "unchecked"; ppos = pu.start()
    elif pc_:
        if not pc_.group(1):
            raise Missing("%s: checked push whose result is ignored" % name)
        a["push"] = "checked"; ppos = pc_.start()
    else:
        if re.search(r"\.push(_unchecked)?\(", b):
            raise Missing("%s: unrecognised push" % name)
        a["push"] = "none"; ppos = None
    # order: pops and ensure before the handler call and before the push
    hm = re.search(r"\$impl\(|log_event::log\(|\$value", b)
    if not hm:
        raise Missing("%s: handler call not found" % name)
    hpos = hm.start()
    if a["pop_pos"] is not None and not a["pop_pos"] < hpos:
        raise Missing("%s: pop_many after the handler" % name)
    if em and not em.start() < hpos:
        raise Missing("%s: ensure_one after the handler" % name)
    if ppos is not None and not hpos < ppos:
        raise Missing("%s: push before the handler" % name)
    # the handler's error is propagated
    if name in ("def_primop",):
        a["handler_q"] = False
    elif name == "def_special":
        a["handler_q"] = False
    else:
        q = re.search(r"(\$impl\((?:[^;]*?)\)|log_event::log\((?:[^;]*?)\))(\?)?\s*;", b, re.S)
        if not q or not q.group(2):
            raise Missing("%s: handler result not propagated with `?`" % name)
        a["handler_q"] = True
    # pc discipline
    if name == "def_jmp":
        need(r"m\.pc\s*=\s*\$impl\(m\.bytecode,\s*m\.pc,", b, "def_jmp sets pc from the handler")
        a["pc"] = "jmp"
    elif name == "def_exit":
        need(r"m\.output\s*=\s*\$impl\(.*?\)\?;\s*m\.pc\s*=\s*m\.bytecode\.len\(\);", b, "def_exit stops execution")
        a["pc"] = "exit"
    elif name == "def_push":
        need(r"m\.pc\s*\+=\s*1;\s*let\s+code\s*=\s*&m\.bytecode\[m\.pc\.\.\];\s*m\.pc\s*\+=\s*\$impl\(&mut\s+m\.state\.stack,\s*code\)\?;", b,
             "def_push pc discipline")
        a["pc"] = "push"
    else:
        need(r"m\.pc\s*\+=\s*1;\s*Ok\(\(\)\)", b, name + " advances pc by one")
        a["pc"] = "inc"
    if name == "def_stackop":
        need(r"\$impl\(&mut\s+m\.state\.stack\)\?;", b, "def_stackop delegates to the stack fn with ?")
    if not re.search(r"Ok\(\(\)\)\s*\}*\s*$", b.strip().rstrip("}").rstrip() + "}"):
        pass
    return a


def pick_arm(arms, nargs, macro):
    for a in arms:
        if a["mode"] == "plus" and nargs >= 1:
            return a
        if a["mode"] == "zero" and nargs == 0:
            return a
        if a["mode"] in ("star", "path", "log", "special"):
            return a
    raise Missing("%s: no macro arm matches %d arguments" % (macro, nargs))


# ----------------------------------------------------------------------------- invocations

# known handler functions -> constructor of `Target` in the generated file.  Anything else: exit 2.
TARGETS = """
arithmetic::add arithmetic::mul arithmetic::sub arithmetic::div arithmetic::sdiv arithmetic::modulo
arithmetic::smod arithmetic::addmod arithmetic::mulmod arithmetic::exp arithmetic::signextend
boolean::lt boolean::gt boolean::slt boolean::sgt boolean::eq boolean::iszero boolean::and boolean::or
boolean::xor boolean::not bitwise::byte bitwise::shl bitwise::shr bitwise::sar bitwise::clz
stack::dup stack::swap stack::pop stack::push
hash::keccak256 context::address state::balance context::origin context::caller context::call_value
call::calldataload call::calldatasize call::calldatacopy context::gas_price ext::extcodesize
ext::extcodecopy ext::extcodehash control::returndatasize control::returndatacopy context::blockhash
context::coinbase context::timestamp context::block_number context::prevrandao context::gas_limit
context::chain_id context::base_fee state::selfbalance memory::mload memory::mstore memory::mstore8
storage::sload storage::sstore storage::tload storage::tstore memory::msize context::gas
log_event::log call::call_call call::call_delegatecall call::call_staticcall call::codesize
call::codecopy lifecycle::create lifecycle::create2 memory::mcopy control::nop control::invalid
control::ret control::revert control::stop lifecycle::selfdestruct control::jump control::jumpi
special::pc
""".split()


def lean_target(path):
    return path.replace("::", "_")


def invocations(t, arms):
    """mnemonic -> dict(kind, pops, pushes, guard, arg, target)"""
    i = t.find("macro_rules! def_special")
    if i < 0:
        raise Missing("def_special")
    out = {}
    for m in re.finditer(r"\b(def_[a-z_]+)!\s*\{", t):
        macro = m.group(1)
        if macro not in KINDS:
            continue
        j = m.end() - 1
        inv = t[j + 1:balanced(t, j) - 1].strip()
        inv1 = re.sub(r"\s+", "", inv)
        mn = re.match(r"[A-Z][A-Z0-9]*", inv1)
        if not mn:
            continue  # a use inside a macro definition (`def_op!{ $op ...`)
        name = mn.group(0)
        rest = inv1[len(name):]
        e = {"kind": KINDS[macro], "arg": 0}
        if macro in ("def_stackop", "def_push"):
            mm = re.fullmatch(r"=>([a-z_]+::[a-z_0-9]+)(?:::<(\d+)>)?", rest)
            if not mm:
                raise Missing("cannot parse %s invocation: %s" % (macro, inv1))
            e["target"] = mm.group(1)
            e["arg"] = int(mm.group(2)) if mm.group(2) else 0
            arm = pick_arm(arms[macro], 0, macro)
            e["pops"], e["pushes"], e["guard"] = 0, 0, "none"
            if macro == "def_stackop":
                sub = {"stack::dup": "dup", "stack::swap": "swap", "stack::pop": "pop"}.get(e["target"])
                if sub is None:
                    raise Missing("def_stackop with unknown stack fn " + e["target"])
                e["kind"] = sub
                if sub == "dup":
                    e["pushes"], e["guard"] = 1, "checked"
                if sub == "pop":
                    e["pops"] = 1
                if sub in ("dup", "swap") and e["arg"] == 0:
                    raise Missing("%s: missing const generic" % name)
            else:
                if e["target"] != "stack::push":
                    raise Missing("def_push with unknown fn " + e["target"])
                e["pushes"], e["guard"] = 1, "checked"
        elif macro == "def_stdlog":
            mm = re.fullmatch(r"\((\d+),\(([a-z0-9_,]*)\)\)", rest)
            if not mm:
                raise Missing("cannot parse def_stdlog invocation: " + inv1)
            topics = [x for x in mm.group(2).split(",") if x]
            arm = pick_arm(arms[macro], len(topics), macro)
            e["target"] = "log_event::log"
            e["arg"] = int(mm.group(1))           # declared number of topics (loop bound in log())
            e["pops"] = arm["fixed_pops"] + len(topics)
            e["pushes"], e["guard"] = 0, "none"
            e["ntopicIdents"] = len(topics)
        elif macro == "def_special":
            mm = re.fullmatch(r"\(m\)=>U256::from\(m\.pc\)", rest)
            if not mm:
                raise Missing("def_special: only `PC(m) => U256::from(m.pc)` is known, got " + inv1)
            arm = pick_arm(arms[macro], 0, macro)
            e["target"] = "special::pc"
            e["pops"] = 0
            e["pushes"] = 1
            e["guard"] = arm["push"]
        else:
            mm = re.fullmatch(r"\(([a-z0-9_,]*)\)=>([a-z_]+::[a-z_0-9]+)", rest)
            if not mm:
                raise Missing("cannot parse %s invocation: %s" % (macro, inv1))
            args = [x for x in mm.group(1).split(",") if x]
            arm = pick_arm(arms[macro], len(args), macro)
            e["target"] = mm.group(2)
            e["pops"] = arm["fixed_pops"] + (len(args) if arm["pops_var"] else 0)
            if arm["pop_pos"] is None and len(args) > 0:
                raise Missing("%s: arguments but no pop_many in the macro arm" % name)
            if arm["push"] == "none":
                e["pushes"], e["guard"] = 0, "none"
            elif arm["push"] == "checked":
                e["pushes"], e["guard"] = 1, "checked"
            else:
                e["pushes"] = 1
                e["guard"] = {"checked": "ensureOne", "ignored": "ensureOneIgnored", "none": "unchecked"}[arm["ensure"]]
        if e["target"] not in TARGETS:
            raise Missing("%s: handler %s is not in the translator's list of known handlers" % (name, e["target"]))
        if name in out:
            raise Missing("instruction %s defined twice" % name)
        out[name] = e
    return out


# ----------------------------------------------------------------------------- stack.rs facts

def cmp_at(op, limit):
    """smallest length at which `len OP STACK_SIZE` holds"""
    return {">=": limit, ">": limit + 1, "==": limit}.get(op)


def stack_facts():
    t = src("interpreter/stack.rs")
    f = {}
    m = need(r"pub\s+const\s+STACK_SIZE\s*:\s*usize\s*=\s*([0-9_]+)\s*;", t, "STACK_SIZE")
    size = int(m.group(1).replace("_", ""))
    f["stackSize"] = size
    b = fn_body(t, "push")
    m = need(r"if\s+self\.stack\.len\(\)\s*(>=|>)\s*STACK_SIZE\s*\{\s*Err\(ActorError::unchecked\(EVM_CONTRACT_STACK_OVERFLOW.*?\}\s*else\s*\{\s*self\.stack\.push\(value\);\s*Ok\(\(\)\)", b, "Stack::push limit check")
    f["pushRejectAt"] = cmp_at(m.group(1), size)
    b = fn_body(t, "push_unchecked")
    need(r"^\{\s*self\.stack\.push\(value\);\s*\}$", b.strip(), "push_unchecked is a bare Vec::push")
    b = fn_body(t, "ensure_one")
    m = need(r"if\s+self\.stack\.len\(\)\s*(>=|>)\s*STACK_SIZE\s*\{\s*Err\(ActorError::unchecked\(EVM_CONTRACT_STACK_OVERFLOW.*?\}\s*else\s*\{\s*Ok\(\(\)\)", b, "ensure_one limit check")
    f["ensureOneRejectAt"] = cmp_at(m.group(1), size)
    b = fn_body(t, "pop_many")
    m = need(r"^\{\s*if\s+self\.len\(\)\s*(<|<=)\s*S\s*\{\s*return\s+Err\(ActorError::unchecked\(\s*EVM_CONTRACT_STACK_UNDERFLOW.*?\}\s*let\s+new_len\s*=\s*self\.len\(\)\s*-\s*S;\s*unsafe\s*\{\s*self\.stack\.set_len\(new_len\);\s*Ok\(&\*\(self\.stack\.as_ptr\(\)\.add\(new_len\)\s+as\s+\*const\s+\[U256;\s*S\]\)\)", b.strip(),
             "pop_many: length check before set_len")
    f["popManySlack"] = 0 if m.group(1) == "<" else 1
    b = fn_body(t, "dup")
    m = need(r"let\s+len\s*=\s*self\.stack\.len\(\);\s*if\s+len\s*(>=|>)\s*STACK_SIZE\s*\{\s*Err\(ActorError::unchecked\(EVM_CONTRACT_STACK_OVERFLOW.*?\}\s*else\s+if\s+i\s*(>|>=)\s*len\s*\{\s*Err\(ActorError::unchecked\(EVM_CONTRACT_STACK_UNDERFLOW", b, "dup checks")
    f["dupRejectAt"] = cmp_at(m.group(1), size)
    f["dupSlack"] = 0 if m.group(2) == ">" else 1
    need(r"\*self\.stack\.get_unchecked\(len\s*-\s*i\);\s*self\.stack\.set_len\(len\s*\+\s*1\);", b, "dup body")
    need(r"assert!\(i\s*>\s*0\);", b, "dup asserts i > 0")
    b = fn_body(t, "swap_top")
    m = need(r"let\s+len\s*=\s*self\.stack\.len\(\);\s*if\s+len\s*(<=|<)\s*i\s*\{\s*return\s+Err\(ActorError::unchecked\(\s*EVM_CONTRACT_STACK_UNDERFLOW.*?\}\s*self\.stack\.swap\(len\s*-\s*i\s*-\s*1,\s*len\s*-\s*1\);", b, "swap_top check")
    f["swapSlack"] = 1 if m.group(1) == "<=" else 0      # needs len >= i + swapSlack
    b = fn_body(t, "drop")
    need(r"if\s+self\.stack\.pop\(\)\.is_some\(\)\s*\{\s*Ok\(\(\)\)\s*\}\s*else\s*\{\s*Err\(ActorError::unchecked\(EVM_CONTRACT_STACK_UNDERFLOW", b, "drop")
    # instructions/stack.rs
    t2 = src("interpreter/instructions/stack.rs")
    b = fn_body(t2, "push")
    if len(re.findall(r"stack\.push\(", b)) != 2 or len(re.findall(r"stack\.push\((?:[^;]|\n)*?\)\?;", b, re.S)) != 2:
        raise Missing("instructions/stack.rs push: expected two checked `stack.push(..)?`")
    if "push_unchecked" in b:
        raise Missing("instructions/stack.rs push uses push_unchecked")
    need(r"if\s+code\.len\(\)\s*<\s*LEN\s*\{.*?let\s+mut\s+padded\s*=\s*\[0;\s*LEN\];\s*padded\[\.\.code\.len\(\)\]\.copy_from_slice\(code\);", b, "truncated push zero-pads on the right")
    need(r"Ok\(LEN\)\s*\}$", b.strip(), "push returns LEN")
    need(r"^\{\s*stack\.dup\(HEIGHT\)\s*\}$", fn_body(t2, "dup").strip(), "instructions dup")
    need(r"^\{\s*stack\.swap_top\(HEIGHT\)\s*\}$", fn_body(t2, "swap").strip(), "instructions swap")
    need(r"^\{\s*stack\.drop\(\)\s*\}$", fn_body(t2, "pop").strip(), "instructions pop")
    return f


# ----------------------------------------------------------------------------- memory facts

def memory_facts():
    f = {}
    t = src("interpreter/instructions/memory.rs")
    b = fn_body(t, "get_memory_region")
    seq = [
        (r"let\s+size\s*:\s*u(\d+)\s*=\s*size\.try_into\(\)\.map_err\(.*?EVM_CONTRACT_ILLEGAL_MEMORY_ACCESS.*?\)\?;", "size conversion"),
        (r"if\s+size\s*==\s*0\s*\{\s*return\s+Ok\(None\);\s*\}", "size == 0 -> None"),
        (r"let\s+offset\s*:\s*u(\d+)\s*=\s*offset\.try_into\(\)\.map_err\(.*?EVM_CONTRACT_ILLEGAL_MEMORY_ACCESS.*?\)\?;", "offset conversion"),
        (r"let\s+new_size\s*:\s*u(\d+)\s*=\s*offset\s*\.(checked_add|wrapping_add|saturating_add)\(size\)\s*(\.context_code\(EVM_CONTRACT_ILLEGAL_MEMORY_ACCESS,[^;]*?\)\?)?;", "offset + size"),
        (r"mem\.grow\(new_size\s+as\s+usize\);", "grow"),
        (r"Ok\(Some\(MemoryRegion\s*\{\s*offset:\s*offset\s+as\s+usize,\s*size:\s*unsafe\s*\{\s*NonZeroUsize::new_unchecked\(size\s+as\s+usize\)\s*\},?\s*\}\)\)", "region result"),
    ]
    pos = 0
    got = []
    for pat, what in seq:
        m = re.compile(pat, re.S).search(b, pos)
        if not m:
            raise Missing("get_memory_region: step not found in order: " + what)
        pos = m.end()
        got.append(m)
    f["memSizeBits"] = int(got[0].group(1))
    f["memOffsetBits"] = int(got[2].group(1))
    f["memSumBits"] = int(got[3].group(1))
    f["memSumChecked"] = (got[3].group(2) == "checked_add" and got[3].group(3) is not None)
    if got[3].group(2) == "saturating_add":
        raise Missing("get_memory_region: saturating_add is not modelled")
    if got[3].group(2) == "checked_add" and got[3].group(3) is None:
        raise Missing("get_memory_region: checked_add without error propagation")
    sig = need(r"fn\s+get_memory_region\s*\(\s*mem:\s*&mut\s+Memory,\s*offset:\s*impl\s+TryInto<u(\d+)>,\s*size:\s*impl\s+TryInto<u(\d+)>,?\s*\)", t, "get_memory_region signature")
    if int(sig.group(1)) != f["memOffsetBits"] or int(sig.group(2)) != f["memSizeBits"]:
        raise Missing("get_memory_region: signature widths differ from the conversions")
    # users of get_memory_region that rely on "size > 0 => Some"
    need(r"if\s+size\s*>\s*0\s*\{\s*copy_within_memory\(", fn_body(t, "mcopy"), "mcopy guards size > 0")
    t2 = src("interpreter/memory.rs")
    b = fn_body(t2, "grow")
    need(r"if\s+new_size\s*<=\s*self\.len\(\)\s*\{\s*return;\s*\}", b, "grow: no shrink")
    need(r"let\s+alignment\s*=\s*new_size\s*%\s*EVM_WORD_SIZE;\s*if\s+alignment\s*>\s*0\s*\{\s*new_size\s*\+=\s*EVM_WORD_SIZE\s*-\s*alignment;\s*\}", b, "grow: align up")
    need(r"self\.0\.resize\(new_size,\s*0\);", b, "grow: resize")
    lib = src("lib.rs")
    f["wordSize"] = int(need(r"const\s+EVM_WORD_SIZE\s*:\s*usize\s*=\s*(\d+)\s*;", lib, "EVM_WORD_SIZE").group(1))
    return f


# ----------------------------------------------------------------------------- bytecode / jump facts

def jump_facts(opbytes):
    f = {}
    t = src("interpreter/bytecode.rs")
    b = fn_body(t, "new")
    need(r"let\s+mut\s+jumpdest\s*=\s*vec!\[false;\s*bytecode\.len\(\)\];\s*let\s+mut\s+i\s*=\s*0;\s*while\s+i\s*<\s*bytecode\.len\(\)\s*\{", b, "analysis loop header")
    m = need(r"if\s+bytecode\[i\]\s*==\s*opcodes::([A-Z0-9]+)\s*\{\s*jumpdest\[i\]\s*=\s*true;\s*i\s*\+=\s*(\d+);\s*\}"
             r"\s*else\s+if\s+bytecode\[i\]\s*>=\s*opcodes::([A-Z0-9]+)\s*&&\s*bytecode\[i\]\s*<=\s*opcodes::([A-Z0-9]+)\s*\{\s*i\s*\+=\s*\(bytecode\[i\]\s*-\s*opcodes::([A-Z0-9]+)\)\s*as\s+usize\s*\+\s*(\d+);\s*\}"
             r"\s*else\s*\{\s*i\s*\+=\s*(\d+);\s*\}", b, "analysis loop body (jumpdest / push-data skip / other)")
    inv = {v: k for k, v in opbytes.items()}
    for nm in (m.group(1), m.group(3), m.group(4), m.group(5)):
        if nm not in inv:
            raise Missing("bytecode.rs refers to unknown opcode " + nm)
    f["anaJumpdestByte"] = inv[m.group(1)]
    f["anaJumpdestStep"] = int(m.group(2))
    f["anaPushLo"] = inv[m.group(3)]
    f["anaPushHi"] = inv[m.group(4)]
    f["anaPushBase"] = inv[m.group(5)]
    f["anaPushAdd"] = int(m.group(6))
    f["anaOtherStep"] = int(m.group(7))
    need(r"offset\s*<\s*self\.jumpdest\.len\(\)\s*&&\s*self\.jumpdest\[offset\]", fn_body(t, "valid_jump_destination"), "valid_jump_destination")
    c = src("interpreter/instructions/control.rs")
    chk = (r"let\s+dst\s*=\s*dest\.try_into\(\)\.context_code\(EVM_CONTRACT_BAD_JUMPDEST,[^;]*?\)\?;\s*"
           r"if\s+!bytecode\.valid_jump_destination\(dst\)\s*\{\s*return\s+Err\(ActorError::unchecked\(\s*EVM_CONTRACT_BAD_JUMPDEST.*?\}\s*Ok\(dst\s*\+\s*1\)")
    f["jumpValidates"] = bool(re.search(r"^\{\s*" + chk + r"\s*\}$", fn_body(c, "jump").strip(), re.S))
    f["jumpiValidates"] = bool(re.search(r"^\{\s*if\s+!test\.is_zero\(\)\s*\{\s*" + chk + r"\s*\}\s*else\s*\{\s*Ok\(pc\s*\+\s*1\)\s*\}\s*\}$", fn_body(c, "jumpi").strip(), re.S))
    if not f["jumpValidates"]:
        need(r"Ok\(dst\s*\+\s*1\)", fn_body(c, "jump"), "jump returns dst + 1")
    if not f["jumpiValidates"]:
        need(r"if\s+!test\.is_zero\(\)\s*\{.*Ok\(dst\s*\+\s*1\).*\}\s*else\s*\{\s*Ok\(pc\s*\+\s*1\)", fn_body(c, "jumpi"), "jumpi shape")
    need(r"Err\(ActorError::unchecked\(EVM_CONTRACT_INVALID_INSTRUCTION", fn_body(c, "invalid"), "invalid")
    need(r"^\{\s*Ok\(\(\)\)\s*\}$", fn_body(c, "nop").strip(), "nop")
    return f


# ----------------------------------------------------------------------------- read-only facts

EFFECT_TOKENS = [r"\.set_storage\(", r"\.set_transient_storage\(", r"emit_event\(", r"get_memory_region\(",
                 r"increment_nonce\(", r"\.send\(", r"\.send_raw\(", r"send_simple\(", r"mark_selfdestructed\(",
                 r"create_common\(", r"state\.return_data\s*=", r"\.transfer\(", r"call_precompile\("]


def guard_first(body, guard_pat, what):
    """True iff the read-only guard occurs and precedes every effect token of the body"""
    g = re.search(guard_pat, body, re.S)
    if not g:
        return False
    first_effect = min([m.start() for p in EFFECT_TOKENS for m in [re.search(p, body)] if m] or [len(body)])
    return g.start() < first_effect


RO = r"if\s+system\.readonly\s*\{\s*return\s+Err\(ActorError::read_only\("


def readonly_facts():
    f = {}
    st = src("interpreter/instructions/storage.rs")
    f["roGuardSstore"] = guard_first(fn_body(st, "sstore"), RO, "sstore")
    need(r"system\.set_storage\(key,\s*value\)", fn_body(st, "sstore"), "sstore effect")
    f["roGuardTstore"] = guard_first(fn_body(st, "tstore"), RO, "tstore")
    need(r"system\.set_transient_storage\(key,\s*value\)", fn_body(st, "tstore"), "tstore effect")
    lg = src("interpreter/instructions/log_event.rs")
    f["roGuardLog"] = guard_first(fn_body(lg, "log"), RO, "log")
    need(r"system\.rt\.emit_event\(", fn_body(lg, "log"), "log effect")
    need(r"for\s+i\s+in\s+0\.\.num_topics\s*\{\s*let\s+key\s*=\s*EVENT_TOPIC_KEYS\[i\];\s*let\s+topic\s*=\s*topics\[i\];", fn_body(lg, "log"), "log indexes topics[i] for i < num_topics")
    lc = src("interpreter/instructions/lifecycle.rs")
    f["roGuardCreate"] = guard_first(fn_body(lc, "create"), RO, "create")
    f["roGuardCreate2"] = guard_first(fn_body(lc, "create2"), RO, "create2")
    f["roGuardSelfdestruct"] = guard_first(fn_body(lc, "selfdestruct"), RO, "selfdestruct")
    cc = fn_body(lc, "create_common")
    need(r"if\s+endowment\s*>\s*system\.rt\.current_balance\(\)\s*\{\s*return\s+Ok\(U256::zero\(\)\);\s*\}\s*system\.increment_nonce\(\);", cc, "create_common balance check then nonce")
    need(r"system\.send\(\s*&EAM_ACTOR_ADDR,\s*method,\s*params,\s*endowment,\s*Some\(gas_limit\),\s*SendFlags::default\(\),?\s*\)", cc, "create_common send")
    sd = fn_body(lc, "selfdestruct")
    need(r"extract_send_result\(system\.rt\.send_simple\(&beneficiary,\s*METHOD_SEND,\s*None,\s*balance\)\)\.map_err\(.*?EVM_CONTRACT_SELFDESTRUCT_FAILED.*?\)\?;\s*system\.mark_selfdestructed\(\);", sd, "selfdestruct body")
    cl = src("interpreter/instructions/call.rs")
    cg = fn_body(cl, "call_generic")
    f["roGuardCallValue"] = guard_first(cg, r"if\s+system\.readonly\s*&&\s*value\s*>\s*U256::zero\(\)\s*\{\s*return\s+Err\(ActorError::read_only\(", "call value")
    # flags handed to nested calls
    m = re.search(r"let\s+send_flags\s*=\s*if\s+kind\s*==\s*CallKind::StaticCall\s*\{\s*SendFlags::READ_ONLY\s*\}\s*else\s*\{\s*SendFlags::default\(\)\s*\};", cg)
    f["staticCallPassesReadOnly"] = bool(m)
    if not m:
        need(r"let\s+send_flags\s*=", cg, "send_flags binding in call_generic")
    need(r"system\.send_raw\(\s*&dst_addr,\s*Method::InvokeContract\s+as\s+MethodNum,\s*params,\s*value,\s*Some\(system\.call_gas_limit\(gas\)\),\s*send_flags,?\s*\)\?", cg, "CALL/STATICCALL send_raw")
    need(r"CallKind::DelegateCall\s*=>\s*match\s+get_contract_type", cg, "delegatecall branch")
    need(r"system\s*\.send\(\s*&system\.rt\.message\(\)\.receiver\(\),\s*Method::InvokeContractDelegate\s+as\s+u64,\s*IpldBlock::serialize_dag_cbor\(&params\)\?,\s*TokenAmount::from\(&value\),\s*Some\(system\.call_gas_limit\(gas\)\),\s*SendFlags::default\(\),?\s*\)", cg, "DELEGATECALL self-send with default flags")
    for fn, kind, val in (("call_call", "Call", "value"), ("call_delegatecall", "DelegateCall", r"U256::zero\(\)"), ("call_staticcall", "StaticCall", r"U256::zero\(\)")):
        need(r"call_generic\(\s*state,\s*system,\s*CallKind::%s,\s*\(gas,\s*dst,\s*%s,\s*input_offset,\s*input_size,\s*output_offset,\s*output_size\),?\s*\)" % (kind, val), fn_body(cl, fn), fn + " -> call_generic")
    sy = src("interpreter/system.rs")
    ld = fn_body(sy, "load")
    f["systemReadonlyFromRuntime"] = bool(re.search(r"let\s+read_only\s*=\s*rt\.read_only\(\);", ld) and re.search(r"readonly:\s*read_only,", ld))
    # `readonly` is decided once, at construction: no later assignment anywhere in the actor
    for root, _, files in os.walk(os.path.join(REPO, EVM)):
        for fn in files:
            if fn.endswith(".rs"):
                txt = re.sub(r"//[^\n]*", "", open(os.path.join(root, fn)).read())
                txt = txt.split("#[cfg(test)]")[0]      # unit-test modules sit at the end of the files
                if fn == "test_util.rs":
                    continue
                if re.search(r"\.readonly\s*=[^=]", txt):
                    f["systemReadonlyFromRuntime"] = False
    need(r"if\s+crate::is_dead\(rt,\s*&state\)\s*\{\s*return\s+Ok\(Self::new\(rt,\s*true\)\);\s*\}", ld, "dead contract loads read-only")
    for fn in ("create", "resurrect"):
        need(r"let\s+read_only\s*=\s*rt\.read_only\(\);.*Ok\(Self::new\(rt,\s*read_only\)\)", fn_body(sy, fn), "System::" + fn)
    fl = fn_body(sy, "flush")
    m1 = re.search(r"if\s+self\.saved_state_root\.is_some\(\)\s*\{\s*return\s+Ok\(\(\)\);\s*\}", fl)
    if not m1:
        raise Missing("flush: early return when clean")
    m2 = re.search(r"if\s+self\.readonly\s*\{\s*return\s+Err\(ActorError::forbidden\(", fl)
    m3 = need(r"self\.rt\.set_state_root\(&new_root\)\?;\s*self\.saved_state_root\s*=\s*Some\(new_root\);", fl, "flush writes the state root")
    puts = [m.start() for m in re.finditer(r"put_cbor\(|\.flush\(\)", fl)]
    f["flushRefusesReadonly"] = bool(m2 and m1.end() <= m2.start() and all(m2.start() < p for p in puts) and m2.start() < m3.start())
    sr = fn_body(sy, "send_raw")
    need(r"^\{\s*self\.flush\(\)\?;\s*let\s+result\s*=\s*self\.rt\.send\(to,\s*method,\s*params,\s*value,\s*gas_limit,\s*send_flags\);", sr.strip(), "send_raw flushes first")
    for fn, pat in (("set_storage", r"if\s+changed\s*\{\s*self\.saved_state_root\s*=\s*None;"),
                    ("set_transient_storage", r"if\s+changed\s*\{\s*self\.saved_state_root\s*=\s*None;"),
                    ("increment_nonce", r"self\.saved_state_root\s*=\s*None;"),
                    ("mark_selfdestructed", r"self\.saved_state_root\s*=\s*None;")):
        need(pat, fn_body(sy, fn), fn + " marks the state dirty")
    lib = src("lib.rs")
    inner = fn_body(lib, "invoke_contract_inner")
    need(r"Outcome::Return\s*=>\s*\{\s*system\.flush\(\)\?;", inner, "invoke_contract_inner flushes on return")
    codes = {}
    for nm in ("REVERTED", "INVALID_INSTRUCTION", "UNDEFINED_INSTRUCTION", "STACK_UNDERFLOW", "STACK_OVERFLOW",
               "ILLEGAL_MEMORY_ACCESS", "BAD_JUMPDEST", "SELFDESTRUCT_FAILED"):
        codes[nm] = int(need(r"pub\s+const\s+EVM_CONTRACT_%s\s*:\s*ExitCode\s*=\s*ExitCode::new\((\d+)\);" % nm, lib, nm).group(1))
    f["codes"] = codes
    return f


# ----------------------------------------------------------------------------- output

KIND_ORDER = ["undefined", "primop", "stdfun", "stdproc", "stdfunCode", "stdprocCode", "dup", "swap", "pop",
              "push", "stdlog", "jmp", "exit", "special"]
GUARDS = ["none", "unchecked", "ensureOne", "ensureOneIgnored", "checked"]


def lean_bool(b):
    return "true" if b else "false"


def main():
    try:
        opbytes = opcode_bytes()
        modt = src("interpreter/instructions/mod.rs")
        arms = macro_arms(modt)
        inv = invocations(modt, arms)
        for byte, name in opbytes.items():
            if name not in inv:
                raise Missing("opcode 0x%02x %s has no def_*! handler in instructions/mod.rs" % (byte, name))
        sf = stack_facts()
        mf = memory_facts()
        jf = jump_facts(opbytes)
        rf = readonly_facts()
    except Missing as ex:
        print("extract_opcodes: " + str(ex), file=sys.stderr)
        return 2
    L = []
    L.append("-- GENERATED by tools/extract_opcodes.py from ../repo/actors/evm/src/interpreter — do not edit by hand.")
    L.append("namespace BA.Gen.Evm")
    L.append("")
    L.append("/-- macro kind that defines the instruction (`def_*!` in instructions/mod.rs; `def_stackop!` split by stack fn) -/")
    L.append("inductive Kind where\n  | " + " | ".join(KIND_ORDER) + "\n  deriving DecidableEq, Repr, Inhabited")
    L.append("")
    L.append("/-- how the macro arm pushes the handler's result: not at all, `push_unchecked` with nothing before it,\n"
             "    `push_unchecked` after `ensure_one()?`, `push_unchecked` after an `ensure_one();` whose result is dropped,\n"
             "    or the checked `push(..)?` -/")
    L.append("inductive PushGuard where\n  | " + " | ".join(GUARDS) + "\n  deriving DecidableEq, Repr, Inhabited")
    L.append("")
    L.append("/-- handler function the instruction expands to -/")
    L.append("inductive Target where\n  | none_\n  | " + "\n  | ".join(lean_target(x) for x in TARGETS) + "\n  deriving DecidableEq, Repr, Inhabited")
    L.append("")
    L.append("structure Entry where\n  byte : Nat\n  name : String\n  kind : Kind\n  /-- values removed through the length-checked `pop_many::<pops>()?` (`drop()` for POP) -/\n  pops : Nat\n  pushes : Nat\n  guard : PushGuard\n  /-- const generic of dup/swap/push; declared topic count of LOGn -/\n  arg : Nat\n  /-- LOGn: number of topic identifiers handed to `log` (slice length) -/\n  idents : Nat\n  target : Target\n  deriving Repr, Inhabited")
    L.append("")
    rows = []
    for b in range(256):
        if b in opbytes:
            n = opbytes[b]
            e = inv[n]
            rows.append("  { byte := %d, name := \"%s\", kind := .%s, pops := %d, pushes := %d, guard := .%s, arg := %d, idents := %d, target := .%s }" % (
                b, n, e["kind"], e["pops"], e["pushes"], e["guard"], e["arg"], e.get("ntopicIdents", 0), lean_target(e["target"])))
        else:
            rows.append("  { byte := %d, name := \"UNDEFINED\", kind := .undefined, pops := 0, pushes := 0, guard := .none, arg := 0, idents := 0, target := .none_ }" % b)
    L.append("/-- the 256-entry dispatch table (`JMPTABLE`), index = opcode byte -/")
    L.append("def table : List Entry := [\n" + ",\n".join(rows) + "\n]")
    L.append("")
    L.append("-- stack.rs")
    L.append("def stackSize : Nat := %d" % sf["stackSize"])
    L.append("/-- `Stack::push` refuses when `len ≥ pushRejectAt` -/")
    L.append("def pushRejectAt : Nat := %d" % sf["pushRejectAt"])
    L.append("def ensureOneRejectAt : Nat := %d" % sf["ensureOneRejectAt"])
    L.append("def dupRejectAt : Nat := %d" % sf["dupRejectAt"])
    L.append("/-- `dup(i)` needs `len ≥ i + dupSlack`; `swap_top(i)` needs `len ≥ i + swapSlack`; `pop_many::<S>` needs `len ≥ S + popManySlack` -/")
    L.append("def dupSlack : Nat := %d" % sf["dupSlack"])
    L.append("def swapSlack : Nat := %d" % sf["swapSlack"])
    L.append("def popManySlack : Nat := %d" % sf["popManySlack"])
    L.append("")
    L.append("-- instructions/memory.rs get_memory_region, memory.rs grow")
    L.append("def memSizeBits : Nat := %d" % mf["memSizeBits"])
    L.append("def memOffsetBits : Nat := %d" % mf["memOffsetBits"])
    L.append("def memSumBits : Nat := %d" % mf["memSumBits"])
    L.append("/-- `offset.checked_add(size)` with the error propagated (false: wrapping add) -/")
    L.append("def memSumChecked : Bool := %s" % lean_bool(mf["memSumChecked"]))
    L.append("def wordSize : Nat := %d" % mf["wordSize"])
    L.append("")
    L.append("-- bytecode.rs Bytecode::new, control.rs jump/jumpi")
    for k in ("anaJumpdestByte", "anaJumpdestStep", "anaPushLo", "anaPushHi", "anaPushBase", "anaPushAdd", "anaOtherStep"):
        L.append("def %s : Nat := %d" % (k, jf[k]))
    L.append("def jumpValidates : Bool := %s" % lean_bool(jf["jumpValidates"]))
    L.append("def jumpiValidates : Bool := %s" % lean_bool(jf["jumpiValidates"]))
    L.append("")
    L.append("-- read-only guards (true: `if system.readonly { return Err(read_only) }` precedes every effect of the handler)")
    for k in ("roGuardSstore", "roGuardTstore", "roGuardLog", "roGuardCreate", "roGuardCreate2", "roGuardSelfdestruct",
              "roGuardCallValue", "staticCallPassesReadOnly", "systemReadonlyFromRuntime", "flushRefusesReadonly"):
        L.append("def %s : Bool := %s" % (k, lean_bool(rf[k])))
    L.append("")
    L.append("-- exit codes (lib.rs)")
    for nm, v in rf["codes"].items():
        parts = nm.lower().split("_")
        L.append("def exit%s : Nat := %d" % ("".join(p.capitalize() for p in parts), v))
    L.append("")
    L.append("end BA.Gen.Evm")
    text = "\n".join(L) + "\n"
    old = open(OUT).read() if os.path.exists(OUT) else None
    if old != text:
        os.makedirs(os.path.dirname(OUT), exist_ok=True)
        with open(OUT, "w") as f:
            f.write(text)
        print("extract_opcodes: regenerated (changed), %d defined opcodes" % len(opbytes))
    else:
        print("extract_opcodes: unchanged, %d defined opcodes" % len(opbytes))
    return 0


if __name__ == "__main__":
    sys.exit(main())
