#!/bin/sh
# Confirm a seeded change in a scratch worktree of /repo (never in /repo itself):
#   tools/confirm_seed.sh <seed-dir> <demo-file> <dest-dir-in-tree> <cargo-package> [full]
# 1. apply patch.diff, place the demonstration, run it -> must FAIL
# 2. (full) run the repository's existing suite with the change -> must PASS
# 3. revert the change, run the demonstration -> must PASS
# Writes <seed-dir>/confirm.log and prints a one-line verdict.
set -u
seed="$1"; demo="$2"; dest="$3"; pkg="$4"; full="${5:-}"
W=/tmp/confirm/repo
export CARGO_NET_OFFLINE=true
if [ ! -d "$W" ]; then mkdir -p /tmp/confirm; git -C /repo worktree add -q --detach "$W" HEAD; fi
cd "$W" || exit 2
git checkout -q -- . ; git clean -fdq -e target
log="$seed/confirm.log"; : > "$log"
name=$(basename "$demo" .rs)
git apply "$seed/patch.diff" >> "$log" 2>&1 || { echo "VERDICT $seed: patch does not apply"; exit 1; }
cp "$seed/$demo" "$dest/$name.rs"
echo "=== demo WITH change" >> "$log"
cargo test -p "$pkg" --offline --test "$name" >> "$log" 2>&1; with=$?
suite=skipped
if [ -n "$full" ]; then
  rm -f "$dest/$name.rs"
  echo "=== existing suite WITH change" >> "$log"
  cargo nextest run --workspace --no-fail-fast --tool-config-file pb:/w/lib/nextest.toml --profile pb --test-threads 8 --offline >> "$log" 2>&1; suite=$?
  cp "$seed/$demo" "$dest/$name.rs"
fi
git apply -R "$seed/patch.diff" >> "$log" 2>&1
echo "=== demo WITHOUT change" >> "$log"
cargo test -p "$pkg" --offline --test "$name" >> "$log" 2>&1; without=$?
rm -f "$dest/$name.rs"; git checkout -q -- .
echo "VERDICT $seed: demo_with_change_exit=$with (want != 0) suite_exit=$suite (want 0) demo_without_exit=$without (want 0)"
