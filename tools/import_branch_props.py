#!/usr/bin/env python3
"""Import the props_table/manifest_meta entries of a work branch into tools/props/<id>.json.
usage: import_branch_props.py <branch> <id> [<id>...]"""
import json, subprocess, sys, os, types
branch, ids = sys.argv[1], sys.argv[2:]
def load(path):
    src = subprocess.check_output(["git", "show", f"{branch}:{path}"], text=True)
    return src
ns = {}
exec(compile(load("tools/props_table.py"), "props_table", "exec"), ns)
mod = types.ModuleType("props_table"); mod.PROPS = ns["PROPS"]; sys.modules["props_table"] = mod
ns2 = {}
exec(compile(load("tools/manifest_meta.py"), "manifest_meta", "exec"), ns2)
for pid in ids:
    out = {"config": ns["PROPS"][pid], "meta": ns2["META"][pid]}
    json.dump(out, open(os.path.join(os.path.dirname(os.path.abspath(__file__)), "props", pid + ".json"), "w"), indent=1, ensure_ascii=False)
    print("imported", pid)
