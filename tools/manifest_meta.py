"""Texts of the manifest entries (level claimed, note, technique) per property."""
from props_table import PROPS

META = {
    "C16": {
        "text": "Lean 4 theorems over a model of the paych actor that follows the Rust control flow: acceptance soundness (update_sound), exact owed delta, lane-nonce monotonicity and no_replay over arbitrary later histories, 0 <= owed <= balance in every reachable state (inv_owed), settlement height only extends, collect_exact and collect_after_delay (>= settle epoch + 1440). The model is tied to the code on every run by differential execution of generated voucher/settle/collect histories on the real actor in the harness VM against the compiled model, with an independent oracle evaluating the property on the real state.",
        "design_ref": "DESIGN.md §7 C16",
        "note": "Trusted: Lean kernel (axioms propext, Classical.choice, Quot.sound only), the hand-written model's tie to the code is differential (bounded by generator coverage reported in evidence), harness VM in place of ref-fvm, signature/hash/extra-call results as environment inputs. Completeness direction of acceptance (conditions => accept) is not yet a theorem.",
        "technique": "Lean 4 invariant/decision-logic proofs + differential correspondence of model and real actor",
    },
}

ALL = ["C%02d" % i for i in range(1, 21)]
NOT_APPLICABLE = [
    {"property_id": p, "reason": "not yet claimed in this revision: model/proofs/correspondence for it are under construction (see DESIGN.md §11 order of work); the technique applies"}
    for p in ALL if p not in PROPS
]
NOTES = "Machine-checked proof in Lean 4 over hand-written models, tied to /repo by differential execution and regenerated tables. See DESIGN.md."
