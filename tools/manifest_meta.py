"""Texts of the manifest entries (level claimed, note, technique) per property."""
from props_table import PROPS

META = {
    "C14": {
        "text": "Lean 4 theorems over models of VestingFunds (vesting_state.rs with its head/tail representation, quantize_up with truncating division, the schedule loop of add_locked_funds with fuel, unlock_vested_funds, both paths of unlock_vested_and_unvested_funds), the locked_funds layer of state.rs, locked_reward_from_reward and withdraw_balance: schedule_linear (termination within vest_period/step+1 calls, strictly increasing epochs after now+delay on the proving-period grid, cumulative amount at e = floor(sum*(e-begin)/period) or sum, total = sum) and its instantiation to the regenerated REWARD_VESTING_SPEC against the literals 518400/2880/1440 (exactly 180 entries one day apart), add_conserves, unlock_exact, no_early_unlock, forced_unlock_exact (earliest first, min(target, unvested)), forced_paths_agree, inv_all_histories and total_unlock_exact over every history of add/unlock/forced-unlock, locked_reward_75, withdraw_bound and withdraw_refused. Tied to the code on every run by differential execution: the real VestingFunds (raw head/tail compared after every op), QuantSpec::quantize_up, locked_reward_from_reward, and WithdrawBalance on a real miner in the harness VM, with an independent oracle re-deriving the expected table and balance deltas from the property statement.",
        "design_ref": "DESIGN.md §7 C14",
        "note": "Trusted: Lean kernel (axioms propext, Classical.choice, Quot.sound only); hand-written models tied to the code differentially (bounded by generator coverage reported in evidence); harness VM in place of ref-fvm; ideal block store in the model; other actors' answers to the withdrawal's sends as environment inputs. MinerFunds models only WithdrawBalance (ApplyRewards / penalties at actor level are checked by the oracle, not by a model theorem); collateral and pending early terminations are planted by the harness, not produced by sector onboarding. F1 (C03) failures are counted as inconclusive.",
        "technique": "Lean 4 algebraic-law / invariant proofs + differential correspondence of model and real data structure and actor",
    },
    "C16": {
        "text": "Lean 4 theorems over a model of the paych actor that follows the Rust control flow: acceptance soundness (update_sound), exact owed delta, lane-nonce monotonicity and no_replay over arbitrary later histories, 0 <= owed <= balance in every reachable state (inv_owed), settlement height only extends, collect_exact and collect_after_delay (>= settle epoch + 1440). The model is tied to the code on every run by differential execution of generated voucher/settle/collect histories on the real actor in the harness VM against the compiled model, with an independent oracle evaluating the property on the real state.",
        "design_ref": "DESIGN.md §7 C16",
        "note": "Trusted: Lean kernel (axioms propext, Classical.choice, Quot.sound only), the hand-written model's tie to the code is differential (bounded by generator coverage reported in evidence), harness VM in place of ref-fvm, signature/hash/extra-call results as environment inputs. Completeness direction of acceptance (conditions => accept) is not yet a theorem.",
        "technique": "Lean 4 invariant/decision-logic proofs + differential correspondence of model and real actor",
    },
}

ALL = ["C%02d" % i for i in range(1, 21)]
NOT_APPLICABLE = [
    {"property_id": p, "reason": "not yet claimed in this revision: model/proofs/correspondence for it are under construction (see DESIGN.md §11 order of work); the technique applies"}
    for p in ALL if p not in PROPS
]
NOTES = "Machine-checked proof in Lean 4 over hand-written models, tied to /repo by differential execution and regenerated tables. See DESIGN.md."
