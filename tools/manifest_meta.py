"""Texts of the manifest entries (level claimed, note, technique) per property."""
from props_table import PROPS

META = {
    "C04": {
        "text": "Two-level Lean 4 model of the miner's sector bookkeeping: Level 2 follows actors/miner/src/partition_state.rs, expiration_queue.rs, bitfield_queue.rs branch by branch (five bitfields, four power memos, quantised expiration queue with find_sectors_by_expiration / reschedule_as_faults / reschedule_all_as_faults / reschedule_recovered / remove_sectors / pop_until, early-termination queue, every error return, validate_state); Level 1 gives every sector one status and DEFINES every summary as the recomputed sum. Proved for all histories: status_partition (the five sets nest/exclude as the protocol defines after any sequence of all twelve partition methods), memo_eq_recompute_partial (live/unproven/faulty/recovering/active power memos equal the Level-1 recomputed values after any sequence of add_sectors, record_faults, declare_faults_recovered, recover_faults, activate_unproven, record_missed_post, record_skipped_faults, pop_early_terminations), queue_returns_power_of_sectors, validate_state_never_fires_partial (Partition::validate_state is implied by the invariants), sector_number_once (allocated bitfield only grows; DenyCollisions rejects any intersection, for ever). The model is tied to the code on every run by differential execution of random operation sequences on the REAL fil_actor_miner::Partition/ExpirationQueue/State::allocate_sector_numbers against the compiled model (all bitfields, memos, every queue entry, returned values compared after every call), with an independent oracle that recomputes every set relation, every partition memo and every per-epoch expiration-set memo from the sector infos.",
        "design_ref": "DESIGN.md §7 C02 / C04",
        "note": "PARTIAL on the proof side: the memo refinement is NOT yet proved for terminate_sectors, pop_expired_sectors, reschedule_expirations, replace_sectors, nor for the per-epoch ExpirationSet memos (pledge/active/faulty/fee sums, on-time/early sets) and Deadline-level counters; for those the evidence is the differential correspondence plus the recomputation oracle on the real code (DS level) and the actor-level oracle. status_partition covers all twelve methods but uses the final validate_state call of each method for the ⊆ sectors facts. 'every on-chain sector belongs to exactly one partition of exactly one deadline' is checked by the actor-level oracle only. Trusted: Lean kernel, the hand-written model's differential tie (bounded by generator coverage in the evidence), ideal sets for RLE bitfields/AMTs.",
        "technique": "Lean 4 invariant + refinement proofs over a two-level model; differential correspondence against the real data structures; recomputation oracle",
    },
    "C16": {
        "text": "Lean 4 theorems over a model of the paych actor that follows the Rust control flow: acceptance soundness (update_sound), exact owed delta, lane-nonce monotonicity and no_replay over arbitrary later histories, 0 <= owed <= balance in every reachable state (inv_owed), settlement height only extends, collect_exact and collect_after_delay (>= settle epoch + 1440). The model is tied to the code on every run by differential execution of generated voucher/settle/collect histories on the real actor in the harness VM against the compiled model, with an independent oracle evaluating the property on the real state.",
        "design_ref": "DESIGN.md §7 C16",
        "note": "Trusted: Lean kernel (axioms propext, Classical.choice, Quot.sound only), the hand-written model's tie to the code is differential (bounded by generator coverage reported in evidence), harness VM in place of ref-fvm, signature/hash/extra-call results as environment inputs. Completeness direction of acceptance (conditions => accept) is not yet a theorem.",
        "technique": "Lean 4 invariant/decision-logic proofs + differential correspondence of model and real actor",
    },
}

ALL = ["C%02d" % i for i in range(1, 21)]
NOT_APPLICABLE = [
    {"property_id": p, "reason": "not yet claimed in this revision: model/proofs/correspondence for it are under construction (see DESIGN.md §11 order of work); the technique applies"}
    for p in ALL if p not in PROPS
]
NOTES = "Machine-checked proof in Lean 4 over hand-written models, tied to /repo by differential execution and regenerated tables. See DESIGN.md."
