"""Texts of the manifest entries (level claimed, note, technique) per property."""
from props_table import PROPS

META = {
    "C09": {
        "text": "Lean 4 theorems over a model of the verified registry together with the DataCap token ledger it governs (frc46 modelled as an ideal ledger), following the Rust control flow of every registry/token method: in every reachable state supply = sum of balances = minted - burnt (ghost counters); only the governor mints/destroys; a grant lowers the verifier's allowance by exactly the grant and mints exactly it; the registry's balance equals the total size of unclaimed allocations; each allocation id ends at most once (claimed or refunded, never both, ids never reused) and a claim happens only by the named provider for matching client/data/size inside expiration and term, burning exactly the claimed size. Tied to the code on every run by differential execution of generated histories (grants, direct and operator transfers with allocation/extension requests, claim batches with repeated/foreign/mismatched/expired entries in both all-or-nothing modes, expirations, removals, term extensions, datacap removal, raw token calls) on the real verifreg+datacap actors in the harness VM against the compiled model, with an independent oracle on the real state after every message.",
        "design_ref": "DESIGN.md §7 C09 / C10",
        "note": "Trusted: Lean kernel (propext, Classical.choice, Quot.sound only); frc46_token, HAMTs, CBOR modelled as ideal containers (real ones run in the correspondence); harness VM in place of ref-fvm; senders are never the registry/token actor themselves. Theorems named *_partial state what part is not proved.",
        "technique": "Lean 4 invariant proofs over a two-actor model + differential correspondence of model and real actors + independent oracle",
    },
    "C10": {
        "text": "Lean 4 theorems over the registry claims ledger and a model of the miner's validate_extension_declarations/extend_simple_qap_sector: a claim's term_max never decreases along any history; claims/allocations leave their tables only after expiry (or by being claimed); an extension with distinct declared claim ids succeeds only if every maintained claim's maximum term covers the new expiration, claims are dropped only in the final 30 days, and the new verified weight is the maintained space. The unchanged code rejects neither a repeated claim id (finding F2) nor a sector listed in two declarations with different expirations (finding F2b): each negation is a proved concrete witness, both histories are replayed on the real miner+verifreg+datacap actors on every run and reported through known_findings.json until the fixes land (the model follows the source through two translator-generated flags). Sector scenarios (onboard a sector with two verified pieces by ProveCommitSectors3, PoSt, extend with arbitrary maintain/drop declarations) are diffed step by step against the model, plus the generic registry histories of C09.",
        "design_ref": "DESIGN.md §7 C09 / C10, §8 F2",
        "note": "sector_claims_inv is _partial: the cross-actor invariant is proved for extension steps from a state satisfying it, not across onboarding/termination (those run on the real actors under the oracle only). Trusted base as C09 plus the reduced sector record.",
        "technique": "Lean 4 decision-logic/invariant proofs + proved negation witness + differential correspondence on real actors + independent oracle",
    },
    "C16": {
        "text": "Lean 4 theorems over a model of the paych actor that follows the Rust control flow: acceptance soundness (update_sound), exact owed delta, lane-nonce monotonicity and no_replay over arbitrary later histories, 0 <= owed <= balance in every reachable state (inv_owed), settlement height only extends, collect_exact and collect_after_delay (>= settle epoch + 1440). The model is tied to the code on every run by differential execution of generated voucher/settle/collect histories on the real actor in the harness VM against the compiled model, with an independent oracle evaluating the property on the real state.",
        "design_ref": "DESIGN.md §7 C16",
        "note": "Trusted: Lean kernel (axioms propext, Classical.choice, Quot.sound only), the hand-written model's tie to the code is differential (bounded by generator coverage reported in evidence), harness VM in place of ref-fvm, signature/hash/extra-call results as environment inputs. Completeness direction of acceptance (conditions => accept) is not yet a theorem.",
        "technique": "Lean 4 invariant/decision-logic proofs + differential correspondence of model and real actor",
    },
}

ALL = ["C%02d" % i for i in range(1, 21)]
NOT_APPLICABLE = [
    {"property_id": p, "reason": "not yet claimed in this revision: model/proofs/correspondence for it are under construction (see DESIGN.md §11 order of work); the technique applies"}
    for p in ALL if p not in PROPS
]
NOTES = "Machine-checked proof in Lean 4 over hand-written models, tied to /repo by differential execution and regenerated tables. See DESIGN.md."
