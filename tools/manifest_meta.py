"""Texts of the manifest entries (level claimed, note, technique) per property."""
from props_table import PROPS

META = {
    "C16": {
        "text": "Lean 4 theorems over a model of the paych actor that follows the Rust control flow: acceptance soundness (update_sound), exact owed delta, lane-nonce monotonicity and no_replay over arbitrary later histories, 0 <= owed <= balance in every reachable state (inv_owed), settlement height only extends, collect_exact and collect_after_delay (>= settle epoch + 1440). The model is tied to the code on every run by differential execution of generated voucher/settle/collect histories on the real actor in the harness VM against the compiled model, with an independent oracle evaluating the property on the real state.",
        "design_ref": "DESIGN.md §7 C16",
        "note": "Trusted: Lean kernel (axioms propext, Classical.choice, Quot.sound only), the hand-written model's tie to the code is differential (bounded by generator coverage reported in evidence), harness VM in place of ref-fvm, signature/hash/extra-call results as environment inputs. Completeness direction of acceptance (conditions => accept) is not yet a theorem.",
        "technique": "Lean 4 invariant/decision-logic proofs + differential correspondence of model and real actor",
    },
    "C19": {
        "text": "Lean 4 refinement theorem impl_refines_spec: a model of the EVM actor's System cache (slots/transient cache, dirty flag = saved_state_root, flush before every send, reload after a successful send, VM rollback of failed sends, transient-data lifespan (origin, nonce), tombstone/is_dead) is observationally equal to Ethereum journaled-state semantics for EVERY call-tree script (CALL/STATICCALL/DELEGATECALL, reverts and failures at any depth, storage, transient storage, value transfers, logs, SELFDESTRUCT; any number of contracts, any nesting/re-entrancy) over any sequence of top-level messages with distinct (origin, nonce): every read value, every sub-call flag, final storage, destroyed set, balances, events. Named corollaries (inner_writes_visible_after_return, outer_writes_visible_to_inner, reverted_call_leaves_no_trace, transient_shared_within_message, transient_empty_next_message, selfdestruct_deferred, delegatecall_uses_caller_context) hold from an arbitrary quiescent state; two of them also in general form for arbitrary sub-scripts (failed_call_leaves_no_trace, delegatecall_is_inline). The main theorem is named impl_refines_spec_partial because the script language has no CREATE/CREATE2/Resurrect. Both layers are tied to the code on every run: generated systems of 2-4 real EVM contracts (a script-interpreter contract in raw bytecode) execute the same call-tree scripts in the harness VM; observation log, storage (GetStorageAt), GetBytecode, balances and committed events are compared with both Lean layers and with an independent journaled-state reference implementation in Rust (the oracle).",
        "design_ref": "DESIGN.md §7 C19",
        "note": "Trusted: Lean kernel (axioms propext, Quot.sound, Classical.choice only); the spec layer is my transcription of the EVM semantics (with the FEVM's SELFDESTRUCT choices); the model-to-code tie is differential (bounded by generator coverage reported in the evidence); the harness VM stands in for ref-fvm (rollback of failed sends, read-only propagation, per-message nonce). CREATE/CREATE2-in-tree and Resurrect are not modelled and not generated.",
        "technique": "Lean 4 simulation/refinement proof (mutual structural induction over nested call-tree scripts) + differential correspondence of both model layers with real EVM contracts + independent journaled-state oracle",
    },
}

ALL = ["C%02d" % i for i in range(1, 21)]
NOT_APPLICABLE = [
    {"property_id": p, "reason": "not yet claimed in this revision: model/proofs/correspondence for it are under construction (see DESIGN.md §11 order of work); the technique applies"}
    for p in ALL if p not in PROPS
]
NOTES = "Machine-checked proof in Lean 4 over hand-written models, tied to /repo by differential execution and regenerated tables. See DESIGN.md."
