"""Texts of the manifest entries (level claimed, note, technique) per property."""
from props_table import PROPS

META = {
    "C16": {
        "text": "Lean 4 theorems over a model of the paych actor that follows the Rust control flow: acceptance soundness (update_sound), exact owed delta, lane-nonce monotonicity and no_replay over arbitrary later histories, 0 <= owed <= balance in every reachable state (inv_owed), settlement height only extends, collect_exact and collect_after_delay (>= settle epoch + 1440). The model is tied to the code on every run by differential execution of generated voucher/settle/collect histories on the real actor in the harness VM against the compiled model, with an independent oracle evaluating the property on the real state.",
        "design_ref": "DESIGN.md §7 C16",
        "note": "Trusted: Lean kernel (axioms propext, Classical.choice, Quot.sound only), the hand-written model's tie to the code is differential (bounded by generator coverage reported in evidence), harness VM in place of ref-fvm, signature/hash/extra-call results as environment inputs. Completeness direction of acceptance (conditions => accept) is not yet a theorem.",
        "technique": "Lean 4 invariant/decision-logic proofs + differential correspondence of model and real actor",
    },
    "C17": {
        "text": "Lean 4 theorems, one per arithmetic/comparison/bitwise EVM instruction (ADD MUL SUB DIV SDIV MOD SMOD ADDMOD MULMOD EXP SIGNEXTEND LT GT SLT SGT EQ ISZERO AND OR XOR NOT BYTE SHL SHR SAR CLZ): the transliteration of the Rust algorithm (i256 sign stripping, sar negate/shift/fill, signextend mask, 512-bit addmod/mulmod, square-and-multiply exp, saturating shifts) equals the Yellow Paper / EIP-145 / EIP-7939 definition over Nat/Int for all 2^256-sized operands; all 26 fully proved (none partial), plus step theorems of an executable interpreter model: PUSH0-32 incl. the truncated-push rule, DUP, SWAP, CALLDATALOAD zero fill for any 256-bit index, every word opcode pushes xSpec, CALLDATACOPY/CODECOPY zero fill (copyToMemory_zero_fill), RETURNDATACOPY bounds failure, MSTORE (partial: stack/pc/failure + model memory). The model is tied to the code on every run: every opcode is executed on the real EVM actor (deployed through the EAM, invoked with InvokeContract in the harness VM) on all pairs of operand classes (0,1,2,2^k,2^k+-1,2^255,2^255+-1,2^256-1,random,small,shift amounts...) and compared with xImpl, xSpec and an independent big-integer oracle; generated multi-instruction programs (loops, computed jumps to valid/invalid targets, memory to 64 KiB, storage/transient storage, calldata/code/returndata copies, KECCAK256) are compared with the Lean interpreter on outcome class, return/revert data and final storage.",
        "design_ref": "DESIGN.md §7 C17",
        "note": "Trusted: Lean kernel (axioms propext, Classical.choice, Quot.sound only); the spec side is a hand transcription of the Yellow Paper/EIPs (two independent ones are compared: Lean and Rust big integers); the `uint` crate primitives are modelled as exact machine arithmetic; the interpreter model (memory, storage, control flow) is tied differentially only - its step theorems cover PUSH/DUP/SWAP/CALLDATALOAD/CALLDATACOPY/word opcodes/RETURNDATACOPY bounds; memory content of MLOAD/MSTORE8/MCOPY/RETURNDATACOPY, storage, KECCAK256 and the jump analysis are correspondence-only (jumpdest theorem is C18's); Keccak-256 is an oracle; gas, calls to other actors, logs, context opcodes out of scope; harness VM in place of ref-fvm.",
        "technique": "Lean 4 algebraic laws (xImpl = xSpec for all operands) + differential correspondence of the real EVM actor against the compiled Lean interpreter and word functions",
    },
}

ALL = ["C%02d" % i for i in range(1, 21)]
NOT_APPLICABLE = [
    {"property_id": p, "reason": "not yet claimed in this revision: model/proofs/correspondence for it are under construction (see DESIGN.md §11 order of work); the technique applies"}
    for p in ALL if p not in PROPS
]
NOTES = "Machine-checked proof in Lean 4 over hand-written models, tied to /repo by differential execution and regenerated tables. See DESIGN.md."
