"""Texts of the manifest entries (level claimed, note, technique) per property."""
from props_table import PROPS

META = {
    "C15": {
        "text": "Lean 4 theorems over a model of the miner's penalty/fee-debt code (monies.rs fee formulas over Int with the code's floor divisions and extracted constants; apply_penalty / repay_partial_debt_in_priority_order / repay_debts; deadline-end continued-fault + expired pre-commit charge, disputed PoSt, consensus fault, early termination, block penalty; debt-gated Withdraw/PreCommit/DeclareFaultsRecovered): termination_fee_bounds (2 % pledge <= fee <= max(8.5 % pledge, 105 % fault fee)), penalty_nonneg, penalty_accounting_partial + penalty_accounting_with_loss (debt' + burnt + reporter reward (+ lost) = debt + charged for every step, value only to the burnt-funds actor and the reporter), reporter_le_taken, debt_blocks + gate_repays_all, continued_fault_charged_partial, history_accounting (whole histories, any mix of funds), and consensus_fault_unsent_reward_lost: a proved negation witness (finding F4) for the consensus-fault step with a failing reward transfer in the unrepaired code. Tied to the code on every run by (i) evaluating the real pub fee functions on boundary grids/random inputs against the compiled model and the specified bounds and (ii) differential execution of fault/dispute/consensus-fault/termination histories on a real miner (plain CreateMiner, real power/reward/market actors, fault plan failing the reward transfer) against the model, with an independent oracle summing burn sends, reporter sends and fee_debt deltas per message from the invocation trace.",
        "design_ref": "DESIGN.md §7 C15, §8 F4",
        "note": "Trusted: Lean kernel (axioms propext, Classical.choice, Quot.sound only); hand-written model tied differentially (coverage in evidence); harness VM in place of ref-fvm; vesting table, filter estimates, faulty power and other actors' answers are inputs of the model. _partial: penalty_accounting (F4, refuted for the failing-transfer case of the unrepaired code, holds in full once Gen.cfBurnsUnsentReward = true) and continued_fault_charged (faulty power is an input, no deadline/partition model). Known finding F4 is reported as KNOWN-FINDING, any other C15 violation fails the check.",
        "technique": "Lean 4 algebraic-law + per-step/whole-history accounting proofs + differential correspondence of model and real actor + trace oracle",
    },
    "C16": {
        "text": "Lean 4 theorems over a model of the paych actor that follows the Rust control flow: acceptance soundness (update_sound), exact owed delta, lane-nonce monotonicity and no_replay over arbitrary later histories, 0 <= owed <= balance in every reachable state (inv_owed), settlement height only extends, collect_exact and collect_after_delay (>= settle epoch + 1440). The model is tied to the code on every run by differential execution of generated voucher/settle/collect histories on the real actor in the harness VM against the compiled model, with an independent oracle evaluating the property on the real state.",
        "design_ref": "DESIGN.md §7 C16",
        "note": "Trusted: Lean kernel (axioms propext, Classical.choice, Quot.sound only), the hand-written model's tie to the code is differential (bounded by generator coverage reported in evidence), harness VM in place of ref-fvm, signature/hash/extra-call results as environment inputs. Completeness direction of acceptance (conditions => accept) is not yet a theorem.",
        "technique": "Lean 4 invariant/decision-logic proofs + differential correspondence of model and real actor",
    },
}

ALL = ["C%02d" % i for i in range(1, 21)]
NOT_APPLICABLE = [
    {"property_id": p, "reason": "not yet claimed in this revision: model/proofs/correspondence for it are under construction (see DESIGN.md §11 order of work); the technique applies"}
    for p in ALL if p not in PROPS
]
NOTES = "Machine-checked proof in Lean 4 over hand-written models, tied to /repo by differential execution and regenerated tables. See DESIGN.md."
