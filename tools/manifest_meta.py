"""Texts of the manifest entries (level claimed, note, technique) per property."""
from props_table import PROPS

META = {
    "C16": {
        "text": "Lean 4 theorems over a model of the paych actor that follows the Rust control flow: acceptance soundness (update_sound), exact owed delta, lane-nonce monotonicity and no_replay over arbitrary later histories, 0 <= owed <= balance in every reachable state (inv_owed), settlement height only extends, collect_exact and collect_after_delay (>= settle epoch + 1440). The model is tied to the code on every run by differential execution of generated voucher/settle/collect histories on the real actor in the harness VM against the compiled model, with an independent oracle evaluating the property on the real state.",
        "design_ref": "DESIGN.md §7 C16",
        "note": "Trusted: Lean kernel (axioms propext, Classical.choice, Quot.sound only), the hand-written model's tie to the code is differential (bounded by generator coverage reported in evidence), harness VM in place of ref-fvm, signature/hash/extra-call results as environment inputs. Completeness direction of acceptance (conditions => accept) is not yet a theorem.",
        "technique": "Lean 4 invariant/decision-logic proofs + differential correspondence of model and real actor",
    },
    "C18": {
        "text": "Lean 4 theorems over an abstract EVM machine that follows the interpreter branch by branch and is instantiated with tables regenerated from the Rust source on every run (256-entry opcode table with macro kind / pops / pushes / push discipline, stack.rs limits and comparisons, get_memory_region guard sequence, Bytecode::new loop constants, read-only guards, send flags, flush): run_total and table_covers_all_bytes (no stuck state, every byte dispatches), stack_bound (length <= 1024 invariant of every step: generic lemma per macro arm + kernel-decided check that all 256 entries use a safe discipline and the specified arity), pop_never_underflows_unsafely and dup/swap index ranges, memory_guard (none for size 0; error iff size, offset or sum exceed u32::MAX; 32-aligned growth), jumpdest_analysis (bitmap = JUMPDEST at an instruction boundary of the inductive decoding, never push data) and jump_only_to_jumpdest, readonly_no_effects (handlers and step), flush_refuses_readonly, readonly_sticky (induction on call depth). Tied to the code by the translator and by differential runs on the real EVM actor in the harness VM: exhaustive 256 x 21 opcode x stack-height matrix, jump and memory-guard cases, arbitrary byte strings as init code / runtime code / calldata with jumpdest probing, read-only call chains with an independent state/event/balance oracle.",
        "design_ref": "DESIGN.md §7 C18",
        "note": "Trusted: Lean kernel (propext, Classical.choice, Quot.sound only), the regex translator, harness VM in place of ref-fvm (incl. its read-only propagation and missing gas), instruction result values and nested-call results as environment answers. The theorem that no step of a table entry can hit the model's `panic`/`arityMismatch` classes is given at table level (table_safe) only; the all-opcode read-only invariant is proved per guarded handler, not yet as one run-level invariant.",
        "technique": "Lean 4 invariant proofs + kernel-decided table checks over regenerated tables + differential correspondence of model and real EVM actor",
    },
}

ALL = ["C%02d" % i for i in range(1, 21)]
NOT_APPLICABLE = [
    {"property_id": p, "reason": "not yet claimed in this revision: model/proofs/correspondence for it are under construction (see DESIGN.md §11 order of work); the technique applies"}
    for p in ALL if p not in PROPS
]
NOTES = "Machine-checked proof in Lean 4 over hand-written models, tied to /repo by differential execution and regenerated tables. See DESIGN.md."
