"""Texts of the manifest entries (level claimed, note, technique) per property."""
from props_table import PROPS

META = {
    "C11": {
        "text": "Lean 4 theorems over a model of dispatch and caller validation (restrict_internal_api, table lookup with fallback rows, the caller_validated state machine, trampoline rule, rollback): extracted_matches_spec (decide +kernel: the method table regenerated from the Rust sources on every run - 158 methods of 16 actors with FRC-42 numbers, restricted/unrestricted dispatch, normalised validation term, validation-first flag, 4 fallback rows - equals the hand-written specification table), rejected_unchanged, designated_passes_validation, internal_api_closed (+ exemptions exactly EAM/EVM/placeholder), completed_implies_validated for arbitrary handler programs, verdict_sound, runtime_structure_as_modelled (structural facts of fvm.rs/dispatch.rs/shared.rs). Dynamic side is exhaustive: every (actor type, defined or boundary/undefined method number, parameter variant, 32 caller classes) cell is executed on the real actors in the harness VM and compared with the specification oracle and with the Lean model's verdict, including state-root equality after every failed call.",
        "design_ref": "DESIGN.md §7 C11",
        "note": "Trusted: Lean kernel (propext, Classical.choice, Quot.sound only); regex translator (cross-checked by the exhaustive matrix); harness VM in place of ref-fvm/fvm.rs (fvm.rs tied structurally only); handler bodies are opaque in the model, so body guards of validate-any methods (multisig signer, verifier, provider control address, ...) are exercised by the matrix but proved in C06/C09/C12/C13. Cells are top-level messages; parameters are type-correct but minimal, so for many privileged methods the designated caller passes the validation and then fails in the body.",
        "technique": "Lean 4 decision-logic proofs + source translator with decide over the regenerated table + exhaustive differential matrix on the real actors",
    },
    "C16": {
        "text": "Lean 4 theorems over a model of the paych actor that follows the Rust control flow: acceptance soundness (update_sound), exact owed delta, lane-nonce monotonicity and no_replay over arbitrary later histories, 0 <= owed <= balance in every reachable state (inv_owed), settlement height only extends, collect_exact and collect_after_delay (>= settle epoch + 1440). The model is tied to the code on every run by differential execution of generated voucher/settle/collect histories on the real actor in the harness VM against the compiled model, with an independent oracle evaluating the property on the real state.",
        "design_ref": "DESIGN.md §7 C16",
        "note": "Trusted: Lean kernel (axioms propext, Classical.choice, Quot.sound only), the hand-written model's tie to the code is differential (bounded by generator coverage reported in evidence), harness VM in place of ref-fvm, signature/hash/extra-call results as environment inputs. Completeness direction of acceptance (conditions => accept) is not yet a theorem.",
        "technique": "Lean 4 invariant/decision-logic proofs + differential correspondence of model and real actor",
    },
}

ALL = ["C%02d" % i for i in range(1, 21)]
NOT_APPLICABLE = [
    {"property_id": p, "reason": "not yet claimed in this revision: model/proofs/correspondence for it are under construction (see DESIGN.md §11 order of work); the technique applies"}
    for p in ALL if p not in PROPS
]
NOTES = "Machine-checked proof in Lean 4 over hand-written models, tied to /repo by differential execution and regenerated tables. See DESIGN.md."
