"""Texts of the manifest entries (level claimed, note, technique) per property."""
from props_table import PROPS

META = {
    "C16": {
        "text": "Lean 4 theorems over a model of the paych actor that follows the Rust control flow: acceptance soundness (update_sound), exact owed delta, lane-nonce monotonicity and no_replay over arbitrary later histories, 0 <= owed <= balance in every reachable state (inv_owed), settlement height only extends, collect_exact and collect_after_delay (>= settle epoch + 1440). The model is tied to the code on every run by differential execution of generated voucher/settle/collect histories on the real actor in the harness VM against the compiled model, with an independent oracle evaluating the property on the real state.",
        "design_ref": "DESIGN.md §7 C16",
        "note": "Trusted: Lean kernel (axioms propext, Classical.choice, Quot.sound only), the hand-written model's tie to the code is differential (bounded by generator coverage reported in evidence), harness VM in place of ref-fvm, signature/hash/extra-call results as environment inputs. Completeness direction of acceptance (conditions => accept) is not yet a theorem.",
        "technique": "Lean 4 invariant/decision-logic proofs + differential correspondence of model and real actor",
    },
    "C20": {
        "text": "Lean 4 theorems over models of the init actor (Exec, Exec4, map_addresses_to_id, can_exec), the runtime create_actor rule, auto-creating sends, the EAM (Create/Create2/CreateExternal, create_actor, can_assign_address, Resurrect dispatch) and the EVM CREATE/CREATE2/SELFDESTRUCT opcodes, all following the Rust control flow: fresh_id_exec/fresh_id_exec4 (returned id = old next_id, next_id+1, addresses unmapped before), fresh_ids_consecutive/fresh_ids_increasing (ids allocated along any history are next_id, next_id+1, ... without gap or repetition, >= 100 from genesis), stable_mapping (an address resolves to the same id after any history), robust_unique, exec_matrix, exec4_only_eam, no_overwrite + kind_stable (code at an id changes only away from a placeholder; an EVM contract is re-initialised only when dead), reserved_never_assigned + step_eth_assignable (ID-masked, precompile and null addresses), create_formula/create2_formula + eam_create(2)_uses_formula + evm_create_uses_current_nonce, rlp_create_injective, create2_preimage_injective, nonce_monotone(_run) and nonce_consumed (exactly +1 per CREATE/CREATE2 that passes the endowment check, also when the EAM call fails). Executable Keccak-256 and RLP in Lean. Tied to the code on every run by differential execution of generated histories (Exec with all code ids and callers, Exec4 from the EAM and others, EAM Create/Create2/CreateExternal, contracts executing CREATE/CREATE2 with failing/self-destructing/nested constructors, self-destruct + resurrect, CreateMiner via power, auto-creating sends, scripted hash outputs landing in reserved ranges) on the real actors in the harness VM against the compiled model, with an independent oracle (ids fresh and increasing, init address map only grows, code at every id before/after, reserved ranges, Ethereum address formulas recomputed independently, nonce rule).",
        "design_ref": "DESIGN.md §7 C20",
        "note": "Trusted: Lean kernel (axioms propext, Classical.choice, Quot.sound only); the model's tie to the code is differential (bounded by generator coverage reported in evidence); harness VM in place of ref-fvm for create_actor / auto-creation / new_actor_address; Keccak/RLP values validated by tests, collision resistance assumed; constructor outcomes and robust addresses are environment inputs. `deployer nonces only grow` is proved per incarnation (Resurrect restarts at nonce 1); reserved ranges are an EAM-level guarantee (a placeholder can be auto-created at the f410 form of a reserved address by a plain send).",
        "technique": "Lean 4 invariant/frame proofs over all histories + injectivity of RLP/CREATE2 pre-images + differential correspondence of model and real actors",
    },
}

ALL = ["C%02d" % i for i in range(1, 21)]
NOT_APPLICABLE = [
    {"property_id": p, "reason": "not yet claimed in this revision: model/proofs/correspondence for it are under construction (see DESIGN.md §11 order of work); the technique applies"}
    for p in ALL if p not in PROPS
]
NOTES = "Machine-checked proof in Lean 4 over hand-written models, tied to /repo by differential execution and regenerated tables. See DESIGN.md."
