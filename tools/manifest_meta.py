"""Texts of the manifest entries (level claimed, note, technique) per property."""
from props_table import PROPS

META = {
    "C01": {
        "text": "Conservation is a Lean theorem over a VM model that quantifies over every call tree (any actors, any nesting, any rolled-back or tolerated failing sub-call): the sum of balances is unchanged by a message; balances never go negative; a failed message changes nothing. Solvency theorems: miner (ledger model, every reachable state), payment channel (C16 inv_owed), reward payout <= balance. Tied to the code by replaying every invocation tree of a chain run on the real actors (miners, power, reward, cron, market) through the Lean model and comparing balances, with monitors for the total and for each solvency inequality after every message and tick, including fault-injected tolerated sends.",
        "design_ref": "DESIGN.md §7 C01/C03/C05",
        "note": "Trusted: Lean kernel; harness VM in place of ref-fvm; the market-solvency theorem is part of C06's model (here monitored on the real state); ledger model covers the funds paths listed in the evidence, the rest by oracle only.",
        "technique": "Lean 4 conservation theorem over all call trees + solvency invariants; trace-replay correspondence",
    },
    "C03": {
        "text": "Lean invariant (Good) over a ledger model of the miner's funds paths and its pledge-total notifications, proved for every reachable state by induction over operation histories: pcd = sum of outstanding pre-commit deposits, ip = sum of held sector pledges, solvency, non-negativity, and network total = ip + lf - unaccounted creation deposit (network_pledge_eq_partial), with kernel-checked witnesses that the unqualified equality and the 'never blocks a valid operation' clause FAIL on the code as it is (finding F1). Tied to the code by mirroring every funds-relevant real operation of a chain run on the model (balances, ledgers, burn, payout, change of the power actor's total) and by an independent oracle recomputing each ledger from sectors / pre-commits / vesting table.",
        "design_ref": "DESIGN.md §7 C01/C03/C05, §8 F1",
        "note": "F1 is reported as KNOWN-FINDING (creation deposit not in the network pledge total; pledge-total underflow blocks operations on a young network). locked_funds = sum of the vesting table is checked by the oracle here and proved in C14's vesting model. Amounts produced by fee/pledge formulas are inputs.",
        "technique": "Lean 4 ledger invariants by induction over histories + differential mirroring of real miner operations",
    },
    "C05": {
        "text": "Lean theorems over the scheduling model: the cron actor's tick is total; quantize_down/deadline arithmetic is characterised for all integers (truncating division included); deadline_tracks_epoch (after a callback at the last epoch of its window the recorded deadline is the one containing the next epoch, across period wrap); next callback exactly one window later; activation preserves 'exactly one pending proving-deadline event per active miner'; balance invariants never broken (from the ledger model). F3 and F1 witnesses are proved/replayed. Tied to the code by recomputing every real activation and every real proving-deadline callback of a chain run (new period start, deadline index, next event epoch in the power queue) with the model, and by monitors on every tick: all sub-invocations succeed, no claim lost, one pending event, recorded deadline contains next epoch, expirations and early terminations processed.",
        "design_ref": "DESIGN.md §7 C01/C03/C05, §8 F1/F3",
        "note": "F1 (callback fails on pledge-total underflow, claim lost) and F3 (no callback / stale deadline record between creation and first pre-commit) are KNOWN-FINDINGs. 'Every callback succeeds' is proved only for the modelled funds/scheduling logic; sector bookkeeping inside the callback is C02/C04's model; container/serialisation failures are outside the model.",
        "technique": "Lean 4 arithmetic + invariant proofs for the cron schedule; differential recomputation of real callbacks; tick monitors with fault injection",
    },
    "C16": {
        "text": "Lean 4 theorems over a model of the paych actor that follows the Rust control flow: acceptance soundness (update_sound), exact owed delta, lane-nonce monotonicity and no_replay over arbitrary later histories, 0 <= owed <= balance in every reachable state (inv_owed), settlement height only extends, collect_exact and collect_after_delay (>= settle epoch + 1440). The model is tied to the code on every run by differential execution of generated voucher/settle/collect histories on the real actor in the harness VM against the compiled model, with an independent oracle evaluating the property on the real state.",
        "design_ref": "DESIGN.md §7 C16",
        "note": "Trusted: Lean kernel (axioms propext, Classical.choice, Quot.sound only), the hand-written model's tie to the code is differential (bounded by generator coverage reported in evidence), harness VM in place of ref-fvm, signature/hash/extra-call results as environment inputs. Completeness direction of acceptance (conditions => accept) is not yet a theorem.",
        "technique": "Lean 4 invariant/decision-logic proofs + differential correspondence of model and real actor",
    },
}

ALL = ["C%02d" % i for i in range(1, 21)]
NOT_APPLICABLE = [
    {"property_id": p, "reason": "not yet claimed in this revision: model/proofs/correspondence for it are under construction (see DESIGN.md §11 order of work); the technique applies"}
    for p in ALL if p not in PROPS
]
NOTES = "Machine-checked proof in Lean 4 over hand-written models, tied to /repo by differential execution and regenerated tables. See DESIGN.md."
