"""Texts of the manifest entries (level claimed, note, technique) per property."""
from props_table import PROPS

META = {
    "C16": {
        "text": "Lean 4 theorems over a model of the paych actor that follows the Rust control flow: acceptance soundness (update_sound), exact owed delta, lane-nonce monotonicity and no_replay over arbitrary later histories, 0 <= owed <= balance in every reachable state (inv_owed), settlement height only extends, collect_exact and collect_after_delay (>= settle epoch + 1440). The model is tied to the code on every run by differential execution of generated voucher/settle/collect histories on the real actor in the harness VM against the compiled model, with an independent oracle evaluating the property on the real state.",
        "design_ref": "DESIGN.md §7 C16",
        "note": "Trusted: Lean kernel (axioms propext, Classical.choice, Quot.sound only), the hand-written model's tie to the code is differential (bounded by generator coverage reported in evidence), harness VM in place of ref-fvm, signature/hash/extra-call results as environment inputs. Completeness direction of acceptance (conditions => accept) is not yet a theorem.",
        "technique": "Lean 4 invariant/decision-logic proofs + differential correspondence of model and real actor",
    },
    "C07": {
        "text": "Lean 4 theorems over a model of the storage market actor that follows process_deal_update / process_slashed_deal / process_deal_init_timed_out branch by branch: payWindow_closed_form and payments_telescoping (for ANY finite time-ordered schedule of settlement/cron epochs the provider's total credit is price x (clamp e_k - clamp last_updated), independent of k and the intermediate points), payments_path_independent, no_double_pay (successive windows are adjacent), settle_pays_window (a settlement moves exactly the window from client escrow+locked to provider escrow and nothing else), completion_exact, termination_exact + termination_total (provider credited up to the termination epoch, client refunded collateral + price x (end - max(t,start)), provider collateral burnt in full, paid + refunded = total fee), timeout_exact, timeout_only_after_start_settle. The model is tied to the code on every run by differential execution of generated publish/activate/settle/cron/terminate histories on the real market actor (real miner actors as providers) against the compiled model, and an independent oracle checks on the real state that every party's escrow equals deposits - withdrawals + credits - debits - burns in closed form.",
        "design_ref": "DESIGN.md §7 C06 / C07 / C08",
        "note": "Trusted: Lean kernel (axioms propext, Classical.choice, Quot.sound only); the hand-written model's tie to the code is differential (bounded by generator coverage reported in evidence); harness VM in place of ref-fvm; signature/bounds/miner-control answers as environment inputs. The schedule theorem is stated on the model's payment function over arbitrary schedules and per transition over arbitrary states; see the evidence notes for what is proved over whole histories.",
        "technique": "Lean 4 algebraic + per-transition exactness proofs + differential correspondence of model and real actor + closed-form escrow ledger oracle",
    },
}

ALL = ["C%02d" % i for i in range(1, 21)]
NOT_APPLICABLE = [
    {"property_id": p, "reason": "not yet claimed in this revision: model/proofs/correspondence for it are under construction (see DESIGN.md §11 order of work); the technique applies"}
    for p in ALL if p not in PROPS
]
NOTES = "Machine-checked proof in Lean 4 over hand-written models, tied to /repo by differential execution and regenerated tables. See DESIGN.md."
