"""Texts of the manifest entries (level claimed, note, technique) per property — see tools/props/."""
from props_table import PROPS, META  # noqa: F401

ALL = ["C%02d" % i for i in range(1, 21)]
NOT_APPLICABLE = [
    {"property_id": p, "reason": "not yet claimed in this revision: model/proofs/correspondence for it are under construction (see DESIGN.md §11 order of work); the technique applies"}
    for p in ALL if p not in PROPS
]
NOTES = "Machine-checked proof in Lean 4 over hand-written models, tied to /repo by differential execution and regenerated tables. See DESIGN.md."
