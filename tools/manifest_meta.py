"""Texts of the manifest entries (level claimed, note, technique) per property."""
from props_table import PROPS

META = {
    "C12": {
        "text": "Lean 4 theorems over a model of the multisig actor that follows the Rust control flow (approve executes on the stored approvals first, approvals purged on remove/swap, pending entry deleted before the inner send, zero-value exemption of the lock check, admin methods require caller == receiver), with the inner send as an effect whose outcome and re-entrant activity (further calls into the wallet, including self-calls of the admin methods, nested to any depth) are universally quantified inputs: inv_shape (1 <= threshold <= |signers| <= 256, distinct signers, every pending tx has non-empty distinct approvers that are current signers, id < nextId) in every state after every history and at every inner send inside re-entrant or later rolled-back activations; send_needs_quorum; at_most_once; lock_respected with amountLocked = ceil(initial*remaining/duration), monotone, = initial before start, = 0 after the end; cancel_by_first; only_signers; admin_only_self. Tied to the code on every run by differential execution of generated histories on two real multisig actors (one a signer of the other, so executing a transaction re-enters the first wallet) in the harness VM against the compiled model, with an independent oracle that keeps its own approval log and checks every inner send found in the invocation trace.",
        "design_ref": "DESIGN.md §7 C12",
        "note": "Trusted: Lean kernel (axioms propext, Classical.choice, Quot.sound only), the hand-written model's tie to the code is differential (bounded by generator coverage reported in evidence), harness VM in place of ref-fvm, inner-send outcomes / proposal-hash comparison / parameter decoding as environment inputs, signer addresses restricted to ID addresses of existing actors.",
        "technique": "Lean 4 invariant proofs by induction over histories and call depth + differential correspondence of model and real actors + trace oracle",
    },
    "C16": {
        "text": "Lean 4 theorems over a model of the paych actor that follows the Rust control flow: acceptance soundness (update_sound), exact owed delta, lane-nonce monotonicity and no_replay over arbitrary later histories, 0 <= owed <= balance in every reachable state (inv_owed), settlement height only extends, collect_exact and collect_after_delay (>= settle epoch + 1440). The model is tied to the code on every run by differential execution of generated voucher/settle/collect histories on the real actor in the harness VM against the compiled model, with an independent oracle evaluating the property on the real state.",
        "design_ref": "DESIGN.md §7 C16",
        "note": "Trusted: Lean kernel (axioms propext, Classical.choice, Quot.sound only), the hand-written model's tie to the code is differential (bounded by generator coverage reported in evidence), harness VM in place of ref-fvm, signature/hash/extra-call results as environment inputs. Completeness direction of acceptance (conditions => accept) is not yet a theorem.",
        "technique": "Lean 4 invariant/decision-logic proofs + differential correspondence of model and real actor",
    },
}

ALL = ["C%02d" % i for i in range(1, 21)]
NOT_APPLICABLE = [
    {"property_id": p, "reason": "not yet claimed in this revision: model/proofs/correspondence for it are under construction (see DESIGN.md §11 order of work); the technique applies"}
    for p in ALL if p not in PROPS
]
NOTES = "Machine-checked proof in Lean 4 over hand-written models, tied to /repo by differential execution and regenerated tables. See DESIGN.md."
