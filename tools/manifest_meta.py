"""Texts of the manifest entries (level claimed, note, technique) per property."""
from props_table import PROPS

META = {
    "C13": {
        "text": "Lean 4 theorems over a model of the miner's control record (owner / pending owner, worker / pending key change, control addresses, beneficiary, term, pending beneficiary proposal) that follows change_owner_address, change_worker_address, confirm_change_worker_address, change_beneficiary, the quota side of withdraw_balance and process_pending_worker branch by branch. Over arbitrary histories by arbitrary callers at arbitrary epochs: owner_two_step (owner changes only by the pending owner's self-naming confirmation of a proposal that the op log shows was sent by the then-and-still owner), worker_delay (worker changes only by owner confirmation or cron at an epoch >= request epoch + 900, the request being an owner call found in the op log), beneficiary_two_sided (both approvals, each traced in the op log to a message of the nominee / the then-beneficiary, or waived because the term had nothing available at proposal time; or the beneficiary follows the owner), pending_withdrawn_only_by_owner, strangers_change_nothing, worker_controls_only_by_owner, rights_kept, pending well-formedness in every reachable state (pendingWF_run), withdraw_within_term, and completion of the three handovers in every state (owner_/worker_/beneficiary_handover_completes, the worker one with both sides of the 900-epoch boundary). Tied to the code on every run by differential execution of random interleavings of the five methods + WithdrawBalance + epoch advances with real cron ticks on the real miner actor (created by a plain CreateMiner) against the compiled model, with an independent log-keeping oracle and rights probes on rolled-back states.",
        "design_ref": "DESIGN.md §7 C13",
        "note": "Trusted: Lean kernel (axioms propext, Classical.choice, Quot.sound only); the hand-written model's tie to the code is differential (bounded by generator coverage reported in evidence); harness VM in place of ref-fvm; address resolution and the non-control parts of withdraw_balance are environment inputs. The constant 900 (worker_key_change_delay) and 10 (max_control_addresses) are re-extracted from runtime/src/runtime/policy.rs on every run and stated literally in the theorems.",
        "technique": "Lean 4 invariant proofs with ghost history over the op log + differential correspondence of model and real actor",
    },
    "C16": {
        "text": "Lean 4 theorems over a model of the paych actor that follows the Rust control flow: acceptance soundness (update_sound), exact owed delta, lane-nonce monotonicity and no_replay over arbitrary later histories, 0 <= owed <= balance in every reachable state (inv_owed), settlement height only extends, collect_exact and collect_after_delay (>= settle epoch + 1440). The model is tied to the code on every run by differential execution of generated voucher/settle/collect histories on the real actor in the harness VM against the compiled model, with an independent oracle evaluating the property on the real state.",
        "design_ref": "DESIGN.md §7 C16",
        "note": "Trusted: Lean kernel (axioms propext, Classical.choice, Quot.sound only), the hand-written model's tie to the code is differential (bounded by generator coverage reported in evidence), harness VM in place of ref-fvm, signature/hash/extra-call results as environment inputs. Completeness direction of acceptance (conditions => accept) is not yet a theorem.",
        "technique": "Lean 4 invariant/decision-logic proofs + differential correspondence of model and real actor",
    },
}

ALL = ["C%02d" % i for i in range(1, 21)]
NOT_APPLICABLE = [
    {"property_id": p, "reason": "not yet claimed in this revision: model/proofs/correspondence for it are under construction (see DESIGN.md §11 order of work); the technique applies"}
    for p in ALL if p not in PROPS
]
NOTES = "Machine-checked proof in Lean 4 over hand-written models, tied to /repo by differential execution and regenerated tables. See DESIGN.md."
