#!/usr/bin/env python3
"""Regenerate MANIFEST.json from tools/props_table.py + tools/manifest_meta.py."""
import json, os, sys
ROOT = os.path.dirname(os.path.dirname(os.path.abspath(__file__)))
sys.path.insert(0, os.path.join(ROOT, "tools"))
from props_table import PROPS
from manifest_meta import META, NOT_APPLICABLE, NOTES

checks = []
for pid in sorted(PROPS):
    m = META[pid]
    checks.append({
        "property_id": pid,
        "quick_cmd": f"./check {pid} --tier quick",
        "thorough_cmd": f"./check {pid} --tier thorough",
        "evidence_file": f"/verif/evidence/{pid}.json",
        "replay_cmd_template": f"./check {pid} --replay {{path}}",
        "engine": "lean-proofs+correspondence",
        "level_claimed": {"category": "proof", "text": m["text"], "design_ref": m["design_ref"]},
        "level_note": m["note"],
        "technique": m["technique"],
    })
manifest = {
    "version": 1,
    "setup_cmd": "./setup.sh",
    "hooks": {
        "guard": "--cfg ba_verif",
        "enable": "no hooks are needed: the harness links the actor crates by path and uses their public API (RUSTFLAGS=\"--cfg ba_verif\" reserved)",
        "baseline_off_cmd": "cd /repo && cargo nextest run --workspace --no-fail-fast --test-threads 8 --offline || cargo test --workspace --no-fail-fast --offline",
        "source_commits": [],
        "add_only": True,
    },
    "engines": [
        {"name": "lean-proofs", "path": "lean/", "serves_properties": sorted(PROPS), "kind_free_text": "Lean 4 models + theorems, lake build, #print axioms audit, leanchecker (thorough)"},
        {"name": "correspondence", "path": "harness/", "serves_properties": sorted(p for p in PROPS if PROPS[p].get("harness")), "kind_free_text": "Rust harness running the real actors (path-linked to /repo) in a harness VM, line protocol against the compiled Lean driver, diff of canonical outputs"},
        {"name": "translators", "path": "tools/", "serves_properties": sorted(PROPS), "kind_free_text": "python extractors regenerating BA/Generated/*.lean (constants, method table, opcode table) from the Rust sources on every run"},
        {"name": "impl-oracle", "path": "harness/src/props", "serves_properties": sorted(p for p in PROPS if PROPS[p].get("harness")), "kind_free_text": "property statement evaluated on the real state after every step; source of replays"},
    ],
    "checks": checks,
    "notes": NOTES,
    "not_applicable": NOT_APPLICABLE,
}
json.dump(manifest, open(os.path.join(ROOT, "MANIFEST.json"), "w"), indent=1)
print("MANIFEST.json written:", len(checks), "checks,", len(NOT_APPLICABLE), "not applicable")

# aggregate view of the known findings (the source of truth is known_findings/*.json)
import glob
kf = [json.load(open(f)) for f in sorted(glob.glob(os.path.join(ROOT, "known_findings", "*.json")))]
json.dump({"comment": "GENERATED aggregate of known_findings/*.json (one file per finding; status=known: the check prints KNOWN-FINDING and does not fail; status=fixed: suppresses nothing). Keyed by the oracle's stable violation kind + detail_regex.", "findings": kf},
          open(os.path.join(ROOT, "known_findings.json"), "w"), indent=1, ensure_ascii=False)
