#!/usr/bin/env python3
"""Translator (C11): regenerate lean/BA/Generated/Methods.lean and FvmRuntime.lean from the Rust sources.

For each of the 16 built-in actors it reads, from the text of `actors/<a>/src/lib.rs`:
  * `enum Method` (name -> number; `frc42_dispatch::method_hash!("N")` is evaluated with the FRC-42
    rule: blake2b-512("1|"+N), first big-endian 4-byte chunk >= 2^24),
  * the `actor_dispatch!` / `actor_dispatch_unrestricted!` table (method(s) -> handler fn, `_ =>` fallback),
  * inside each handler the `validate_immediate_caller_*` call(s) (following one level of helper call
    when the handler itself has none), normalised to the term language of BA/Model/DispatchTerm.lean,
    and whether a state-changing runtime call precedes the (first) validation.
From `runtime/src/runtime/fvm.rs` it records the structural facts of DESIGN §4.2 as Bool definitions,
and from `runtime/src/builtin/shared.rs` the shape of `restrict_internal_api`.

Anything unexpected (unknown address expression, two validations that are not if/else alternatives,
missing handler, missing enum) makes the script exit 2: the caller treats that as a broken tie.
"""
import hashlib, os, re, sys

HERE = os.path.dirname(os.path.abspath(__file__))
REPO = os.environ.get("BA_REPO") or os.path.normpath(os.path.join(HERE, "..", "..", "repo"))
GEN = os.path.join(HERE, "..", "lean", "BA", "Generated")

ACTORS = ["account", "cron", "datacap", "eam", "ethaccount", "evm", "init", "market", "miner",
          "multisig", "paych", "placeholder", "power", "reward", "system", "verifreg"]


class _Out:
    """write a file only when its content changes (keeps lake/cargo incremental builds quiet)"""
    def __init__(self, path):
        self.path, self.buf = path, []
    def write(self, x):
        self.buf.append(x)
    def __enter__(self):
        return self
    def __exit__(self, *a):
        new = "".join(self.buf)
        old = open(self.path).read() if os.path.exists(self.path) else None
        if old != new:
            with open(self.path, "w") as f:
                f.write(new)
        return False


def die(msg):
    sys.stderr.write("extract_methods: " + msg + "\n")
    print("extract_methods: " + msg)
    sys.exit(2)


def read(rel):
    p = os.path.join(REPO, rel)
    if not os.path.exists(p):
        die("missing source file " + rel)
    with open(p) as f:
        return f.read()


# ------------------------------------------------------------------ FRC-42

def frc42(name):
    if name == "Constructor":
        return 1
    if not re.fullmatch(r"[A-Z_][A-Za-z0-9_]*", name):
        die("illegal FRC-42 method name " + name)
    d = hashlib.blake2b(("1|" + name).encode()).digest()
    for i in range(0, 64, 4):
        v = int.from_bytes(d[i:i + 4], "big")
        if v >= (1 << 24):
            return v
    die("FRC-42 hash indeterminable for " + name)


# values known from the FRC-42 / FIP documents (self-test of the hash implementation)
KNOWN_HASHES = {"InvokeEVM": 3844450837, "AuthenticateMessage": 2643134072, "Receive": 3726118371,
                "MarketNotifyDeal": 4186741094}
for _n, _v in KNOWN_HASHES.items():
    if frc42(_n) != _v:
        die("FRC-42 self-test failed for " + _n)


# ------------------------------------------------------------------ Rust text utilities

def blank_noncode(text):
    """replace comments, string and char literals by blanks of the same length (newlines kept)"""
    out = list(text)
    i, n = 0, len(text)

    def blank(a, b):
        for k in range(a, b):
            if out[k] != "\n":
                out[k] = " "
    while i < n:
        c = text[i]
        if text.startswith("//", i):
            j = text.find("\n", i)
            j = n if j < 0 else j
            blank(i, j); i = j
        elif text.startswith("/*", i):
            j = text.find("*/", i + 2)
            j = n if j < 0 else j + 2
            blank(i, j); i = j
        elif c == '"':
            j = i + 1
            while j < n and text[j] != '"':
                j += 2 if text[j] == "\\" else 1
            blank(i + 1, j); i = j + 1
        elif c == "r" and re.match(r'r#*"', text[i:]):
            m = re.match(r'r(#*)"', text[i:])
            close = '"' + m.group(1)
            j = text.find(close, i + len(m.group(0)))
            j = n if j < 0 else j + len(close)
            blank(i, j); i = j
        elif c == "'" and re.match(r"'(\\.|[^\\'])'", text[i:]):
            m = re.match(r"'(\\.|[^\\'])'", text[i:])
            blank(i + 1, i + len(m.group(0)) - 1); i += len(m.group(0))
        else:
            i += 1
    return "".join(out)


def match_close(code, open_idx, op="{", cl="}"):
    depth = 0
    for k in range(open_idx, len(code)):
        if code[k] == op:
            depth += 1
        elif code[k] == cl:
            depth -= 1
            if depth == 0:
                return k
    die("unbalanced %s at offset %d" % (op, open_idx))


def fn_body(code, name):
    """(start, end) offsets of the body `{...}` of `fn name`, or None"""
    for m in re.finditer(r"\bfn\s+%s\s*(?:<[^>{;]*>)?\s*\(" % re.escape(name), code):
        close = match_close(code, m.end() - 1, "(", ")")
        k = close
        # skip return type / where clause up to the body's `{` (a `;` first means a declaration)
        while k < len(code) and code[k] not in "{;":
            k += 1
        if k < len(code) and code[k] == "{":
            return (k, match_close(code, k))
    return None


# ------------------------------------------------------------------ enum Method, dispatch table

def resolve_method_expr(actor, expr, srcs):
    e = expr.strip()
    if e == "METHOD_CONSTRUCTOR":
        return 1
    if re.fullmatch(r"\d[\d_]*", e):
        return int(e.replace("_", ""))
    m = re.fullmatch(r'(?:frc42_dispatch::)?method_hash!\(\s*"([^"]+)"\s*\)', e)
    if m:
        return frc42(m.group(1))
    m = re.fullmatch(r"(?:[a-z_]+::)*([A-Z][A-Z0-9_]*)", e)
    if m:  # a named constant: look it up in the crate's sources
        cname = m.group(1)
        for rel, text in srcs.items():
            mm = re.search(r"const\s+%s\s*:\s*(?:u64|MethodNum)\s*=\s*([^;]+);" % cname, text)
            if mm:
                return resolve_method_expr(actor, " ".join(mm.group(1).split()), srcs)
    die("%s: cannot evaluate method number expression `%s`" % (actor, e))


def parse_enum(actor, text, srcs):
    m = re.search(r"pub\s+enum\s+Method\s*\{", text)
    if not m:
        die("%s: `pub enum Method` not found" % actor)
    # work on the original text for the string literal inside method_hash!, comments removed by hand
    end = match_close(blank_noncode(text), m.end() - 1)
    body = re.sub(r"//[^\n]*", "", text[m.end():end])
    out = []
    for item in [x.strip() for x in body.split(",")]:
        if not item:
            continue
        mm = re.fullmatch(r"([A-Za-z_][A-Za-z0-9_]*)\s*=\s*(.+)", item, re.S)
        if not mm:
            die("%s: unrecognised enum Method item `%s`" % (actor, item))
        out.append((mm.group(1), resolve_method_expr(actor, " ".join(mm.group(2).split()), srcs)))
    if not out:
        die("%s: empty enum Method" % actor)
    nums = [n for _, n in out]
    if len(set(nums)) != len(nums):
        die("%s: duplicate method numbers in enum Method" % actor)
    return out


def parse_dispatch(actor, text):
    code = blank_noncode(text)
    ms = list(re.finditer(r"\b(actor_dispatch(?:_unrestricted)?)!\s*\{", code))
    if len(ms) != 1:
        die("%s: expected exactly one actor_dispatch! invocation, found %d" % (actor, len(ms)))
    m = ms[0]
    restricted = m.group(1) == "actor_dispatch"
    end = match_close(code, m.end() - 1)
    rows, fallback = [], None
    for item in [x.strip() for x in code[m.end():end].split(",")]:
        if not item:
            continue
        mm = re.fullmatch(r"([A-Za-z0-9_|\s]+?)\s*=>\s*([a-z_][a-z0-9_]*)\s*(?:\[\s*([a-z_]+)\s*\])?", item)
        if not mm:
            die("%s: unrecognised dispatch row `%s`" % (actor, item))
        pats = [p.strip() for p in mm.group(1).split("|")]
        if pats == ["_"]:
            if fallback is not None:
                die("%s: two fallback rows" % actor)
            fallback = (mm.group(2), mm.group(3))
        else:
            for p in pats:
                rows.append((p, mm.group(2), mm.group(3)))
    return restricted, rows, fallback


# ------------------------------------------------------------------ validation terms

SINGLETONS = {
    "SYSTEM_ACTOR_ADDR": "system", "INIT_ACTOR_ADDR": "init", "CRON_ACTOR_ADDR": "cron",
    "REWARD_ACTOR_ADDR": "reward", "STORAGE_POWER_ACTOR_ADDR": "power",
    "STORAGE_MARKET_ACTOR_ADDR": "market", "VERIFIED_REGISTRY_ACTOR_ADDR": "verifreg",
    "DATACAP_TOKEN_ACTOR_ADDR": "datacap", "EAM_ACTOR_ADDR": "eam", "BURNT_FUNDS_ACTOR_ADDR": "burnt",
}
STATE_ATOMS = {
    "info.owner": "owner", "info.worker": "worker", "info.beneficiary": "beneficiary",
    "info.control_addresses.iter()": "control", "info.control_addresses": "control",
    "st.from": "chFrom", "st.to": "chTo", "st.root_key": "rootKey", "st.governor": "governor",
    "rt.message().receiver()": "self", "rt.message().origin()": "origin",
    "Address::new_id(0)": "id0",
}
TYPES = {"Miner": "miner", "EVM": "evm", "Init": "init", "Account": "account", "EthAccount": "ethaccount",
         "Multisig": "multisig", "PaymentChannel": "paych", "Market": "market", "Power": "power",
         "Reward": "reward", "Cron": "cron", "System": "system", "VerifiedRegistry": "verifreg",
         "DataCap": "datacap", "EAM": "eam", "Placeholder": "placeholder"}
NAMESPACES = {"EAM_ACTOR_ID": "eam"}


def split_top(s):
    parts, depth, cur = [], 0, ""
    for ch in s:
        if ch in "([{":
            depth += 1
        elif ch in ")]}":
            depth -= 1
        if ch == "," and depth == 0:
            parts.append(cur); cur = ""
        else:
            cur += ch
    if cur.strip():
        parts.append(cur)
    return [p.strip() for p in parts if p.strip()]


def strip_wrappers(e):
    """peel iterator/reference/array wrappers; return list of item expressions"""
    e = e.strip()
    while True:
        old = e
        e = e.strip().rstrip(",").strip()
        if e.startswith("&"):
            e = e[1:]
        m = re.fullmatch(r"(?:std::)?iter::once\((.*)\)", e, re.S)
        if m:
            e = m.group(1)
        m = re.fullmatch(r"\[(.*)\](?:\.iter\(\))?", e, re.S)
        if m:
            return [y for x in split_top(m.group(1)) for y in strip_wrappers(x)]
        m = re.fullmatch(r"(.*?)\.chain\((.*)\)", e, re.S)
        if m and m.group(1).count("(") == m.group(1).count(")"):
            return strip_wrappers(m.group(1)) + strip_wrappers(m.group(2))
        if e == old:
            return [e]


def resolve_local(name, before, where):
    """resolve a local variable to the expression it was bound to (text before the validation)"""
    # if let Some(x) = info.pending_owner_address
    m = None
    for m in re.finditer(r"if\s+let\s+Some\(\s*%s\s*\)\s*=\s*([^{]+?)\s*\{" % re.escape(name), before):
        pass
    if m:
        src = "".join(m.group(1).split())
        if src == "info.pending_owner_address":
            return ["pendingOwner"]
        die("%s: unknown `if let Some(%s) = %s`" % (where, name, src))
    # let (a, b, c) = escrow_address(rt, &params.provider_or_client)?;
    for m in re.finditer(r"let\s*\(([^)]*)\)\s*=\s*([^;]+);", before):
        names = [x.strip() for x in m.group(1).split(",")]
        if name in names:
            rhs = "".join(m.group(2).split())
            if rhs.startswith("escrow_address(rt,&params.provider_or_client)") and names.index(name) == 2:
                return ["escrowApproved"]
            die("%s: unknown tuple binding of `%s` = %s" % (where, name, rhs))
    m = None
    for m in re.finditer(r"let\s+(?:mut\s+)?%s\s*(?::\s*[^=;]+)?=\s*([^;]+);" % re.escape(name), before):
        pass
    if m:
        return [a for x in strip_wrappers(m.group(1)) for a in atom_of(x, before[:m.start()], where)]
    die("%s: cannot resolve local `%s` used in caller validation" % (where, name))


def atom_of(expr, before, where):
    e = "".join(expr.split())
    if e.startswith("&") or e.startswith("*"):
        e = e[1:]
    if e in SINGLETONS:
        return [SINGLETONS[e]]
    if e in STATE_ATOMS:
        return [STATE_ATOMS[e]]
    if re.fullmatch(r"[a-z_][a-z0-9_]*", e):
        return resolve_local(e, before, where)
    die("%s: unknown address expression `%s` in validate_immediate_caller_is" % (where, e))


def normalise(kind, arg, before, where):
    if kind == "accept_any":
        if arg.strip():
            die("%s: accept_any with arguments" % where)
        return ("any", [])
    if kind == "is":
        atoms = []
        for it in strip_wrappers(arg):
            for a in atom_of(it, before, where):
                if a not in atoms:
                    atoms.append(a)
        if not atoms:
            die("%s: empty address list" % where)
        return ("is", atoms)
    if kind == "type":
        items = strip_wrappers(arg)
        tys = []
        for it in items:
            m = re.fullmatch(r"&?Type::([A-Za-z]+)", "".join(it.split()))
            if not m or m.group(1) not in TYPES:
                die("%s: unknown type expression `%s`" % (where, it))
            tys.append(TYPES[m.group(1)])
        return ("type", tys)
    if kind == "namespace":
        items = strip_wrappers(arg)
        ns = []
        for it in items:
            k = "".join(it.split())
            if k not in NAMESPACES:
                die("%s: unknown namespace expression `%s`" % (where, it))
            ns.append(NAMESPACES[k])
        return ("namespace", ns)
    die("%s: unknown validation kind %s" % (where, kind))


VAL_RE = re.compile(r"\.validate_immediate_caller_(accept_any|is|type|namespace)\s*\(")

# runtime calls that change state / have effects (must not precede the caller validation)
EFFECT_RE = re.compile(
    r"\brt\s*\.\s*(send|send_simple|send_generalized|create|create_actor|delete_actor|set_state_root|"
    r"emit_event|new_actor_address|charge_gas)\s*\(|\bextract_send_result\s*\(|\bSystem::(create|resurrect|load)\s*\(")


class Helpers:
    """crate functions that (transitively) perform an effectful runtime call"""
    def __init__(self, codes):
        self.bodies = {}
        for c in codes:
            for m in re.finditer(r"\bfn\s+([a-z_][a-z0-9_]*)\s*(?:<[^>{;]*>)?\s*\(", c):
                close = match_close(c, m.end() - 1, "(", ")")
                k = close
                while k < len(c) and c[k] not in "{;":
                    k += 1
                if k < len(c) and c[k] == "{":
                    self.bodies.setdefault(m.group(1), []).append(c[k:match_close(c, k)])
        self.effectful = {n for n, bs in self.bodies.items() if any(EFFECT_RE.search(b) for b in bs)}
        changed = True
        while changed:
            changed = False
            for n, bs in self.bodies.items():
                if n in self.effectful:
                    continue
                for b in bs:
                    if any(re.search(r"\b%s\s*\(" % re.escape(e), b) for e in self.effectful):
                        self.effectful.add(n); changed = True
                        break
        # names too generic to attribute (constructors of plain data) are never effectful here
        self.effectful -= {"new", "default", "from", "into"}

    def search(self, text):
        for e in self.effectful:
            if re.search(r"\b%s\s*\(" % re.escape(e), text):
                return e
        return None


HELPERS = None


class _SH:
    @staticmethod
    def search(text):
        return HELPERS.search(text)


SENDING_HELPERS = _SH


def find_validations(code, lo, hi):
    """all validation calls inside code[lo:hi] as (offset, kind, arg_text)"""
    out = []
    for m in VAL_RE.finditer(code, lo, hi):
        close = match_close(code, m.end() - 1, "(", ")")
        out.append((m.start(), m.group(1), code[m.end():close]))
    return out


def enclosing_blocks(code, lo, pos):
    """offsets of the `{` of every block open at `pos` (relative to function body start lo)"""
    stack = []
    for k in range(lo, pos):
        if code[k] == "{":
            stack.append(k)
        elif code[k] == "}":
            stack.pop()
    return stack


def block_header(code, brace):
    """text of the statement head that introduces the block opening at `brace`"""
    k = brace - 1
    depth = 0
    while k >= 0:
        ch = code[k]
        if ch in ")]":
            depth += 1
        elif ch in "([":
            if depth == 0:
                break
            depth -= 1
        elif ch in ";{}" and depth == 0:
            break
        k -= 1
    return " ".join(code[k + 1:brace].split())


def alternatives(code, lo, vals, where):
    """More than one validation in a handler: they must sit in different arms of one if/else-if/match
    chain (so at most one runs).  Returns True when that holds."""
    # every validation must be directly inside a block whose header is `if …`, `else if …`, `else` or a match arm
    arms = []
    for off, _, _ in vals:
        st = enclosing_blocks(code, lo, off)
        arm = None
        for b in reversed(st):
            h = block_header(code, b)
            if re.match(r"(if\b|else\b|\}?\s*else\b)", h) or h.endswith("=>"):
                arm = b
                break
        if arm is None:
            return False
        arms.append(arm)
    if len(set(arms)) != len(arms):
        return False
    # consecutive arms must be chained by `else` (if/else) or be sibling match arms
    for a, b in zip(arms, arms[1:]):
        close_a = match_close(code, a)
        between = " ".join(code[close_a + 1:b].split())
        if not (between.startswith("else") or block_header(code, b).endswith("=>")):
            return False
    return True


def analyse_handler(actor, fname, code, crate_codes, depth=0):
    """returns (terms:list[(kind, atoms)], validation_first:bool, via:str)"""
    where = "%s::%s" % (actor, fname)
    span = fn_body(code, fname)
    owner_code = code
    if span is None:
        for rel, c in crate_codes.items():
            span = fn_body(c, fname)
            if span:
                owner_code = c
                break
    if span is None:
        die("%s: handler function not found" % where)
    lo, hi = span
    c = owner_code
    vals = find_validations(c, lo, hi)
    if not vals:
        if depth >= 1:
            return None
        # follow one level of helper call: first call (textual order) to a crate function that validates
        for m in re.finditer(r"\b(?:Self::|self\.)?([a-z_][a-z0-9_]*)\s*(?:::<[^>]*>)?\s*\(", c[lo:hi]):
            callee = m.group(1)
            if callee == fname or callee in ("Ok", "Err", "Some"):
                continue
            has = any(fn_body(cc, callee) for cc in [owner_code] + list(crate_codes.values()))
            if not has:
                continue
            sub = analyse_handler(actor, callee, owner_code, crate_codes, depth + 1)
            if sub is None:
                continue
            terms, first, _ = sub
            pre = c[lo:lo + m.start()]
            if EFFECT_RE.search(pre) or SENDING_HELPERS.search(pre):
                first = False
            return terms, first, callee
        die("%s: no validate_immediate_caller_* call in the handler or one level below" % where)
    if len(vals) > 1 and not alternatives(c, lo, vals, where):
        die("%s: %d caller validations that are not if/else alternatives" % (where, len(vals)))
    terms = []
    for off, kind, arg in vals:
        t = normalise(kind, arg, c[lo:off], where)
        if t not in terms:
            terms.append(t)
    first_off = vals[0][0]
    pre = c[lo:first_off]
    first = True
    if EFFECT_RE.search(pre) or SENDING_HELPERS.search(pre):
        first = False
    # a transaction that was opened *and closed* before the validation has already written state
    for m in re.finditer(r"\brt\s*\.\s*transaction\s*\(", pre):
        close = match_close(c, lo + m.end() - 1, "(", ")")
        if close < first_off:
            first = False
    # inside an open transaction closure: no state mutation before the validation
    if re.search(r"\b(st|state)\s*\.\s*[a-z_]+\s*(=[^=]|\+=|-=)", pre) or re.search(r"\b(st|state)\s*\.\s*(put|set|save|add|remove|delete)[a-z_]*\s*\(", pre):
        first = False
    return terms, first, ""


# ------------------------------------------------------------------ Lean output

def lean_term(terms):
    def one(t):
        kind, xs = t
        if kind == "any":
            return ".any"
        if kind == "is":
            return ".is [" + ", ".join("." + x for x in xs) + "]"
        if kind == "type":
            return ".type [" + ", ".join("." + x for x in xs) + "]"
        if kind == "namespace":
            return ".namespace [" + ", ".join("." + x for x in xs) + "]"
    def par(x):
        return x if x == ".any" else "(" + x + ")"
    r = one(terms[-1])
    for t in reversed(terms[:-1]):
        r = ".alt %s %s" % (par(one(t)), par(r))
    return r


def main():
    entries = []      # (actor, method, number, restricted, term, first, handler, via)
    fallbacks = []    # (actor, restricted, term, first, handler)
    tables = []       # (actor, restricted, hasFallback, nMethods)
    notes = []
    for actor in ACTORS:
        rel = "actors/%s/src/lib.rs" % actor
        text = read(rel)
        if actor == "placeholder":
            if re.search(r"enum\s+Method|actor_dispatch|validate_immediate_caller", text):
                die("placeholder: expected an actor without methods")
            if not re.search(r"pub\s+extern\s+\"C\"\s+fn\s+invoke\s*\(\s*_\s*:\s*u32\s*\)\s*->\s*u32\s*\{\s*0\s*\}", text):
                die("placeholder: expected `invoke` to return 0 without doing anything")
            tables.append((actor, False, False, 0))
            continue
        srcdir = os.path.join(REPO, "actors", actor, "src")
        srcs = {}
        for root, _, files in os.walk(srcdir):
            for f in files:
                if f.endswith(".rs"):
                    p = os.path.join(root, f)
                    srcs[os.path.relpath(p, REPO)] = open(p).read()
        codes = {r: blank_noncode(t) for r, t in srcs.items()}
        code = codes[rel]
        global HELPERS
        HELPERS = Helpers(list(codes.values()))
        methods = parse_enum(actor, text, srcs)
        restricted, rows, fallback = parse_dispatch(actor, text)
        mnum = dict(methods)
        seen = set()
        for pat, fn, tag in rows:
            if pat not in mnum:
                die("%s: dispatch row names unknown method %s" % (actor, pat))
            if pat in seen:
                die("%s: method %s dispatched twice" % (actor, pat))
            seen.add(pat)
            terms, first, via = analyse_handler(actor, fn, code, {r: c for r, c in codes.items() if r != rel})
            entries.append((actor, pat, mnum[pat], restricted, lean_term(terms), first, fn, via))
            if not first:
                notes.append("%s.%s (%s): a runtime interaction precedes the caller validation" % (actor, pat, fn))
        missing = [n for n, _ in methods if n not in seen]
        if missing:
            die("%s: enum Method entries without a dispatch row: %s" % (actor, ", ".join(missing)))
        if fallback:
            terms, first, via = analyse_handler(actor, fallback[0], code, {r: c for r, c in codes.items() if r != rel})
            fallbacks.append((actor, restricted, lean_term(terms), first, fallback[0]))
        tables.append((actor, restricted, fallback is not None, len(rows)))

    # restrict_internal_api + FIRST_EXPORTED_METHOD_NUMBER
    shared = read("runtime/src/builtin/shared.rs")
    m = re.search(r"pub\s+const\s+FIRST_EXPORTED_METHOD_NUMBER\s*:\s*MethodNum\s*=\s*1\s*<<\s*(\d+)\s*;", shared)
    if not m:
        die("FIRST_EXPORTED_METHOD_NUMBER = 1 << N not found")
    first_exported = 1 << int(m.group(1))
    sc = blank_noncode(shared)
    sp = fn_body(sc, "restrict_internal_api")
    if not sp:
        die("restrict_internal_api not found")
    rb = " ".join(sc[sp[0]:sp[1] + 1].split())
    ria = {
        "riaExportedPass": bool(re.match(r"\{ if method >= FIRST_EXPORTED_METHOD_NUMBER \{ return Ok\(\(\)\); \}", rb)),
        "riaNoCodeForbidden": bool(re.search(r"None => \{ return Err\( actor_error!\(forbidden;", rb)),
        "riaNonBuiltinOrEvmForbidden": bool(re.search(r"None \| Some\(Type::EVM\) => \{ return Err\( actor_error!\(forbidden;", rb)),
        "riaOtherBuiltinPass": bool(re.search(r"Some\(_\) => \{\s*\}", rb)) and rb.rstrip().endswith("Ok(()) }"),
    }
    # the set of types named in the rejecting arm (exactly EVM)
    rej = re.search(r"match builtin_type \{ None((?:\s*\|\s*Some\(Type::[A-Za-z]+\))*)\s*=>\s*\{\s*return Err", rb)
    rej_types = re.findall(r"Type::([A-Za-z]+)", rej.group(1)) if rej else None
    if rej_types is None:
        die("restrict_internal_api: rejecting match arm not recognised")
    for t in rej_types:
        if t not in TYPES:
            die("restrict_internal_api: unknown type " + t)
    disp = blank_noncode(read("runtime/src/dispatch.rs"))
    md = re.search(r"macro_rules!\s*actor_dispatch\s*\{", disp)
    mu = re.search(r"macro_rules!\s*actor_dispatch_unrestricted\s*\{", disp)
    if not md or not mu:
        die("dispatch macros not found")
    body_d = " ".join(disp[md.end():match_close(disp, md.end() - 1)].split())
    body_u = " ".join(disp[mu.end():match_close(disp, mu.end() - 1)].split())
    macro = {
        "dispatchRestrictsFirst": bool(re.search(r"\{ \$crate::builtin::shared::restrict_internal_api\(rt, method\)\?; match <Self::Methods as num_traits::FromPrimitive>::from_u64\(method\)", body_d)),
        "dispatchUnknownUnhandled": "None => Err(actor_error!(unhandled_message;" in body_d,
        "unrestrictedSkipsRestriction": "restrict_internal_api" not in body_u,
        "unrestrictedUnknownUnhandled": "None => Err(actor_error!(unhandled_message;" in body_u,
    }

    # fvm.rs structural facts
    fvm = blank_noncode(read("runtime/src/runtime/fvm.rs"))
    facts = {}
    anv = fn_body(fvm, "assert_not_validated")
    if not anv:
        die("fvm.rs: assert_not_validated not found")
    anv_b = " ".join(fvm[anv[0]:anv[1] + 1].split())
    facts["assertNotValidatedRejectsSecond"] = bool(re.match(
        r"\{ if \*self\.caller_validated\.borrow\(\) \{ return Err\(actor_error!\( assertion_failed,", anv_b)) and anv_b.endswith("Ok(()) }")
    for kind in ["accept_any", "is", "namespace", "type"]:
        sp = fn_body(fvm, "validate_immediate_caller_" + kind)
        if not sp:
            die("fvm.rs: validate_immediate_caller_%s not found" % kind)
        b = " ".join(fvm[sp[0]:sp[1] + 1].split())
        camel = {"accept_any": "AcceptAny", "is": "Is", "namespace": "Namespace", "type": "Type"}[kind]
        facts["validate%sBeginsWithAssert" % camel] = b.startswith("{ self.assert_not_validated()?;")
        sets = [mm.start() for mm in re.finditer(r"self\.caller_validated\.replace\(true\);", b)]
        ok = len(sets) == 1
        if ok and kind != "accept_any":
            # the single flag write is immediately followed by Ok(()) and lives in the accepting branch;
            # the other branch returns Err(actor_error!(forbidden …)) without touching the flag
            after = b[sets[0]:]
            ok = after.startswith("self.caller_validated.replace(true); Ok(())") and "Err(actor_error!(forbidden;" in after
            head = b[:sets[0]]
            ok = ok and bool(re.search(r"(if [^{]*\{|=> \{) $", head))
        elif ok:
            ok = b.endswith("self.caller_validated.replace(true); Ok(()) }")
        facts["validate%sSetsFlagOnlyOnAccept" % camel] = ok
    facts["validateMismatchIsForbidden"] = all(
        "Err(actor_error!(forbidden;" in " ".join(fvm[slice(*fn_body(fvm, "validate_immediate_caller_" + k))].split())
        for k in ["is", "namespace", "type"])
    tr = fn_body(fvm, "trampoline")
    if not tr:
        die("fvm.rs: trampoline not found")
    tb = " ".join(fvm[tr[0]:tr[1] + 1].split())
    i_inv = tb.find("C::invoke_method(&rt, method, params)")
    i_chk = tb.find("if !*rt.caller_validated.borrow() { fvm::vm::abort(ExitCode::USR_ASSERTION_FAILED.value()")
    i_ret = tb.find("match ret {")
    facts["trampolineFreshRuntime"] = "let rt = FvmRuntime::default();" in tb and bool(
        re.search(r"caller_validated: RefCell::new\(false\)", fvm))
    facts["trampolineErrorExits"] = "unwrap_or_else(|mut err| { fvm::vm::exit(err.exit_code().value()" in tb
    facts["trampolineAbortsWhenUnvalidated"] = 0 <= i_inv < i_chk < i_ret
    n_writes = len(re.findall(r"caller_validated\s*\.\s*replace\(", fvm))
    facts["flagWrittenOnlyByValidators"] = n_writes == 4

    os.makedirs(GEN, exist_ok=True)
    with _Out(os.path.join(GEN, "Methods.lean")) as f:
        f.write("-- GENERATED by tools/extract_methods.py from the actors' lib.rs — do not edit by hand.\n")
        f.write("import BA.Model.DispatchTerm\nimport BA.Generated.Constants\nnamespace BA.Gen\nopen BA.Dispatch\n\n")
        f.write("-- the export boundary is defined in Generated/Constants.lean; this extractor read the same value\n")
        f.write("example : firstExportedMethodNumber = %d := rfl\n\n" % first_exported)
        f.write("/-- one row per (actor, method of `enum Method`) as dispatched by the actor's dispatch table -/\n")
        f.write("def methods : List Entry := [\n")
        f.write(",\n".join(
            "  ⟨.%s, \"%s\", %d, %s, %s, %s⟩" % (a, mname, num, "true" if r else "false", term, "true" if first else "false")
            for (a, mname, num, r, term, first, fn, via) in entries))
        f.write("\n]\n\n")
        f.write("/-- `_ => handler` rows: the handler every otherwise undefined method number is sent to -/\n")
        f.write("def fallbacks : List Fallback := [\n")
        f.write(",\n".join("  ⟨.%s, %s, %s⟩" % (a, term, "true" if first else "false") for (a, r, term, first, fn) in fallbacks))
        f.write("\n]\n\n")
        f.write("/-- per actor: uses `actor_dispatch!` (restricted) or `actor_dispatch_unrestricted!`, has a fallback row, #rows -/\n")
        f.write("def tables : List Table := [\n")
        f.write(",\n".join("  ⟨.%s, %s, %s, %d⟩" % (a, "true" if r else "false", "true" if fb else "false", n) for (a, r, fb, n) in tables))
        f.write("\n]\n\n")
        f.write("/-- actor types named in the rejecting arm of `restrict_internal_api` (besides `None` = not built-in) -/\n")
        f.write("def riaRejectedTypes : List CodeType := [%s]\n" % ", ".join("." + TYPES[t] for t in rej_types))
        for k, v in list(ria.items()) + list(macro.items()):
            f.write("def %s : Bool := %s\n" % (k, "true" if v else "false"))
        f.write("\n-- handler functions (informational): " + "; ".join(
            "%s.%s→%s%s" % (a, mname, fn, ("(via %s)" % via if via else "")) for (a, mname, num, r, term, first, fn, via) in entries if via) + "\n")
        f.write("end BA.Gen\n")
    with _Out(os.path.join(GEN, "FvmRuntime.lean")) as f:
        f.write("-- GENERATED by tools/extract_methods.py from runtime/src/runtime/fvm.rs — do not edit by hand.\n")
        f.write("-- Structural facts only (DESIGN §4.2): fvm.rs cannot be executed in this sandbox.\n")
        f.write("namespace BA.Gen.Fvm\n")
        for k, v in facts.items():
            f.write("def %s : Bool := %s\n" % (k, "true" if v else "false"))
        f.write("end BA.Gen.Fvm\n")
    print("extract_methods: %d method rows, %d fallbacks, %d tables; validation-not-first: %d" % (
        len(entries), len(fallbacks), len(tables), len(notes)))
    for n in notes:
        print("  note: " + n)
    if "--dump" in sys.argv:
        for e in entries:
            print(e)
        for e in fallbacks:
            print("fallback", e)
    return 0


if __name__ == "__main__":
    sys.exit(main())
