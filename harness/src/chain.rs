//! Chain simulator on the vvm: singleton actors + miners created by plain `CreateMiner`
//! messages, raw (assertion-free) message builders for the miner life cycle, epoch advance with
//! the cron tick, and read-only views of miner / power state used by the oracles.
use crate::world::{Applied, World};
use fil_actor_cron::Method as CronMethod;
use fil_actor_miner::{
    BitFieldQueue, CompactCommD, DeadlineInfo, DeclareFaultsParams, DeclareFaultsRecoveredParams,
    ExpirationExtension2, ExtendSectorExpiration2Params, FaultDeclaration, Method as MinerMethod,
    NO_QUANTIZATION, PRECOMMIT_CONFIG, PoStPartition, PreCommitMap, PreCommitSectorBatchParams2,
    ProveCommitSectors3Params, RecoveryDeclaration, ReportConsensusFaultParams,
    SectorActivationManifest, SectorOnChainInfo, SectorPreCommitInfo, Sectors,
    State as MinerState, SubmitWindowedPoStParams, TerminateSectorsParams, TerminationDeclaration,
    WithdrawBalanceParams, max_prove_commit_duration,
};
use fil_actor_power::{
    CRON_QUEUE_AMT_BITWIDTH, CRON_QUEUE_HAMT_BITWIDTH, CreateMinerParams, CreateMinerReturn,
    CronEvent, Method as PowerMethod, State as PowerState,
};
use fil_actor_reward::{AwardBlockRewardParams, Method as RewardMethod};
use fil_actors_runtime::runtime::Policy;
use fil_actors_runtime::test_utils::make_sealed_cid;
use fil_actors_runtime::{
    CRON_ACTOR_ADDR, Multimap, REWARD_ACTOR_ADDR, STORAGE_POWER_ACTOR_ADDR, SYSTEM_ACTOR_ADDR,
};
use fvm_ipld_bitfield::BitField;
use fvm_ipld_encoding::{BytesDe, RawBytes};
use fvm_shared::address::Address;
use fvm_shared::bigint::BigInt;
use fvm_shared::econ::TokenAmount;
use fvm_shared::randomness::Randomness;
use fvm_shared::sector::{PoStProof, RegisteredPoStProof, RegisteredSealProof};
use num_traits::Zero;
use std::collections::{BTreeMap, BTreeSet};
use vm_api::VM;
use vm_api::util::get_state;

pub const SEAL_PROOF: RegisteredSealProof = RegisteredSealProof::StackedDRG32GiBV1P1;
pub const POST_PROOF: RegisteredPoStProof = RegisteredPoStProof::StackedDRGWindow32GiBV1P1;

#[derive(Clone, Debug)]
pub struct MinerH {
    pub id: Address,
    pub owner: Address,
    pub worker: Address,
    pub next_sector: u64,
    pub created_at: i64,
    pub ever_precommitted: bool,
}

pub struct Chain {
    pub w: World,
    pub miners: Vec<MinerH>,
    /// (id address, key address)
    pub accounts: Vec<(Address, Address)>,
    pub policy: Policy,
}

#[derive(Clone, Debug, Default)]
pub struct MinerView {
    pub exists: bool,
    pub balance: TokenAmount,
    pub pcd: TokenAmount,
    pub lf: TokenAmount,
    pub ip: TokenAmount,
    pub debt: TokenAmount,
    pub vest_sum: TokenAmount,
    pub vest_entries: usize,
    pub precommit_sum: TokenAmount,
    pub n_precommits: usize,
    /// Σ initial pledge of sectors that are live in some partition or wait in an early-termination queue
    pub sector_pledge_sum: TokenAmount,
    pub n_live: usize,
    pub n_faulty: usize,
    pub n_early_pending: usize,
    pub has_early_terminations: bool,
    pub cron_active: bool,
    pub continue_cron: bool,
    pub proving_period_start: i64,
    pub current_deadline: u64,
    /// raw / qa power of sectors that are live, proven (not unproven) and not faulty
    pub active_raw: BigInt,
    pub active_qa: BigInt,
    pub live_sectors: Vec<u64>,
    /// (deadline, partition, live, faults, recoveries, unproven)
    pub parts: Vec<(u64, u64, Vec<u64>, Vec<u64>, Vec<u64>, Vec<u64>)>,
    /// max expiration over live sectors / min expiration
    pub min_expiration: Option<i64>,
    /// outstanding pre-commitments: sector → deposit
    pub precommits: BTreeMap<u64, TokenAmount>,
    /// sectors whose pledge is held (live or awaiting early-termination processing): sector → pledge
    pub pledges: BTreeMap<u64, TokenAmount>,
    /// vesting table entries (epoch, amount)
    pub vest: Vec<(i64, TokenAmount)>,
}

#[derive(Clone, Debug, Default)]
pub struct PowerView {
    pub total_pledge: TokenAmount,
    pub total_raw: BigInt,
    pub total_qa: BigInt,
    pub first_cron_epoch: i64,
    pub miner_count: i64,
    pub claims: BTreeMap<u64, (BigInt, BigInt)>,
    /// per miner: (epoch, event type) of every queued cron event (type 1 = proving deadline,
    /// 2 = process early terminations)
    pub cron_events: BTreeMap<u64, Vec<(i64, i64)>>,
    pub next_event_epoch: Option<i64>,
}

impl Chain {
    pub fn new(n_accounts: u64) -> Chain {
        let w = World::new(false);
        let accounts = w.create_accounts(n_accounts, 777, &TokenAmount::from_whole(1_000_000));
        Chain { w, miners: vec![], accounts, policy: Policy::default() }
    }

    pub fn epoch(&self) -> i64 {
        self.w.vm.epoch()
    }

    pub fn set_epoch(&self, e: i64) {
        self.w.vm.set_epoch(e)
    }

    /// One cron tick at the current epoch (system → cron EpochTick).
    pub fn tick(&self) -> Applied {
        self.w.apply(
            &SYSTEM_ACTOR_ADDR,
            &CRON_ACTOR_ADDR,
            &TokenAmount::zero(),
            CronMethod::EpochTick as u64,
            None::<RawBytes>,
        )
    }

    /// Plain `CreateMiner` to the power actor (keeps the creation deposit and its vesting).
    pub fn create_miner(&mut self, owner_idx: usize, worker_idx: usize, value: &TokenAmount) -> Applied {
        let owner = self.accounts[owner_idx].0;
        let worker = self.accounts[worker_idx].0;
        let params = CreateMinerParams {
            owner,
            worker,
            window_post_proof_type: POST_PROOF,
            peer: b"miner".to_vec(),
            multiaddrs: vec![BytesDe(b"multiaddr".to_vec())],
        };
        let r = self.w.apply(
            &owner,
            &STORAGE_POWER_ACTOR_ADDR,
            value,
            PowerMethod::CreateMiner as u64,
            Some(params),
        );
        if r.ok() {
            let ret: CreateMinerReturn = r.ret.clone().unwrap().deserialize().unwrap();
            self.miners.push(MinerH {
                id: ret.id_address,
                owner,
                worker,
                next_sector: 100,
                created_at: self.epoch(),
                ever_precommitted: false,
            });
        }
        r
    }

    pub fn precommit(&mut self, mi: usize, count: usize, extra_life: i64) -> (Applied, Vec<u64>) {
        let epoch = self.epoch();
        let exp = epoch
            + self.policy.min_sector_expiration
            + max_prove_commit_duration(&self.policy, SEAL_PROOF).unwrap()
            + extra_life;
        let m = &mut self.miners[mi];
        let mut sectors = vec![];
        let mut nums = vec![];
        for _ in 0..count {
            let sn = m.next_sector;
            m.next_sector += 1;
            nums.push(sn);
            sectors.push(SectorPreCommitInfo {
                seal_proof: SEAL_PROOF,
                sector_number: sn,
                sealed_cid: make_sealed_cid(format!("sn: {}", sn).as_bytes()),
                seal_rand_epoch: epoch - 1,
                deal_ids: vec![],
                expiration: exp,
                unsealed_cid: CompactCommD::default(),
            });
        }
        let (worker, id) = (m.worker, m.id);
        let r = self.w.apply(
            &worker,
            &id,
            &TokenAmount::zero(),
            MinerMethod::PreCommitSectorBatch2 as u64,
            Some(PreCommitSectorBatchParams2 { sectors }),
        );
        if r.ok() {
            self.miners[mi].ever_precommitted = true;
        }
        (r, nums)
    }

    pub fn prove_commit(&self, mi: usize, sectors: &[u64]) -> Applied {
        let m = &self.miners[mi];
        let params = ProveCommitSectors3Params {
            sector_activations: sectors
                .iter()
                .map(|sn| SectorActivationManifest { sector_number: *sn, pieces: vec![] })
                .collect(),
            sector_proofs: sectors.iter().map(|_| RawBytes::new(vec![])).collect(),
            aggregate_proof: RawBytes::default(),
            aggregate_proof_type: None,
            require_activation_success: false,
            require_notification_success: false,
        };
        self.w.apply(
            &m.worker,
            &m.id,
            &TokenAmount::zero(),
            MinerMethod::ProveCommitSectors3 as u64,
            Some(params),
        )
    }

    pub fn dline_info(&self, mi: usize) -> DeadlineInfo {
        let st: MinerState = get_state(&self.w.vm, &self.miners[mi].id).unwrap();
        st.recorded_deadline_info(&self.policy, self.epoch())
    }

    /// Submit a Window PoSt for `deadline` covering `partitions` (index, skipped sectors).
    pub fn submit_post(&self, mi: usize, deadline: u64, challenge: i64, partitions: Vec<(u64, Vec<u64>)>, invalid: bool) -> Applied {
        let m = &self.miners[mi];
        let params = SubmitWindowedPoStParams {
            deadline,
            partitions: partitions
                .into_iter()
                .map(|(index, sk)| PoStPartition {
                    index,
                    skipped: BitField::try_from_bits(sk).unwrap(),
                })
                .collect(),
            proofs: vec![PoStProof {
                post_proof: POST_PROOF,
                proof_bytes: if invalid { crate::vvm::TEST_VM_INVALID_POST.as_bytes().to_vec() } else { vec![] },
            }],
            chain_commit_epoch: challenge,
            chain_commit_rand: Randomness(crate::vvm::TEST_VM_RAND_ARRAY.into()),
        };
        self.w.apply(
            &m.worker,
            &m.id,
            &TokenAmount::zero(),
            MinerMethod::SubmitWindowedPoSt as u64,
            Some(params),
        )
    }

    pub fn declare_faults(&self, mi: usize, decls: Vec<(u64, u64, Vec<u64>)>) -> Applied {
        let m = &self.miners[mi];
        let params = DeclareFaultsParams {
            faults: decls
                .into_iter()
                .map(|(deadline, partition, s)| FaultDeclaration {
                    deadline,
                    partition,
                    sectors: BitField::try_from_bits(s).unwrap(),
                })
                .collect(),
        };
        self.w.apply(&m.worker, &m.id, &TokenAmount::zero(), MinerMethod::DeclareFaults as u64, Some(params))
    }

    pub fn declare_recovered(&self, mi: usize, decls: Vec<(u64, u64, Vec<u64>)>) -> Applied {
        let m = &self.miners[mi];
        let params = DeclareFaultsRecoveredParams {
            recoveries: decls
                .into_iter()
                .map(|(deadline, partition, s)| RecoveryDeclaration {
                    deadline,
                    partition,
                    sectors: BitField::try_from_bits(s).unwrap(),
                })
                .collect(),
        };
        self.w.apply(&m.worker, &m.id, &TokenAmount::zero(), MinerMethod::DeclareFaultsRecovered as u64, Some(params))
    }

    pub fn terminate(&self, mi: usize, decls: Vec<(u64, u64, Vec<u64>)>) -> Applied {
        let m = &self.miners[mi];
        let params = TerminateSectorsParams {
            terminations: decls
                .into_iter()
                .map(|(deadline, partition, s)| TerminationDeclaration {
                    deadline,
                    partition,
                    sectors: BitField::try_from_bits(s).unwrap(),
                })
                .collect(),
        };
        self.w.apply(&m.worker, &m.id, &TokenAmount::zero(), MinerMethod::TerminateSectors as u64, Some(params))
    }

    pub fn extend(&self, mi: usize, deadline: u64, partition: u64, sectors: Vec<u64>, new_expiration: i64) -> Applied {
        let m = &self.miners[mi];
        let params = ExtendSectorExpiration2Params {
            extensions: vec![ExpirationExtension2 {
                deadline,
                partition,
                sectors: BitField::try_from_bits(sectors).unwrap(),
                sectors_with_claims: vec![],
                new_expiration,
            }],
        };
        self.w.apply(&m.worker, &m.id, &TokenAmount::zero(), MinerMethod::ExtendSectorExpiration2 as u64, Some(params))
    }

    // ------------------------------------------------------------------ deals, NI commit, replica update

    pub fn market_add_balance(&self, from: &Address, for_addr: &Address, amount: &TokenAmount) -> Applied {
        self.w.apply(
            from,
            &fil_actors_runtime::STORAGE_MARKET_ACTOR_ADDR,
            amount,
            fil_actor_market::Method::AddBalance as u64,
            Some(fil_actor_market::AddBalanceParams { provider_or_client: *for_addr }),
        )
    }

    /// Grant DataCap to account `client_idx` (verifier = account `verifier_idx`) through the repo's
    /// workflow helpers (root multisig → AddVerifier → AddVerifiedClient); false if a helper's own
    /// expectations did not hold.
    pub fn grant_datacap(&self, verifier_idx: usize, client_idx: usize, bytes: u64) -> bool {
        use fvm_shared::sector::StoragePower;
        let (verifier, client) = (self.accounts[verifier_idx].0, self.accounts[client_idx].0);
        let v = &self.w.vm;
        std::panic::catch_unwind(std::panic::AssertUnwindSafe(|| {
            fil_actors_integration_tests::util::verifreg_add_verifier(v, &verifier, StoragePower::from(bytes) * 2);
            fil_actors_integration_tests::util::verifreg_add_client(v, &verifier, &client, StoragePower::from(bytes));
        })).is_ok()
    }

    /// Publish one (unverified) storage deal between account `client_idx` and miner `mi`.
    pub fn publish_deal(&self, mi: usize, client_idx: usize, tag: u64, start: i64, end: i64) -> (Applied, Option<u64>) {
        self.publish_deal_v(mi, client_idx, tag, start, end, false)
    }

    /// `verified`: the client spends DataCap (it must have been granted some) and the market creates an allocation.
    pub fn publish_deal_v(&self, mi: usize, client_idx: usize, tag: u64, start: i64, end: i64, verified: bool) -> (Applied, Option<u64>) {
        use fil_actor_market::{ClientDealProposal, DealProposal, Label, PublishStorageDealsParams, PublishStorageDealsReturn};
        use fvm_shared::crypto::signature::{Signature, SignatureType};
        let m = &self.miners[mi];
        let proposal = DealProposal {
            piece_cid: fil_actors_runtime::test_utils::make_piece_cid(format!("piece-{}", tag).as_bytes()),
            piece_size: fvm_shared::piece::PaddedPieceSize(1 << 20),
            verified_deal: verified,
            client: self.accounts[client_idx].0,
            provider: m.id,
            label: Label::String(format!("deal-{}", tag)),
            start_epoch: start,
            end_epoch: end,
            storage_price_per_epoch: TokenAmount::from_atto(1u64 << 20),
            provider_collateral: TokenAmount::from_whole(2),
            client_collateral: TokenAmount::from_whole(1),
        };
        let bytes = fvm_ipld_encoding::to_vec(&proposal).unwrap();
        let params = PublishStorageDealsParams {
            deals: vec![ClientDealProposal { proposal, client_signature: Signature { sig_type: SignatureType::BLS, bytes } }],
        };
        let r = self.w.apply(&m.worker, &fil_actors_runtime::STORAGE_MARKET_ACTOR_ADDR, &TokenAmount::zero(), fil_actor_market::Method::PublishStorageDeals as u64, Some(params));
        let id = if r.ok() {
            r.ret.clone().and_then(|b| b.deserialize::<PublishStorageDealsReturn>().ok()).and_then(|x| x.ids.first().cloned())
        } else { None };
        (r, id)
    }

    /// the stored proposal of a deal, if the deal still exists (the repo's `get_deal` helper panics otherwise)
    pub fn deal_proposal(&self, id: u64) -> Option<fil_actor_market::DealProposal> {
        let st: fil_actor_market::State = get_state(&self.w.vm, &fil_actors_runtime::STORAGE_MARKET_ACTOR_ADDR)?;
        st.get_proposal(self.w.vm.store.as_ref(), id).ok()
    }

    fn piece_manifests(&self, deal_ids: &[u64]) -> Option<Vec<fil_actor_miner::PieceActivationManifest>> {
        let mut out = vec![];
        for id in deal_ids {
            let d = self.deal_proposal(*id)?;
            let alloc = fil_actors_integration_tests::util::market_pending_deal_allocations_raw(&self.w.vm, &[*id]).ok().and_then(|v| v.first().cloned());
            out.push(fil_actor_miner::PieceActivationManifest {
                cid: d.piece_cid,
                size: d.piece_size,
                verified_allocation_key: alloc.map(|a| fil_actor_miner::VerifiedAllocationKey { id: a, client: d.client.id().unwrap() }),
                notify: vec![fil_actor_miner::DataActivationNotification {
                    address: fil_actors_runtime::STORAGE_MARKET_ACTOR_ADDR,
                    payload: RawBytes::serialize(*id).unwrap(),
                }],
            });
        }
        Some(out)
    }

    fn skipped(why: &str) -> Applied {
        Applied { code: fvm_shared::error::ExitCode::new(16), ret: None, message: format!("harness: {}", why), panicked: false }
    }

    /// SettleDealPayments for the given deals (anybody may call it).
    pub fn settle_deals(&self, from_idx: usize, deal_ids: &[u64]) -> Applied {
        let params = fil_actor_market::SettleDealPaymentsParams {
            deal_ids: BitField::try_from_bits(deal_ids.iter().cloned()).unwrap(),
        };
        self.w.apply(&self.accounts[from_idx].0, &fil_actors_runtime::STORAGE_MARKET_ACTOR_ADDR, &TokenAmount::zero(), fil_actor_market::Method::SettleDealPaymentsExported as u64, Some(params))
    }

    /// Pre-commit one sector whose data are the given published deals (CommD from the deal pieces).
    pub fn precommit_with_deals(&mut self, mi: usize, deal_ids: &[u64], extra_life: i64) -> (Applied, u64) {
        let epoch = self.epoch();
        let mut pieces = vec![];
        for id in deal_ids {
            match self.deal_proposal(*id) {
                Some(d) => pieces.push(fvm_shared::piece::PieceInfo { size: d.piece_size, cid: d.piece_cid }),
                None => return (Self::skipped("deal no longer exists"), 0),
            }
        }
        let commd = CompactCommD::of(self.w.vm.primitives().compute_unsealed_sector_cid(SEAL_PROOF, &pieces).unwrap());
        let exp = epoch + self.policy.min_sector_expiration + max_prove_commit_duration(&self.policy, SEAL_PROOF).unwrap() + extra_life;
        let m = &mut self.miners[mi];
        let sn = m.next_sector;
        m.next_sector += 1;
        let sectors = vec![SectorPreCommitInfo {
            seal_proof: SEAL_PROOF,
            sector_number: sn,
            sealed_cid: make_sealed_cid(format!("sn: {}", sn).as_bytes()),
            seal_rand_epoch: epoch - 1,
            deal_ids: vec![],
            expiration: exp,
            unsealed_cid: commd,
        }];
        let (worker, id) = (m.worker, m.id);
        let r = self.w.apply(&worker, &id, &TokenAmount::zero(), MinerMethod::PreCommitSectorBatch2 as u64, Some(PreCommitSectorBatchParams2 { sectors }));
        if r.ok() { self.miners[mi].ever_precommitted = true; }
        (r, sn)
    }

    /// Prove-commit one sector activating the given deals (piece manifests notify the market).
    pub fn prove_commit_with_deals(&self, mi: usize, sector: u64, deal_ids: &[u64]) -> Applied {
        let m = &self.miners[mi];
        let Some(pieces) = self.piece_manifests(deal_ids) else { return Self::skipped("deal no longer exists") };
        let params = ProveCommitSectors3Params {
            sector_activations: vec![SectorActivationManifest { sector_number: sector, pieces }],
            sector_proofs: vec![RawBytes::new(vec![])],
            aggregate_proof: RawBytes::default(),
            aggregate_proof_type: None,
            require_activation_success: false,
            require_notification_success: false,
        };
        self.w.apply(&m.worker, &m.id, &TokenAmount::zero(), MinerMethod::ProveCommitSectors3 as u64, Some(params))
    }

    /// Non-interactive prove-commit of `n` fresh sectors scheduled at `proving_deadline`.
    pub fn prove_commit_ni(&mut self, mi: usize, n: usize, proving_deadline: u64, extra_life: i64) -> (Applied, Vec<u64>) {
        use fil_actor_miner::{ProveCommitSectorsNIParams, SectorNIActivationInfo};
        let epoch = self.epoch();
        let m = &mut self.miners[mi];
        let mid = m.id.id().unwrap();
        let mut nums = vec![];
        let sectors: Vec<SectorNIActivationInfo> = (0..n).map(|_| {
            let sn = m.next_sector;
            m.next_sector += 1;
            nums.push(sn);
            SectorNIActivationInfo {
                sealing_number: sn,
                sealer_id: mid,
                sealed_cid: make_sealed_cid(format!("sn: {}", sn).as_bytes()),
                sector_number: sn,
                seal_rand_epoch: (epoch - 10).max(0),
                expiration: epoch + self.policy.min_sector_expiration + 1 + extra_life,
            }
        }).collect();
        let params = ProveCommitSectorsNIParams {
            sectors,
            aggregate_proof: RawBytes::new(vec![1, 2, 3, 4]),
            seal_proof_type: RegisteredSealProof::StackedDRG32GiBV1P2_Feat_NiPoRep,
            aggregate_proof_type: fvm_shared::sector::RegisteredAggregateProof::SnarkPackV2,
            proving_deadline,
            require_activation_success: false,
        };
        let (worker, id) = (m.worker, m.id);
        let r = self.w.apply(&worker, &id, &TokenAmount::zero(), MinerMethod::ProveCommitSectorsNI as u64, Some(params));
        if r.ok() { self.miners[mi].ever_precommitted = true; }
        (r, nums)
    }

    /// Replica update of a committed-capacity sector with the given deals.
    pub fn replica_update(&self, mi: usize, updates: Vec<(u64, u64, u64, Vec<u64>)>) -> Applied {
        use fil_actor_miner::{ProveReplicaUpdates3Params, SectorUpdateManifest};
        let m = &self.miners[mi];
        let mut sector_updates: Vec<SectorUpdateManifest> = vec![];
        for (sector, deadline, partition, deals) in updates.iter() {
            let Some(pieces) = self.piece_manifests(deals) else { return Self::skipped("deal no longer exists") };
            sector_updates.push(SectorUpdateManifest {
                sector: *sector,
                deadline: *deadline,
                partition: *partition,
                new_sealed_cid: make_sealed_cid(format!("upd: {}", sector).as_bytes()),
                pieces,
            });
        }
        let params = ProveReplicaUpdates3Params {
            sector_proofs: sector_updates.iter().map(|_| RawBytes::new(vec![1, 2, 3, 4])).collect(),
            sector_updates,
            aggregate_proof: RawBytes::default(),
            update_proofs_type: fvm_shared::sector::RegisteredUpdateProof::StackedDRG32GiBV1,
            aggregate_proof_type: None,
            require_activation_success: false,
            require_notification_success: false,
        };
        self.w.apply(&m.worker, &m.id, &TokenAmount::zero(), MinerMethod::ProveReplicaUpdates3 as u64, Some(params))
    }

    pub fn withdraw(&self, mi: usize, by_owner: bool, amount: &TokenAmount) -> Applied {
        let m = &self.miners[mi];
        let from = if by_owner { m.owner } else { self.accounts.last().unwrap().0 };
        self.w.apply(
            &from,
            &m.id,
            &TokenAmount::zero(),
            MinerMethod::WithdrawBalance as u64,
            Some(WithdrawBalanceParams { amount_requested: amount.clone() }),
        )
    }

    pub fn repay_debt(&self, mi: usize, value: &TokenAmount) -> Applied {
        let m = &self.miners[mi];
        self.w.apply(&m.owner, &m.id, value, MinerMethod::RepayDebt as u64, None::<RawBytes>)
    }

    pub fn send_funds(&self, mi: usize, value: &TokenAmount) -> Applied {
        let m = &self.miners[mi];
        self.w.apply(&m.owner, &m.id, value, 0, None::<RawBytes>)
    }

    /// Block reward through the reward actor (system → reward AwardBlockReward → miner ApplyRewards).
    pub fn award_block_reward(&self, mi: usize, penalty: &TokenAmount, gas_reward: &TokenAmount, win_count: i64) -> Applied {
        let m = &self.miners[mi];
        self.w.apply(
            &SYSTEM_ACTOR_ADDR,
            &REWARD_ACTOR_ADDR,
            &TokenAmount::zero(),
            RewardMethod::AwardBlockReward as u64,
            Some(AwardBlockRewardParams {
                miner: m.id,
                penalty: penalty.clone(),
                gas_reward: gas_reward.clone(),
                win_count,
            }),
        )
    }

    pub fn report_consensus_fault(&self, mi: usize, reporter: usize, fault_epoch: i64) -> Applied {
        let m = &self.miners[mi];
        *self.w.vm.consensus_fault.borrow_mut() = Some(fvm_shared::consensus::ConsensusFault {
            target: m.id,
            epoch: fault_epoch,
            fault_type: fvm_shared::consensus::ConsensusFaultType::DoubleForkMining,
        });
        let r = self.w.apply(
            &self.accounts[reporter].0,
            &m.id,
            &TokenAmount::zero(),
            MinerMethod::ReportConsensusFault as u64,
            Some(ReportConsensusFaultParams { header1: vec![1], header2: vec![2], header_extra: vec![] }),
        );
        *self.w.vm.consensus_fault.borrow_mut() = None;
        r
    }

    // ------------------------------------------------------------------ views

    pub fn miner_view(&self, addr: &Address) -> MinerView {
        let Some(actor) = self.w.vm.actor(addr) else { return MinerView::default() };
        let st: MinerState = get_state(&self.w.vm, addr).unwrap();
        let store = self.w.vm.store.as_ref();
        let mut v = MinerView {
            exists: true,
            balance: actor.balance,
            pcd: st.pre_commit_deposits.clone(),
            lf: st.locked_funds.clone(),
            ip: st.initial_pledge.clone(),
            debt: st.fee_debt.clone(),
            cron_active: st.deadline_cron_active,
            continue_cron: st.continue_deadline_cron(),
            proving_period_start: st.proving_period_start,
            current_deadline: st.current_deadline,
            has_early_terminations: !st.early_terminations.is_empty(),
            ..Default::default()
        };
        // vesting table
        if let Ok(funds) = st.vesting_funds.load(store) {
            v.vest_entries = funds.len();
            for f in funds.iter() {
                v.vest_sum += &f.amount;
                v.vest.push((f.epoch, f.amount.clone()));
            }
        }
        // pre-commits
        if let Ok(pcs) = PreCommitMap::load(store, &st.pre_committed_sectors, PRECOMMIT_CONFIG, "precommits") {
            let _ = pcs.for_each(|_, pc| {
                v.precommits.insert(pc.info.sector_number, pc.pre_commit_deposit.clone());
                v.precommit_sum += &pc.pre_commit_deposit;
                v.n_precommits += 1;
                Ok(())
            });
        }
        // sectors
        let mut infos: BTreeMap<u64, SectorOnChainInfo> = BTreeMap::new();
        if let Ok(sectors) = Sectors::load(&store, &st.sectors) {
            let _ = sectors.amt.for_each(|sn, s| {
                infos.insert(sn, s.clone());
                Ok(())
            });
        }
        let info = st.get_info(store).unwrap();
        let mut counted: BTreeSet<u64> = BTreeSet::new();
        if let Ok(dls) = st.load_deadlines(store) {
            let _ = dls.for_each(store, |di, dl| {
                let parts = dl.partitions_amt(store)?;
                parts.for_each(|pi, p| {
                    let live = p.live_sectors();
                    let active = p.active_sectors();
                    v.parts.push((
                        di,
                        pi,
                        live.iter().collect(),
                        p.faults.iter().collect(),
                        p.recoveries.iter().collect(),
                        p.unproven.iter().collect(),
                    ));
                    for sn in live.iter() {
                        if let Some(s) = infos.get(&sn) {
                            v.min_expiration = Some(v.min_expiration.map_or(s.expiration, |e: i64| e.min(s.expiration)));
                        }
                    }
                    for sn in live.iter() {
                        if counted.insert(sn) {
                            if let Some(s) = infos.get(&sn) {
                                v.sector_pledge_sum += &s.initial_pledge;
                                v.pledges.insert(sn, s.initial_pledge.clone());
                            }
                        }
                        v.live_sectors.push(sn);
                    }
                    v.n_live += live.len() as usize;
                    v.n_faulty += p.faults.len() as usize;
                    for sn in active.iter() {
                        if let Some(s) = infos.get(&sn) {
                            v.active_raw += BigInt::from(info.sector_size as u64);
                            v.active_qa += fil_actor_miner::qa_power_for_sector(info.sector_size, s);
                        }
                    }
                    if let Ok(q) = BitFieldQueue::new(store, &p.early_terminated, NO_QUANTIZATION) {
                        let _ = q.amt.for_each(|_e, bf| {
                            for sn in bf.iter() {
                                v.n_early_pending += 1;
                                if counted.insert(sn) {
                                    if let Some(s) = infos.get(&sn) {
                                        v.sector_pledge_sum += &s.initial_pledge;
                                        v.pledges.insert(sn, s.initial_pledge.clone());
                                    }
                                }
                            }
                            Ok(())
                        });
                    }
                    Ok(())
                })?;
                Ok(())
            });
        }
        v
    }

    pub fn power_view(&self) -> PowerView {
        let st: PowerState = get_state(&self.w.vm, &STORAGE_POWER_ACTOR_ADDR).unwrap();
        let store = self.w.vm.store.as_ref();
        let mut pv = PowerView {
            total_pledge: st.total_pledge_collateral.clone(),
            total_raw: st.total_raw_byte_power.clone(),
            total_qa: st.total_quality_adj_power.clone(),
            first_cron_epoch: st.first_cron_epoch,
            miner_count: st.miner_count,
            ..Default::default()
        };
        if let Ok(claims) = st.load_claims(store) {
            let _ = claims.for_each(|addr, c| {
                pv.claims.insert(addr.id().unwrap(), (c.raw_byte_power.clone(), c.quality_adj_power.clone()));
                Ok(())
            });
        }
        if let Ok(mm) = Multimap::from_root(store, &st.cron_event_queue, CRON_QUEUE_HAMT_BITWIDTH, CRON_QUEUE_AMT_BITWIDTH) {
            let _ = mm.for_all::<_, CronEvent>(|k, arr| {
                let epoch = parse_epoch_key(k);
                let _ = arr.for_each(|_, ev| {
                    let ty = fvm_ipld_encoding::from_slice::<fil_actor_miner::CronEventPayload>(ev.callback_payload.bytes())
                        .map(|p| p.event_type)
                        .unwrap_or(-1);
                    pv.cron_events.entry(ev.miner_addr.id().unwrap()).or_default().push((epoch, ty));
                    Ok(())
                });
                pv.next_event_epoch = Some(pv.next_event_epoch.map_or(epoch, |e: i64| e.min(epoch)));
                Ok(())
            });
        }
        pv
    }
}

/// inverse of `fil_actor_power::epoch_key` (varint of the zig-zag encoded epoch)
fn parse_epoch_key(k: &fvm_ipld_hamt::BytesKey) -> i64 {
    let mut x: u64 = 0;
    let mut shift = 0;
    for b in k.0.iter() {
        x |= ((*b & 0x7f) as u64) << shift;
        if *b & 0x80 == 0 {
            break;
        }
        shift += 7;
    }
    ((x >> 1) as i64) ^ -((x & 1) as i64)
}
