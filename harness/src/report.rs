//! What a harness run reports to the `check` driver (one JSON document on a file).
use serde::Serialize;
use serde_json::Value;
use std::collections::BTreeMap;

#[derive(Serialize, Default, Clone, Debug)]
pub struct Disagreement {
    pub seq: u64,
    pub step: u64,
    pub op: String,
    pub impl_out: String,
    pub model_out: String,
    pub replay: String,
}

#[derive(Serialize, Default, Clone, Debug)]
pub struct Violation {
    /// short machine-readable key, e.g. "owed-exceeds-balance"
    pub kind: String,
    pub detail: String,
    pub replay: String,
}

#[derive(Serialize, Default, Clone, Debug)]
pub struct Report {
    pub property: String,
    pub seed: u64,
    pub tier: String,
    /// generated operation sequences / cases
    pub sequences: u64,
    /// operations executed on the implementation
    pub ops: u64,
    pub ops_ok: u64,
    /// sequences in which every step agreed with the Lean model
    pub traces_validated: u64,
    /// distinct sequences (by hash of their op lines) that reached a non-trivial state
    pub distinct_nontrivial: u64,
    pub nontrivial_rule: String,
    pub op_hist: BTreeMap<String, u64>,
    pub err_hist: BTreeMap<String, u64>,
    pub branch_hist: BTreeMap<String, u64>,
    pub samples: Vec<Value>,
    pub disagreements: Vec<Disagreement>,
    pub violations: Vec<Violation>,
    pub notes: Vec<String>,
    pub exhaustive: bool,
}

impl Report {
    pub fn new(property: &str, seed: u64, tier: &str) -> Self {
        Report { property: property.into(), seed, tier: tier.into(), ..Default::default() }
    }
    pub fn bump(map: &mut BTreeMap<String, u64>, k: &str) {
        *map.entry(k.to_string()).or_insert(0) += 1;
    }
    pub fn op(&mut self, k: &str) {
        Self::bump(&mut self.op_hist, k);
    }
    pub fn err(&mut self, k: &str) {
        Self::bump(&mut self.err_hist, k);
    }
    pub fn branch(&mut self, k: &str) {
        Self::bump(&mut self.branch_hist, k);
    }
    pub fn write(&self, path: &str) -> anyhow::Result<()> {
        std::fs::write(path, serde_json::to_string_pretty(self)?)?;
        Ok(())
    }
}

/// Write a replay file (the op lines of a sequence plus a header) and return its path.
pub fn write_replay(property: &str, tag: &str, header: &[String], lines: &[String]) -> String {
    let dir = std::env::var("BA_REPLAY_DIR").unwrap_or_else(|_| "/verif/replays".to_string());
    let _ = std::fs::create_dir_all(&dir);
    let path = format!("{}/{}-{}.ops", dir, property, tag);
    let mut s = String::new();
    for h in header {
        s.push_str("# ");
        s.push_str(h);
        s.push('\n');
    }
    for l in lines {
        s.push_str(l);
        s.push('\n');
    }
    let _ = std::fs::write(&path, s);
    path
}
