use ba_harness::props::{self, RunCfg};

fn main() {
    let args: Vec<String> = std::env::args().collect();
    if args.len() < 2 {
        eprintln!("usage: ba_harness <property> [--seed N] [--tier quick|thorough] [--out file] [--only-seq K] [--no-lean] [--budget N]");
        std::process::exit(2);
    }
    let prop = args[1].to_lowercase();
    let mut cfg = RunCfg {
        seed: std::env::var("VERIF_SEED").ok().and_then(|s| s.parse().ok()).unwrap_or(1),
        tier: std::env::var("VERIF_TIER").unwrap_or_else(|_| "quick".into()),
        only_seq: None,
        out: format!("/verif/harness/out/{}.json", prop),
        use_lean: true,
        budget: 1,
    };
    let mut i = 2;
    while i < args.len() {
        match args[i].as_str() {
            "--seed" => { cfg.seed = args[i + 1].parse().unwrap(); i += 1; }
            "--tier" => { cfg.tier = args[i + 1].clone(); i += 1; }
            "--out" => { cfg.out = args[i + 1].clone(); i += 1; }
            "--only-seq" => { cfg.only_seq = Some(args[i + 1].parse().unwrap()); i += 1; }
            "--budget" => { cfg.budget = args[i + 1].parse().unwrap(); i += 1; }
            "--no-lean" => cfg.use_lean = false,
            x => { eprintln!("unknown arg {}", x); std::process::exit(2); }
        }
        i += 1;
    }
    if std::env::var("BA_SHOW_PANICS").is_err() {
        ba_harness::world::quiet_panics();
    }
    let report = match prop.as_str() {
        "c12" => props::c12::run(&cfg),
        "c13" => props::c13::run(&cfg),
        "c14" => props::c14::run(&cfg),
        "c15" => props::c15::run(&cfg),
        "c11" => props::c11::run(&cfg),
        "c09" => props::c09::run(&cfg),
        "c10" => props::c10::run(&cfg),
        "c16" => props::c16::run(&cfg),
        "c01" => props::chain::run(&cfg, props::chain::Which::C01),
        "c03" => props::chain::run(&cfg, props::chain::Which::C03),
        "c05" => props::chain::run(&cfg, props::chain::Which::C05),
        "c19" => props::c19::run(&cfg),
        "c20" => props::c20::run(&cfg),
        "c18" => props::c18::run(&cfg),
        "c04" => props::sectors::run_c04(&cfg),
        "c02" => props::sectors::run_c02(&cfg),
        "c02power" => props::power_ds::run(&cfg),
        "c02actor" => props::sectors_actor::run(&cfg),
        "c06" | "c07" | "c08" => props::market::run(&cfg, prop.as_str()),
        "c17" => props::c17::run(&cfg),
        _ => { eprintln!("unknown property {}", prop); std::process::exit(2); }
    };
    if let Some(dir) = std::path::Path::new(&cfg.out).parent() {
        let _ = std::fs::create_dir_all(dir);
    }
    report.write(&cfg.out).expect("write report");
    println!(
        "harness {}: sequences={} ops={} ok={} validated={} disagreements={} violations={}",
        report.property, report.sequences, report.ops, report.ops_ok, report.traces_validated,
        report.disagreements.len(), report.violations.len()
    );
}
