//! Line protocol to the compiled Lean model driver (`lean/.lake/build/bin/driver <model>`).
use std::io::{BufRead, BufReader, Write};
use std::process::{Child, ChildStdin, ChildStdout, Command, Stdio};

pub struct LeanDriver {
    child: Child,
    stdin: ChildStdin,
    stdout: BufReader<ChildStdout>,
    pub lines: u64,
}

impl LeanDriver {
    pub fn spawn(model: &str) -> anyhow::Result<Self> {
        let path = std::env::var("BA_LEAN_DRIVER")
            .unwrap_or_else(|_| "/verif/lean/.lake/build/bin/driver".to_string());
        let mut child = Command::new(&path)
            .arg(model)
            .stdin(Stdio::piped())
            .stdout(Stdio::piped())
            .stderr(Stdio::inherit())
            .spawn()
            .map_err(|e| anyhow::anyhow!("cannot spawn lean driver {}: {}", path, e))?;
        let stdin = child.stdin.take().unwrap();
        let stdout = BufReader::new(child.stdout.take().unwrap());
        Ok(LeanDriver { child, stdin, stdout, lines: 0 })
    }

    /// Send one op line, get one answer line.
    pub fn ask(&mut self, line: &str) -> anyhow::Result<String> {
        debug_assert!(!line.contains('\n'));
        self.stdin.write_all(line.as_bytes())?;
        self.stdin.write_all(b"\n")?;
        self.stdin.flush()?;
        let mut out = String::new();
        let n = self.stdout.read_line(&mut out)?;
        if n == 0 {
            anyhow::bail!("lean driver closed its output after line: {}", line);
        }
        self.lines += 1;
        Ok(out.trim_end().to_string())
    }
}

impl LeanDriver {
    /// Pipelined form of `ask`: send all lines, then read one answer per line. Keep the batch small
    /// (tens of lines) so that neither pipe fills up while the other side is still writing.
    pub fn ask_many(&mut self, lines: &[String]) -> anyhow::Result<Vec<String>> {
        for l in lines {
            debug_assert!(!l.contains('\n'));
            self.stdin.write_all(l.as_bytes())?;
            self.stdin.write_all(b"\n")?;
        }
        self.stdin.flush()?;
        let mut outs = Vec::with_capacity(lines.len());
        for l in lines {
            let mut out = String::new();
            let n = self.stdout.read_line(&mut out)?;
            if n == 0 {
                anyhow::bail!("lean driver closed its output after line: {}", l);
            }
            self.lines += 1;
            outs.push(out.trim_end().to_string());
        }
        Ok(outs)
    }
}

impl Drop for LeanDriver {
    fn drop(&mut self) {
        let _ = self.child.kill();
        let _ = self.child.wait();
    }
}
