//! A harness world: the vvm with the singleton actors, funded accounts, a distinguishing
//! signature scheme, panic-catching message application and the Σ-balances ledger.
use crate::vvm::{TEST_FAUCET_ADDR, Vvm};
use fil_actors_runtime::test_blockstores::MemoryBlockstore;
use fvm_ipld_encoding::ipld_block::IpldBlock;
use fvm_shared::address::Address;
use fvm_shared::crypto::signature::Signature;
use fvm_shared::econ::TokenAmount;
use fvm_shared::error::ExitCode;
use fvm_shared::{METHOD_SEND, MethodNum};
use num_traits::Zero;
use serde::Serialize;
use std::panic::{AssertUnwindSafe, catch_unwind};
use vm_api::VM;
use vm_api::trace::InvocationTrace;

pub struct World {
    pub vm: Vvm,
}

#[derive(Clone, Debug)]
pub struct Applied {
    pub code: ExitCode,
    pub ret: Option<IpldBlock>,
    pub message: String,
    pub panicked: bool,
}

impl Applied {
    pub fn ok(&self) -> bool {
        self.code == ExitCode::OK && !self.panicked
    }
}

/// harness signature scheme: sig = plaintext ‖ signer-address-bytes
pub fn sign(signer_key_addr: &Address, plaintext: &[u8]) -> Vec<u8> {
    let mut v = plaintext.to_vec();
    v.extend_from_slice(&signer_key_addr.to_bytes());
    v
}

fn verify_sig(sig: &Signature, signer: &Address, plaintext: &[u8]) -> Result<(), anyhow::Error> {
    if sig.bytes == sign(signer, plaintext) {
        Ok(())
    } else {
        Err(anyhow::anyhow!("signature does not authenticate as {}", signer))
    }
}

pub fn exit_class(code: ExitCode) -> &'static str {
    match code.value() {
        0 => "ok",
        16 => "illegal_argument",
        17 => "not_found",
        18 => "forbidden",
        19 => "insufficient_funds",
        20 => "illegal_state",
        21 => "serialization",
        22 => "unhandled_message",
        23 => "unspecified",
        24 => "assertion_failed",
        25 => "read_only",
        26 => "not_payable",
        1..=15 => "sys",
        _ => "actor_specific",
    }
}

impl World {
    /// `strict_sigs`: install the distinguishing signature scheme (otherwise the repo's
    /// default "signature == plaintext" fake is kept so the repo's workflow helpers work).
    pub fn new(strict_sigs: bool) -> World {
        let store = MemoryBlockstore::new();
        let vm = Vvm::new_with_singletons(store);
        if strict_sigs {
            vm.mut_primitives().override_verify_signature(verify_sig);
        }
        World { vm }
    }

    /// the same world with a runtime policy that also admits the 2 KiB proof types (partitions of two
    /// sectors), so that deadlines with several partitions are cheap to build
    pub fn new_small_sectors(strict_sigs: bool) -> World {
        use fvm_shared::sector::{RegisteredPoStProof, RegisteredSealProof};
        let mut w = World::new(strict_sigs);
        w.vm.policy.valid_post_proof_type.insert(RegisteredPoStProof::StackedDRGWindow2KiBV1P1);
        w.vm.policy.valid_pre_commit_proof_type.insert(RegisteredSealProof::StackedDRG2KiBV1P1);
        w.vm.policy.valid_pre_commit_proof_type.insert(RegisteredSealProof::StackedDRG2KiBV1P1_Feat_SyntheticPoRep);
        w
    }

    /// Create `count` funded account actors; returns (id address, key address) pairs.
    pub fn create_accounts(&self, count: u64, seed: u64, balance: &TokenAmount) -> Vec<(Address, Address)> {
        let pks = vm_api::util::pk_addrs_from(seed, count);
        let mut out = vec![];
        for pk in pks {
            let r = self.apply(&TEST_FAUCET_ADDR, &pk, balance, METHOD_SEND, None::<()>);
            assert!(r.ok(), "funding account failed: {:?}", r);
            out.push((self.vm.resolve_id_address(&pk).unwrap(), pk));
        }
        out
    }

    pub fn apply<S: Serialize>(
        &self,
        from: &Address,
        to: &Address,
        value: &TokenAmount,
        method: MethodNum,
        params: Option<S>,
    ) -> Applied {
        let blk = params.map(|p| IpldBlock::serialize_cbor(&p).unwrap().unwrap());
        self.apply_raw(from, to, value, method, blk)
    }

    /// Execute one top-level message; a Rust panic is caught and reported.
    pub fn apply_raw(
        &self,
        from: &Address,
        to: &Address,
        value: &TokenAmount,
        method: MethodNum,
        params: Option<IpldBlock>,
    ) -> Applied {
        let r = catch_unwind(AssertUnwindSafe(|| {
            self.vm.execute_message(from, to, value, method, params)
        }));
        match r {
            Ok(Ok(m)) => Applied { code: m.code, ret: m.ret, message: m.message, panicked: false },
            Ok(Err(e)) => Applied {
                code: ExitCode::new(1),
                ret: None,
                message: format!("vm error: {:?}", e),
                panicked: false,
            },
            Err(p) => {
                let msg = if let Some(s) = p.downcast_ref::<String>() {
                    s.clone()
                } else if let Some(s) = p.downcast_ref::<&str>() {
                    s.to_string()
                } else {
                    "panic".to_string()
                };
                Applied { code: ExitCode::new(24), ret: None, message: msg, panicked: true }
            }
        }
    }

    pub fn take_trace(&self) -> Vec<InvocationTrace> {
        self.vm.take_invocations()
    }

    /// Σ balances over all actors in the state tree.
    pub fn total_balance(&self) -> TokenAmount {
        let mut t = TokenAmount::zero();
        for (_, a) in self.vm.actor_states() {
            t += a.balance;
        }
        t
    }

    pub fn balance(&self, a: &Address) -> TokenAmount {
        self.vm.balance(a)
    }
}

/// Silence the default panic hook output (panics are caught and reported by the harness).
pub fn quiet_panics() {
    std::panic::set_hook(Box::new(|_| {}));
}
