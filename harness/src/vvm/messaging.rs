use anyhow::anyhow;
use cid::Cid;
use fil_actor_account::Actor as AccountActor;
use fil_actor_cron::Actor as CronActor;
use fil_actor_datacap::Actor as DataCapActor;
use fil_actor_eam::EamActor;
use fil_actor_ethaccount::EthAccountActor;
use fil_actor_evm::EvmContractActor;
use fil_actor_init::{Actor as InitActor, State as InitState};
use fil_actor_market::Actor as MarketActor;
use fil_actor_miner::Actor as MinerActor;
use fil_actor_multisig::Actor as MultisigActor;
use fil_actor_paych::Actor as PaychActor;
use fil_actor_power::Actor as PowerActor;
use fil_actor_reward::Actor as RewardActor;
use fil_actor_system::Actor as SystemActor;
use fil_actor_verifreg::Actor as VerifregActor;
use multihash_codetable::Code;

use fil_actors_runtime::runtime::builtins::Type;
use fil_actors_runtime::runtime::{
    ActorCode, DomainSeparationTag, EMPTY_ARR_CID, MessageInfo, Policy, Primitives, Runtime,
    RuntimePolicy,
};
use fil_actors_runtime::{ActorError, INIT_ACTOR_ADDR};
use fil_actors_runtime::{SYSTEM_ACTOR_ID, test_utils::*};
use fil_actors_runtime::{SendError, actor_error};
use fvm_ipld_encoding::CborStore;
use fvm_ipld_encoding::ipld_block::IpldBlock;

use fvm_shared::address::Address;
use fvm_shared::address::Payload;
use fvm_shared::bigint::Zero;
use fvm_shared::chainid::ChainID;
use fvm_shared::clock::ChainEpoch;
use fvm_shared::consensus::ConsensusFault;
use fvm_shared::crypto::hash::SupportedHashes;
use fvm_shared::crypto::signature::{
    SECP_PUB_LEN, SECP_SIG_LEN, SECP_SIG_MESSAGE_HASH_SIZE, Signature,
};
use fvm_shared::econ::TokenAmount;
use fvm_shared::error::ExitCode;
use fvm_shared::event::ActorEvent;
use fvm_shared::piece::PieceInfo;

use fvm_shared::randomness::RANDOMNESS_LENGTH;
use fvm_shared::sector::{
    AggregateSealVerifyProofAndInfos, RegisteredSealProof, ReplicaUpdateInfo, SealVerifyInfo,
    WindowPoStVerifyInfo,
};

use fvm_shared::sys::SendFlags;
use fvm_shared::version::NetworkVersion;
use fvm_shared::{ActorID, IPLD_RAW, METHOD_CONSTRUCTOR, METHOD_SEND, MethodNum, Response};

use serde::Serialize;
use serde::de::DeserializeOwned;
use std::cell::{RefCell, RefMut};
use vm_api::trace::{EmittedEvent, InvocationTrace};
use vm_api::util::get_state;
use vm_api::{ActorState, VM, new_actor};

use fil_actors_runtime::test_blockstores::MemoryBlockstore;
use std::ops::Add;
use std::rc::Rc;

use super::{TEST_VM_INVALID_POST, TEST_VM_RAND_ARRAY, Vvm};

#[derive(Clone)]
pub struct TopCtx {
    pub originator_stable_addr: Address,
    pub originator_call_seq: u64,
    /// shared by every nested context of one top-level message (ref-fvm: the call manager's
    /// `num_actors_created`); test_vm clones the counter per context, which makes two
    /// creations in one message collide on the same robust address
    pub new_actor_addr_count: Rc<RefCell<u64>>,
    pub circ_supply: TokenAmount,
}

#[derive(Clone, Debug)]
pub struct InternalMessage {
    pub from: ActorID,
    pub to: Address,
    pub value: TokenAmount,
    pub method: MethodNum,
    pub params: Option<IpldBlock>,
}

impl MessageInfo for InvocationCtx<'_> {
    fn nonce(&self) -> u64 {
        self.top.originator_call_seq
    }
    fn caller(&self) -> Address {
        Address::new_id(self.msg.from)
    }
    fn origin(&self) -> Address {
        Address::new_id(self.resolve_address(&self.top.originator_stable_addr).unwrap())
    }
    fn receiver(&self) -> Address {
        self.to()
    }
    fn value_received(&self) -> TokenAmount {
        self.msg.value.clone()
    }
    fn gas_premium(&self) -> TokenAmount {
        TokenAmount::zero()
    }
}

pub struct InvocationCtx<'invocation> {
    pub depth: u32,
    pub v: &'invocation Vvm,
    pub top: TopCtx,
    pub msg: InternalMessage,
    pub allow_side_effects: RefCell<bool>,
    pub caller_validated: RefCell<bool>,
    pub read_only: bool,
    pub policy: &'invocation Policy,
    pub subinvocations: RefCell<Vec<InvocationTrace>>,
    pub events: RefCell<Vec<EmittedEvent>>,
}

impl<'invocation> InvocationCtx<'invocation> {
    fn resolve_target(
        &'invocation self,
        target: &Address,
    ) -> Result<(ActorState, Address), ActorError> {
        if let Some(a) = self.v.resolve_id_address(target)
            && let Some(act) = self.v.actor(&a)
        {
            return Ok((act, a));
        }

        // Address does not yet exist, create it
        let is_account = match target.payload() {
            Payload::Secp256k1(_) | Payload::BLS(_) => true,
            Payload::Delegated(da)
            // Validate that there's an actor at the target ID (we don't care what is there,
            // just that something is there).
            if self.v.actor(&Address::new_id(da.namespace())).is_some() =>
                {
                    false
                }
            _ => {
                return Err(ActorError::unchecked(
                    ExitCode::SYS_INVALID_RECEIVER,
                    format!("cannot create account for address {} type {}", target, target.protocol()),
                ));
            }
        };

        // But only if we're not in read-only mode.
        if self.read_only() {
            return Err(ActorError::unchecked(
                ExitCode::USR_READ_ONLY,
                format!("cannot create actor {target} in read-only mode"),
            ));
        }

        let mut st: InitState = get_state(self.v, &INIT_ACTOR_ADDR).unwrap();
        let (target_id, existing) = st.map_addresses_to_id(&self.v.store, target, None).unwrap();
        assert!(!existing, "should never have existing actor when no f4 address is specified");
        let target_id_addr = Address::new_id(target_id);
        let mut init_actor = self.v.actor(&INIT_ACTOR_ADDR).unwrap();
        init_actor.state = self.v.store.put_cbor(&st, Code::Blake2b256).unwrap();
        self.v.set_actor(&INIT_ACTOR_ADDR, init_actor);

        let new_actor_msg = InternalMessage {
            from: SYSTEM_ACTOR_ID,
            to: target_id_addr,
            value: TokenAmount::zero(),
            method: METHOD_CONSTRUCTOR,
            params: IpldBlock::serialize_cbor(target).unwrap(),
        };
        {
            let mut new_ctx = InvocationCtx {
                depth: self.depth + 1,
                v: self.v,
                top: self.top.clone(),
                msg: new_actor_msg,
                allow_side_effects: RefCell::new(true),
                caller_validated: RefCell::new(false),
                read_only: false,
                policy: self.policy,
                subinvocations: RefCell::new(vec![]),
                events: RefCell::new(vec![]),
            };
            if is_account {
                new_ctx.create_actor(*ACCOUNT_ACTOR_CODE_ID, target_id, None).unwrap();
                let res = new_ctx.invoke();
                let invoc = new_ctx.gather_trace(res);
                RefMut::map(self.subinvocations.borrow_mut(), |subinvocs| {
                    subinvocs.push(invoc);
                    subinvocs
                });
            } else {
                new_ctx.create_actor(*PLACEHOLDER_ACTOR_CODE_ID, target_id, Some(*target)).unwrap();
            }
        }

        Ok((self.v.actor(&target_id_addr).unwrap(), target_id_addr))
    }

    pub fn gather_trace(
        &mut self,
        invoke_result: Result<Option<IpldBlock>, ActorError>,
    ) -> InvocationTrace {
        let (ret, code) = match invoke_result {
            Ok(rb) => (rb, ExitCode::OK),
            Err(ae) => (None, ae.exit_code()),
        };
        let mut msg = self.msg.clone();
        // harness VM: never create actors while recording the trace (test_vm's gather_trace
        // re-creates an account for an unresolved key address even after a rollback)
        msg.to = self.v.resolve_id_address(&self.msg.to).unwrap_or(self.msg.to);
        InvocationTrace {
            from: msg.from,
            to: msg.to,
            value: msg.value,
            method: msg.method,
            params: msg.params,
            // Actors should wrap syscall errors
            error_number: None,
            return_value: ret,
            exit_code: code,
            subinvocations: self.subinvocations.take(),
            events: self.events.take(),
        }
    }

    fn to(&'_ self) -> Address {
        self.resolve_target(&self.msg.to).unwrap().1
    }

    pub fn invoke(&mut self) -> Result<Option<IpldBlock>, ActorError> {
        let prior_root = self.v.checkpoint();
        let res = self.invoke_inner();
        if let Err(e) = &res {
            self.v.error_log.borrow_mut().push((
                self.msg.from,
                self.msg.to,
                self.msg.method,
                e.exit_code().value(),
                e.msg().to_string(),
            ));
        }
        if res.is_err() {
            // harness VM: roll back on *every* failure path (test_vm leaks the debit when
            // resolve_target fails after the sender was debited)
            self.v.rollback(prior_root);
        }
        res
    }

    fn invoke_inner(&mut self) -> Result<Option<IpldBlock>, ActorError> {
        if self.depth > *self.v.max_depth.borrow() {
            return Err(ActorError::unchecked(
                ExitCode::SYS_ASSERTION_FAILED,
                "call depth limit exceeded".to_string(),
            ));
        }

        // Transfer funds
        let mut from_actor = self.v.actor(&Address::new_id(self.msg.from)).unwrap();
        if !self.msg.value.is_zero() {
            if self.msg.value.is_negative() {
                return Err(ActorError::unchecked(
                    ExitCode::SYS_ASSERTION_FAILED,
                    "attempt to transfer negative value".to_string(),
                ));
            }
            if from_actor.balance < self.msg.value {
                return Err(ActorError::unchecked(
                    ExitCode::SYS_INSUFFICIENT_FUNDS,
                    "insufficient balance to transfer".to_string(),
                ));
            }
            if self.read_only() {
                return Err(ActorError::unchecked(
                    ExitCode::USR_READ_ONLY,
                    "cannot transfer value in read-only mode".to_string(),
                ));
            }
        }

        // Load, deduct, store from actor before loading to actor to handle self-send case
        from_actor.balance -= &self.msg.value;
        self.v.set_actor(&Address::new_id(self.msg.from), from_actor);

        let (mut to_actor, to_addr) = self.resolve_target(&self.msg.to)?;
        to_actor.balance = to_actor.balance.add(&self.msg.value);
        self.v.set_actor(&to_addr, to_actor);

        // Exit early on send
        if self.msg.method == METHOD_SEND {
            return Ok(None);
        }
        self.msg.to = to_addr;

        // call target actor
        let to_actor = self.v.actor(&to_addr).unwrap();
        let params = self.msg.params.clone();
        let mut res = match ACTOR_TYPES.get(&to_actor.code).expect("Target actor is not a builtin")
        {
            Type::Account => AccountActor::invoke_method(self, self.msg.method, params),
            Type::Cron => CronActor::invoke_method(self, self.msg.method, params),
            Type::Init => InitActor::invoke_method(self, self.msg.method, params),
            Type::Market => MarketActor::invoke_method(self, self.msg.method, params),
            Type::Miner => MinerActor::invoke_method(self, self.msg.method, params),
            Type::Multisig => MultisigActor::invoke_method(self, self.msg.method, params),
            Type::System => SystemActor::invoke_method(self, self.msg.method, params),
            Type::Reward => RewardActor::invoke_method(self, self.msg.method, params),
            Type::Power => PowerActor::invoke_method(self, self.msg.method, params),
            Type::PaymentChannel => PaychActor::invoke_method(self, self.msg.method, params),
            Type::VerifiedRegistry => VerifregActor::invoke_method(self, self.msg.method, params),
            Type::DataCap => DataCapActor::invoke_method(self, self.msg.method, params),
            Type::Placeholder => {
                Err(ActorError::unhandled_message("placeholder actors only handle method 0".into()))
            }
            Type::EVM => EvmContractActor::invoke_method(self, self.msg.method, params),
            Type::EAM => EamActor::invoke_method(self, self.msg.method, params),
            Type::EthAccount => EthAccountActor::invoke_method(self, self.msg.method, params),
        };
        if res.is_ok() && !*self.caller_validated.borrow() {
            res = Err(actor_error!(assertion_failed, "failed to validate caller"));
        }
        res
    }
}

impl Runtime for InvocationCtx<'_> {
    type Blockstore = Rc<MemoryBlockstore>;

    fn create_actor(
        &self,
        code_id: Cid,
        actor_id: ActorID,
        predictable_address: Option<Address>,
    ) -> Result<(), ActorError> {
        match NON_SINGLETON_CODES.get(&code_id) {
            Some(_) => (),
            None => {
                return Err(ActorError::unchecked(
                    ExitCode::SYS_ASSERTION_FAILED,
                    "create_actor called with singleton builtin actor code cid".to_string(),
                ));
            }
        }
        let addr = &Address::new_id(actor_id);
        let actor = match self.v.actor(addr) {
            Some(mut act) if act.code == *PLACEHOLDER_ACTOR_CODE_ID => {
                act.code = code_id;
                act
            }
            None => new_actor(code_id, EMPTY_ARR_CID, 0, TokenAmount::zero(), predictable_address),
            _ => {
                return Err(actor_error!(forbidden;
                    "attempt to create new actor at existing address {}", addr));
            }
        };

        if self.read_only() {
            return Err(ActorError::unchecked(
                ExitCode::USR_READ_ONLY,
                "cannot create actor in read-only mode".into(),
            ));
        }

        self.top.new_actor_addr_count.replace_with(|old| *old + 1);
        self.v.set_actor(addr, actor);
        Ok(())
    }

    fn store(&self) -> &Rc<MemoryBlockstore> {
        &self.v.store
    }

    fn network_version(&self) -> NetworkVersion {
        self.v.network_version
    }

    fn message(&self) -> &dyn MessageInfo {
        self
    }

    fn curr_epoch(&self) -> ChainEpoch {
        self.v.epoch()
    }

    fn chain_id(&self) -> ChainID {
        ChainID::from(0)
    }

    fn validate_immediate_caller_accept_any(&self) -> Result<(), ActorError> {
        if *self.caller_validated.borrow() {
            Err(ActorError::unchecked(
                ExitCode::SYS_ASSERTION_FAILED,
                "caller double validated".to_string(),
            ))
        } else {
            self.caller_validated.replace(true);
            Ok(())
        }
    }

    fn validate_immediate_caller_namespace<I>(
        &self,
        namespace_manager_addresses: I,
    ) -> Result<(), ActorError>
    where
        I: IntoIterator<Item = u64>,
    {
        if *self.caller_validated.borrow() {
            return Err(ActorError::unchecked(
                ExitCode::SYS_ASSERTION_FAILED,
                "caller double validated".to_string(),
            ));
        }
        let managers: Vec<_> = namespace_manager_addresses.into_iter().collect();

        if let Some(delegated) =
            self.lookup_delegated_address(self.message().caller().id().unwrap())
        {
            for id in managers {
                if match delegated.payload() {
                    Payload::Delegated(d) => d.namespace() == id,
                    _ => false,
                } {
                    return Ok(());
                }
            }
        } else {
            return Err(ActorError::unchecked(
                ExitCode::SYS_ASSERTION_FAILED,
                "immediate caller actor expected to have namespace".to_string(),
            ));
        }

        Err(ActorError::unchecked(
            ExitCode::SYS_ASSERTION_FAILED,
            "immediate caller actor namespace forbidden".to_string(),
        ))
    }

    fn validate_immediate_caller_is<'a, I>(&self, addresses: I) -> Result<(), ActorError>
    where
        I: IntoIterator<Item = &'a Address>,
    {
        if *self.caller_validated.borrow() {
            return Err(ActorError::unchecked(
                ExitCode::USR_ASSERTION_FAILED,
                "caller double validated".to_string(),
            ));
        }
        self.caller_validated.replace(true);
        for addr in addresses {
            if *addr == Address::new_id(self.msg.from) {
                return Ok(());
            }
        }
        Err(ActorError::unchecked(
            ExitCode::USR_FORBIDDEN,
            "immediate caller address forbidden".to_string(),
        ))
    }

    fn validate_immediate_caller_type<'a, I>(&self, types: I) -> Result<(), ActorError>
    where
        I: IntoIterator<Item = &'a Type>,
    {
        if *self.caller_validated.borrow() {
            return Err(ActorError::unchecked(
                ExitCode::SYS_ASSERTION_FAILED,
                "caller double validated".to_string(),
            ));
        }
        self.caller_validated.replace(true);
        // harness VM: a caller whose code is not a built-in actor matches no type (fvm.rs: `_ => forbidden`)
        let to_match =
            ACTOR_TYPES.get(&self.v.actor(&Address::new_id(self.msg.from)).unwrap().code);
        if let Some(to_match) = to_match
            && types.into_iter().any(|t| *t == *to_match)
        {
            return Ok(());
        }
        Err(ActorError::unchecked(
            ExitCode::SYS_ASSERTION_FAILED,
            "immediate caller actor type forbidden".to_string(),
        ))
    }

    fn current_balance(&self) -> TokenAmount {
        self.v.actor(&self.to()).unwrap().balance
    }

    fn resolve_address(&self, addr: &Address) -> Option<ActorID> {
        if let Some(normalize_addr) = self.v.resolve_id_address(addr)
            && let &Payload::ID(id) = normalize_addr.payload()
        {
            return Some(id);
        }
        None
    }

    fn get_actor_code_cid(&self, id: &ActorID) -> Option<Cid> {
        let maybe_act = self.v.actor(&Address::new_id(*id));
        match maybe_act {
            None => None,
            Some(act) => Some(act.code),
        }
    }

    fn lookup_delegated_address(&self, id: ActorID) -> Option<Address> {
        self.v.actor(&Address::new_id(id)).and_then(|act| act.delegated_address)
    }

    fn send(
        &self,
        to: &Address,
        method: MethodNum,
        params: Option<IpldBlock>,
        value: TokenAmount,
        _gas_limit: Option<u64>,
        mut send_flags: SendFlags,
    ) -> Result<Response, SendError> {
        // replicate FVM by silently propagating read only flag to subcalls
        if self.read_only() {
            send_flags.set(SendFlags::READ_ONLY, true)
        }

        if !*self.allow_side_effects.borrow() {
            return Ok(Response { exit_code: ExitCode::SYS_ASSERTION_FAILED, return_data: None });
        }

        let from_id = self.resolve_address(&self.to()).unwrap();

        // fault plan: force this nested send to abort (models the callee running out of gas)
        let mut abort_after: Option<u32> = None;
        {
            let ord = *self.v.send_ordinal.borrow();
            self.v.send_ordinal.replace(ord + 1);
            let to_id = self.v.resolve_id_address(to).and_then(|a| a.id().ok());
            let mut plan = self.v.fault_plan.borrow_mut();
            let mut hit: Option<u32> = None;
            for r in plan.rules.iter() {
                if r.from.is_none_or(|f| f == from_id)
                    && r.to.is_none_or(|t| Some(t) == to_id)
                    && r.method.is_none_or(|m| m == method)
                    && r.ordinal.is_none_or(|o| o == ord)
                {
                    if r.after {
                        abort_after = Some(r.exit);
                    } else {
                        hit = Some(r.exit);
                    }
                    break;
                }
            }
            if abort_after.is_some() {
                plan.hits += 1;
            }
            if let Some(code) = hit {
                plan.hits += 1;
                drop(plan);
                self.subinvocations.borrow_mut().push(InvocationTrace {
                    from: from_id,
                    to: *to,
                    value: value.clone(),
                    method,
                    params: params.clone(),
                    error_number: None,
                    return_value: None,
                    exit_code: ExitCode::new(code),
                    subinvocations: vec![],
                    events: vec![],
                });
                return Ok(Response { exit_code: ExitCode::new(code), return_data: None });
            }
        }

        let new_actor_msg = InternalMessage { from: from_id, to: *to, value, method, params };
        let mut new_ctx = InvocationCtx {
            depth: self.depth + 1,
            v: self.v,
            top: self.top.clone(),
            msg: new_actor_msg,
            allow_side_effects: RefCell::new(true),
            caller_validated: RefCell::new(false),
            read_only: send_flags.read_only(),
            policy: self.policy,
            subinvocations: RefCell::new(vec![]),
            events: RefCell::new(vec![]),
        };
        let prior_root = self.v.checkpoint();
        let mut res = new_ctx.invoke();
        if let (Some(code), true) = (abort_after, res.is_ok()) {
            // the callee ran to completion and then aborts: roll everything it did back
            self.v.rollback(prior_root);
            res = Err(ActorError::unchecked(ExitCode::new(code), "forced abort after execution".to_string()));
        }
        let invoc = new_ctx.gather_trace(res.clone());
        RefMut::map(self.subinvocations.borrow_mut(), |subinvocs| {
            subinvocs.push(invoc);
            subinvocs
        });

        Ok(Response {
            exit_code: res.as_ref().err().map(|e| e.exit_code()).unwrap_or(ExitCode::OK),
            return_data: res.unwrap_or_else(|mut e| e.take_data()),
        })
    }

    fn get_randomness_from_tickets(
        &self,
        _personalization: DomainSeparationTag,
        _rand_epoch: ChainEpoch,
        _entropy: &[u8],
    ) -> Result<[u8; RANDOMNESS_LENGTH], ActorError> {
        Ok(TEST_VM_RAND_ARRAY)
    }

    fn get_randomness_from_beacon(
        &self,
        _personalization: DomainSeparationTag,
        _rand_epoch: ChainEpoch,
        _entropy: &[u8],
    ) -> Result<[u8; RANDOMNESS_LENGTH], ActorError> {
        Ok(TEST_VM_RAND_ARRAY)
    }

    fn get_beacon_randomness(
        &self,
        _rand_epoch: ChainEpoch,
    ) -> Result<[u8; RANDOMNESS_LENGTH], ActorError> {
        Ok(TEST_VM_RAND_ARRAY)
    }

    fn get_state_root(&self) -> Result<Cid, ActorError> {
        Ok(self.v.actor(&self.to()).unwrap().state)
    }

    fn set_state_root(&self, root: &Cid) -> Result<(), ActorError> {
        let maybe_act = self.v.actor(&self.to());
        match maybe_act {
            None => Err(ActorError::unchecked(
                ExitCode::SYS_ASSERTION_FAILED,
                "actor does not exist".to_string(),
            )),
            Some(mut act) if !self.read_only() => {
                act.state = *root;
                self.v.set_actor(&self.to(), act);
                Ok(())
            }
            _ => Err(ActorError::unchecked(
                ExitCode::USR_READ_ONLY,
                "actor is read-only".to_string(),
            )),
        }
    }

    fn transaction<S, RT, F>(&self, f: F) -> Result<RT, ActorError>
    where
        S: Serialize + DeserializeOwned,
        F: FnOnce(&mut S, &Self) -> Result<RT, ActorError>,
    {
        let mut st = self.state::<S>().unwrap();
        self.allow_side_effects.replace(false);
        let result = f(&mut st, self);
        self.allow_side_effects.replace(true);
        let ret = result?;
        let mut act = self.v.actor(&self.to()).unwrap();
        act.state = self.v.store.put_cbor(&st, Code::Blake2b256).unwrap();

        if self.read_only {
            return Err(ActorError::unchecked(
                ExitCode::USR_READ_ONLY,
                "actor is read-only".to_string(),
            ));
        }

        self.v.set_actor(&self.to(), act);
        Ok(ret)
    }

    fn new_actor_address(&self) -> Result<Address, ActorError> {
        let mut b = self.top.originator_stable_addr.to_bytes();
        b.extend_from_slice(&self.top.originator_call_seq.to_be_bytes());
        b.extend_from_slice(&self.top.new_actor_addr_count.borrow().to_be_bytes());
        Ok(Address::new_actor(&b))
    }

    fn delete_actor(&self) -> Result<(), ActorError> {
        // FVM self_destruct(burn_unspent = false): refuses while funds remain, refuses in
        // read-only mode, then removes the actor from the state tree.
        if self.read_only() {
            return Err(ActorError::unchecked(
                ExitCode::USR_READ_ONLY,
                "cannot delete actor in read-only mode".into(),
            ));
        }
        let me = self.to();
        let act = self.v.actor(&me).unwrap();
        if !act.balance.is_zero() {
            return Err(ActorError::unchecked(
                ExitCode::USR_ILLEGAL_STATE,
                "cannot self-destruct with unspent funds".into(),
            ));
        }
        self.v.remove_actor(&me);
        Ok(())
    }

    fn resolve_builtin_actor_type(&self, code_id: &Cid) -> Option<Type> {
        ACTOR_TYPES.get(code_id).cloned()
    }

    fn get_code_cid_for_type(&self, typ: Type) -> Cid {
        ACTOR_CODES.get(&typ).cloned().unwrap()
    }

    fn total_fil_circ_supply(&self) -> TokenAmount {
        self.top.circ_supply.clone()
    }

    fn charge_gas(&self, _name: &'static str, _compute: i64) {}

    fn base_fee(&self) -> TokenAmount {
        TokenAmount::zero()
    }

    fn actor_balance(&self, id: ActorID) -> Option<TokenAmount> {
        self.v.actor(&Address::new_id(id)).map(|act| act.balance)
    }

    fn gas_available(&self) -> u64 {
        u32::MAX.into()
    }

    fn tipset_timestamp(&self) -> u64 {
        0
    }

    fn tipset_cid(&self, _epoch: i64) -> Result<Cid, ActorError> {
        Ok(Cid::new_v1(IPLD_RAW, Multihash::wrap(0, b"faketipset").unwrap()))
    }

    fn emit_event(&self, event: &ActorEvent) -> Result<(), ActorError> {
        self.events
            .borrow_mut()
            .push(EmittedEvent { emitter: self.msg.to.id().unwrap(), event: event.clone() });
        Ok(())
    }

    fn read_only(&self) -> bool {
        self.read_only
    }
}

impl Primitives for InvocationCtx<'_> {
    fn verify_signature(
        &self,
        signature: &Signature,
        signer: &Address,
        plaintext: &[u8],
    ) -> Result<(), anyhow::Error> {
        self.v.primitives().verify_signature(signature, signer, plaintext)
    }

    fn hash_blake2b(&self, data: &[u8]) -> [u8; 32] {
        self.v.primitives().hash_blake2b(data)
    }

    fn compute_unsealed_sector_cid(
        &self,
        proof_type: RegisteredSealProof,
        pieces: &[PieceInfo],
    ) -> Result<Cid, anyhow::Error> {
        self.v.primitives().compute_unsealed_sector_cid(proof_type, pieces)
    }

    fn hash(&self, hasher: SupportedHashes, data: &[u8]) -> Vec<u8> {
        self.v.primitives().hash(hasher, data)
    }

    fn hash_64(&self, hasher: SupportedHashes, data: &[u8]) -> ([u8; 64], usize) {
        self.v.primitives().hash_64(hasher, data)
    }

    fn recover_secp_public_key(
        &self,
        hash: &[u8; SECP_SIG_MESSAGE_HASH_SIZE],
        signature: &[u8; SECP_SIG_LEN],
    ) -> Result<[u8; SECP_PUB_LEN], anyhow::Error> {
        self.v.primitives().recover_secp_public_key(hash, signature)
    }

    fn verify_post(&self, verify_info: &WindowPoStVerifyInfo) -> Result<(), anyhow::Error> {
        for proof in &verify_info.proofs {
            if proof.proof_bytes.eq(&TEST_VM_INVALID_POST.as_bytes().to_vec()) {
                return Err(anyhow!("invalid proof"));
            }
        }

        Ok(())
    }

    fn verify_consensus_fault(
        &self,
        _h1: &[u8],
        _h2: &[u8],
        _extra: &[u8],
    ) -> Result<Option<ConsensusFault>, anyhow::Error> {
        Ok(self.v.consensus_fault.borrow().clone())
    }

    fn batch_verify_seals(&self, batch: &[SealVerifyInfo]) -> anyhow::Result<Vec<bool>> {
        Ok(vec![true; batch.len()]) // everyone wins
    }

    fn verify_aggregate_seals(
        &self,
        _aggregate: &AggregateSealVerifyProofAndInfos,
    ) -> Result<(), anyhow::Error> {
        Ok(())
    }

    fn verify_replica_update(&self, replica: &ReplicaUpdateInfo) -> Result<(), anyhow::Error> {
        self.v.primitives().verify_replica_update(replica)
    }
}

impl RuntimePolicy for InvocationCtx<'_> {
    fn policy(&self) -> &Policy {
        self.policy
    }
}
