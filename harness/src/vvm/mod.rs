use cid::Cid;
use fil_actor_account::State as AccountState;
use fil_actor_cron::{Entry as CronEntry, State as CronState};
use fil_actor_datacap::State as DataCapState;
use fil_actor_init::{ExecReturn, State as InitState};
use fil_actor_market::{Method as MarketMethod, State as MarketState};
use fil_actor_power::{Method as MethodPower, State as PowerState};
use fil_actor_reward::State as RewardState;
use fil_actor_system::State as SystemState;
use fil_actor_verifreg::State as VerifRegState;
use fil_actors_runtime::DATACAP_TOKEN_ACTOR_ADDR;
use fil_actors_runtime::cbor::serialize;
use fil_actors_runtime::runtime::builtins::Type;
use fil_actors_runtime::runtime::{EMPTY_ARR_CID, Policy, Primitives};
use fil_actors_runtime::test_blockstores::MemoryBlockstore;
use fil_actors_runtime::{
    BURNT_FUNDS_ACTOR_ADDR, CRON_ACTOR_ADDR, EAM_ACTOR_ADDR, INIT_ACTOR_ADDR, REWARD_ACTOR_ADDR,
    STORAGE_MARKET_ACTOR_ADDR, STORAGE_POWER_ACTOR_ADDR, SYSTEM_ACTOR_ADDR,
    VERIFIED_REGISTRY_ACTOR_ADDR,
};
use fil_actors_runtime::{DEFAULT_HAMT_CONFIG, Map2, test_utils::*};
use fvm_ipld_blockstore::Blockstore;
use fvm_ipld_encoding::CborStore;
use fvm_ipld_encoding::ipld_block::IpldBlock;
use fvm_ipld_hamt::{BytesKey, Hamt, Sha256};
use fvm_shared::address::Address;
use fvm_shared::bigint::Zero;
use fvm_shared::clock::ChainEpoch;
use fvm_shared::econ::TokenAmount;
use fvm_shared::error::ExitCode;
use fvm_shared::sector::StoragePower;
use fvm_shared::version::NetworkVersion;
use fvm_shared::{METHOD_SEND, MethodNum};
use multihash_codetable::Code;
use serde::ser;
use std::cell::{RefCell, RefMut};
use std::collections::{BTreeMap, HashMap};
use std::rc::Rc;
use vm_api::trace::InvocationTrace;
use vm_api::{ActorState, MessageResult, MockPrimitives, VM, VMError, new_actor};

use vm_api::util::{get_state, serialize_ok};

mod constants;
pub use constants::*;
mod messaging;
pub use messaging::*;

/// An in-memory rust-execution VM for testing builtin-actors that yields sensible stack traces and debug info
pub struct Vvm {
    pub primitives: FakePrimitives,
    pub store: Rc<MemoryBlockstore>,
    pub state_root: RefCell<Cid>,
    actors_dirty: RefCell<bool>,
    actors_cache: RefCell<HashMap<Address, ActorState>>,
    invocations: RefCell<Vec<InvocationTrace>>,
    // MachineContext equivalents
    network_version: NetworkVersion,
    curr_epoch: RefCell<ChainEpoch>,
    circulating_supply: RefCell<TokenAmount>,
    base_fee: RefCell<TokenAmount>,
    timestamp: RefCell<u64>,
    // --- harness additions ---
    /// actors deleted since the last checkpoint (applied to the HAMT at checkpoint)
    deleted: RefCell<Vec<Address>>,
    /// forced-abort plan for nested sends (fault injection)
    pub fault_plan: RefCell<FaultPlan>,
    /// ordinal of nested sends within the current top-level message
    pub send_ordinal: RefCell<u64>,
    /// scripted answer of verify_consensus_fault
    pub consensus_fault: RefCell<Option<fvm_shared::consensus::ConsensusFault>>,
    /// maximum call depth (FVM: 1024); exceeding it returns SYS_ASSERTION_FAILED-like limit error
    pub max_depth: RefCell<u32>,
    /// (from, to, method, exit code, message) of every failed invocation since the last `take_errors`
    pub error_log: RefCell<Vec<(u64, Address, MethodNum, u32, String)>>,
    /// the runtime policy handed to the actors (default: `Policy::default()`); set it right after
    /// construction, e.g. to allow the 2 KiB proof types whose partitions hold two sectors
    pub policy: Policy,
}

/// Which nested sends are forced to abort. A send matches when every `Some` field matches.
#[derive(Clone, Debug, Default)]
pub struct FaultRule {
    pub from: Option<u64>,
    pub to: Option<u64>,
    pub method: Option<MethodNum>,
    pub ordinal: Option<u64>,
    pub exit: u32,
    /// false: the callee aborts before doing anything; true: the callee runs (and may re-enter
    /// its caller), then aborts — everything it did is rolled back
    pub after: bool,
}

#[derive(Clone, Debug, Default)]
pub struct FaultPlan {
    pub rules: Vec<FaultRule>,
    pub hits: u64,
}

impl Vvm {
    pub fn new(store: impl Into<Rc<MemoryBlockstore>>) -> Vvm {
        let store = store.into();
        let mut actors =
            Hamt::<Rc<MemoryBlockstore>, ActorState, BytesKey, Sha256>::new_with_config(
                Rc::clone(&store),
                DEFAULT_HAMT_CONFIG,
            );

        Vvm {
            primitives: FakePrimitives::default(),
            store,
            state_root: RefCell::new(actors.flush().unwrap()),
            circulating_supply: RefCell::new(TokenAmount::zero()),
            actors_dirty: RefCell::new(false),
            actors_cache: RefCell::new(HashMap::new()),
            network_version: NetworkVersion::V16,
            curr_epoch: RefCell::new(ChainEpoch::zero()),
            invocations: RefCell::new(vec![]),
            base_fee: RefCell::new(TokenAmount::zero()),
            timestamp: RefCell::new(0),
            deleted: RefCell::new(vec![]),
            fault_plan: RefCell::new(FaultPlan::default()),
            send_ordinal: RefCell::new(0),
            consensus_fault: RefCell::new(None),
            max_depth: RefCell::new(1024),
            error_log: RefCell::new(vec![]),
            policy: Policy::default(),
        }
    }

    pub fn new_with_singletons(store: impl Into<Rc<MemoryBlockstore>>) -> Vvm {
        let reward_total = TokenAmount::from_whole(1_100_000_000i64);
        let faucet_total = TokenAmount::from_whole(1_000_000_000i64);

        let store = store.into();

        let v = Vvm::new(Rc::clone(&store));
        v.set_circulating_supply(&reward_total + &faucet_total);

        // system
        let sys_st = SystemState::new(&store).unwrap();
        let sys_head = v.put_store(&sys_st);
        let sys_value = faucet_total.clone(); // delegate faucet funds to system so we can construct faucet by sending to bls addr
        v.set_actor(
            &SYSTEM_ACTOR_ADDR,
            new_actor(*SYSTEM_ACTOR_CODE_ID, sys_head, 0, sys_value, None),
        );

        // init
        let init_st = InitState::new(&store, "integration-test".to_string()).unwrap();
        let init_head = v.put_store(&init_st);
        v.set_actor(
            &INIT_ACTOR_ADDR,
            new_actor(*INIT_ACTOR_CODE_ID, init_head, 0, TokenAmount::zero(), None),
        );

        // reward

        let reward_head = v.put_store(&RewardState::new(StoragePower::zero()));
        v.set_actor(
            &REWARD_ACTOR_ADDR,
            new_actor(*REWARD_ACTOR_CODE_ID, reward_head, 0, reward_total, None),
        );

        // cron
        let builtin_entries = vec![
            CronEntry {
                receiver: STORAGE_POWER_ACTOR_ADDR,
                method_num: MethodPower::OnEpochTickEnd as u64,
            },
            CronEntry {
                receiver: STORAGE_MARKET_ACTOR_ADDR,
                method_num: MarketMethod::CronTick as u64,
            },
        ];
        let cron_head = v.put_store(&CronState { entries: builtin_entries });
        v.set_actor(
            &CRON_ACTOR_ADDR,
            new_actor(*CRON_ACTOR_CODE_ID, cron_head, 0, TokenAmount::zero(), None),
        );

        // power
        let power_head = v.put_store(&PowerState::new(&v.store).unwrap());
        v.set_actor(
            &STORAGE_POWER_ACTOR_ADDR,
            new_actor(*POWER_ACTOR_CODE_ID, power_head, 0, TokenAmount::zero(), None),
        );

        // market
        let market_head = v.put_store(&MarketState::new(&v.store).unwrap());
        v.set_actor(
            &STORAGE_MARKET_ACTOR_ADDR,
            new_actor(*MARKET_ACTOR_CODE_ID, market_head, 0, TokenAmount::zero(), None),
        );

        // verifreg
        // initialize verifreg root signer
        v.execute_message(
            &INIT_ACTOR_ADDR,
            &Address::new_bls(VERIFREG_ROOT_KEY).unwrap(),
            &TokenAmount::zero(),
            METHOD_SEND,
            None,
        )
        .unwrap();
        let verifreg_root_signer =
            v.resolve_id_address(&Address::new_bls(VERIFREG_ROOT_KEY).unwrap()).unwrap();
        assert_eq!(TEST_VERIFREG_ROOT_SIGNER_ADDR, verifreg_root_signer);
        // verifreg root msig
        let msig_ctor_params = serialize(
            &fil_actor_multisig::ConstructorParams {
                signers: vec![verifreg_root_signer],
                num_approvals_threshold: 1,
                unlock_duration: 0,
                start_epoch: 0,
            },
            "multisig ctor params",
        )
        .unwrap();
        let msig_ctor_ret: ExecReturn = v
            .execute_message(
                &SYSTEM_ACTOR_ADDR,
                &INIT_ACTOR_ADDR,
                &TokenAmount::zero(),
                fil_actor_init::Method::Exec as u64,
                Some(serialize_ok(&fil_actor_init::ExecParams {
                    code_cid: *MULTISIG_ACTOR_CODE_ID,
                    constructor_params: msig_ctor_params,
                })),
            )
            .unwrap()
            .ret
            .unwrap()
            .deserialize()
            .unwrap();
        let root_msig_addr = msig_ctor_ret.id_address;
        assert_eq!(TEST_VERIFREG_ROOT_ADDR, root_msig_addr);
        // verifreg
        let verifreg_head = v.put_store(&VerifRegState::new(&v.store, root_msig_addr).unwrap());
        v.set_actor(
            &VERIFIED_REGISTRY_ACTOR_ADDR,
            new_actor(*VERIFREG_ACTOR_CODE_ID, verifreg_head, 0, TokenAmount::zero(), None),
        );

        // Ethereum Address Manager
        v.set_actor(
            &EAM_ACTOR_ADDR,
            new_actor(*EAM_ACTOR_CODE_ID, EMPTY_ARR_CID, 0, TokenAmount::zero(), None),
        );

        // datacap
        let datacap_head =
            v.put_store(&DataCapState::new(&v.store, VERIFIED_REGISTRY_ACTOR_ADDR).unwrap());
        v.set_actor(
            &DATACAP_TOKEN_ACTOR_ADDR,
            new_actor(*DATACAP_TOKEN_ACTOR_CODE_ID, datacap_head, 0, TokenAmount::zero(), None),
        );

        // burnt funds
        let burnt_funds_head = v.put_store(&AccountState { address: BURNT_FUNDS_ACTOR_ADDR });
        v.set_actor(
            &BURNT_FUNDS_ACTOR_ADDR,
            new_actor(*ACCOUNT_ACTOR_CODE_ID, burnt_funds_head, 0, TokenAmount::zero(), None),
        );

        // create a faucet with 1 billion FIL for setting up test accounts
        v.execute_message(
            &SYSTEM_ACTOR_ADDR,
            &Address::new_bls(FAUCET_ROOT_KEY).unwrap(),
            &faucet_total,
            METHOD_SEND,
            None,
        )
        .unwrap();

        v.checkpoint();
        v
    }

    pub fn put_store<S>(&self, obj: &S) -> Cid
    where
        S: ser::Serialize,
    {
        self.store.put_cbor(obj, Code::Blake2b256).unwrap()
    }

    pub fn checkpoint(&self) -> Cid {
        // persist cache on top of latest checkpoint and clear
        let mut actors =
            Hamt::<Rc<MemoryBlockstore>, ActorState, BytesKey, Sha256>::load_with_config(
                &self.state_root.borrow(),
                Rc::clone(&self.store),
                DEFAULT_HAMT_CONFIG,
            )
            .unwrap();
        for (addr, act) in self.actors_cache.borrow().iter() {
            actors.set(addr.to_bytes().into(), act.clone()).unwrap();
        }
        for addr in self.deleted.borrow_mut().drain(..) {
            actors.delete(&BytesKey::from(addr.to_bytes())).unwrap();
        }

        self.state_root.replace(actors.flush().unwrap());
        self.actors_dirty.replace(false);
        *self.state_root.borrow()
    }

    pub fn rollback(&self, root: Cid) {
        self.actors_cache.replace(HashMap::new());
        self.deleted.borrow_mut().clear();
        self.state_root.replace(root);
        self.actors_dirty.replace(false);
    }

    /// Remove an actor from the state tree (used by delete_actor).
    pub fn remove_actor(&self, addr: &Address) {
        self.checkpoint();
        self.actors_cache.borrow_mut().remove(addr);
        self.deleted.borrow_mut().push(*addr);
        self.actors_dirty.replace(true);
        self.checkpoint();
    }

    pub fn take_errors(&self) -> Vec<(u64, Address, MethodNum, u32, String)> {
        self.error_log.take()
    }

    fn actor_map(&self) -> Map2<&MemoryBlockstore, Address, ActorState> {
        Map2::load(self.store.as_ref(), &self.checkpoint(), DEFAULT_HAMT_CONFIG, "actors").unwrap()
    }
}

impl VM for Vvm {
    fn blockstore(&self) -> &dyn Blockstore {
        self.store.as_ref()
    }

    fn execute_message(
        &self,
        from: &Address,
        to: &Address,
        value: &TokenAmount,
        method: MethodNum,
        params: Option<IpldBlock>,
    ) -> Result<MessageResult, VMError> {
        let from_id = &self.resolve_id_address(from).unwrap();
        // TODO: for non-implicit calls validate that from_id is either the
        // account actor or the ethereum account actor and error otherwise
        let mut a = self.actor(from_id).unwrap();
        let call_seq = a.sequence;
        a.sequence = call_seq + 1;
        // EthAccount abstractions turns Placeholders into EthAccounts
        if a.code == *PLACEHOLDER_ACTOR_CODE_ID {
            // TODO: for non-implicit calls validate that the actor has a
            // delegated f4 address in the EAM's namespace
            a.code = *ETHACCOUNT_ACTOR_CODE_ID;
        }
        self.set_actor(from_id, a);

        let prior_root = self.checkpoint();

        // big.Mul(big.NewInt(1e9), big.NewInt(1e18))
        // make top level context with internal context
        let top = TopCtx {
            originator_stable_addr: *from,
            originator_call_seq: call_seq,
            new_actor_addr_count: Rc::new(RefCell::new(0)),
            circ_supply: self.circulating_supply.borrow().clone(),
        };
        let msg = InternalMessage {
            from: from_id.id().unwrap(),
            to: *to,
            value: value.clone(),
            method,
            params,
        };
        self.send_ordinal.replace(0);
        let mut new_ctx = InvocationCtx {
            depth: 0,
            v: self,
            top,
            msg,
            allow_side_effects: RefCell::new(true),
            caller_validated: RefCell::new(false),
            read_only: false,
            policy: &self.policy,
            subinvocations: RefCell::new(vec![]),
            events: RefCell::new(vec![]),
        };
        let res = new_ctx.invoke();

        let invoc = new_ctx.gather_trace(res.clone());
        RefMut::map(self.invocations.borrow_mut(), |invocs| {
            invocs.push(invoc);
            invocs
        });
        match res {
            Err(mut ae) => {
                self.rollback(prior_root);
                Ok(MessageResult {
                    code: ae.exit_code(),
                    message: ae.msg().to_string(),
                    ret: ae.take_data(),
                })
            }
            Ok(ret) => {
                self.checkpoint();
                Ok(MessageResult { code: ExitCode::OK, message: "OK".to_string(), ret })
            }
        }
    }

    fn execute_message_implicit(
        &self,
        from: &Address,
        to: &Address,
        value: &TokenAmount,
        method: MethodNum,
        params: Option<IpldBlock>,
    ) -> Result<MessageResult, VMError> {
        self.execute_message(from, to, value, method, params)
    }
    fn resolve_id_address(&self, address: &Address) -> Option<Address> {
        let st: InitState = get_state(self, &INIT_ACTOR_ADDR).unwrap();
        st.resolve_address(&self.store, address).unwrap()
    }

    fn balance(&self, address: &Address) -> TokenAmount {
        let a = self.actor(address);
        a.map_or(TokenAmount::zero(), |a| a.balance)
    }

    fn take_invocations(&self) -> Vec<InvocationTrace> {
        self.invocations.take()
    }

    fn actor(&self, address: &Address) -> Option<ActorState> {
        // check for inclusion in cache of changed actors
        if let Some(act) = self.actors_cache.borrow().get(address) {
            return Some(act.clone());
        }
        // go to persisted map
        let actors = self.actor_map();
        let actor = actors.get(address).unwrap().cloned();
        actor.iter().for_each(|a| {
            self.actors_cache.borrow_mut().insert(*address, a.clone());
        });
        actor
    }

    fn set_actor(&self, key: &Address, a: ActorState) {
        self.actors_cache.borrow_mut().insert(*key, a);
        self.actors_dirty.replace(true);
    }

    fn primitives(&self) -> &dyn Primitives {
        &self.primitives
    }

    fn actor_manifest(&self) -> BTreeMap<Cid, Type> {
        ACTOR_TYPES.clone()
    }

    fn actor_states(&self) -> BTreeMap<Address, ActorState> {
        let map = self.actor_map();
        let mut tree = BTreeMap::new();
        map.for_each(|k, v| {
            tree.insert(k, v.clone());
            Ok(())
        })
        .unwrap();

        tree
    }

    fn epoch(&self) -> ChainEpoch {
        *self.curr_epoch.borrow()
    }

    fn set_epoch(&self, epoch: ChainEpoch) {
        self.curr_epoch.replace(epoch);
    }
    fn circulating_supply(&self) -> TokenAmount {
        self.circulating_supply.borrow().clone()
    }

    fn set_circulating_supply(&self, supply: TokenAmount) {
        self.circulating_supply.replace(supply);
    }

    fn base_fee(&self) -> TokenAmount {
        self.base_fee.borrow().clone()
    }

    fn set_base_fee(&self, amount: TokenAmount) {
        self.base_fee.replace(amount);
    }

    fn timestamp(&self) -> u64 {
        *self.timestamp.borrow()
    }

    fn set_timestamp(&self, timestamp: u64) {
        self.timestamp.replace(timestamp);
    }

    fn mut_primitives(&self) -> &dyn MockPrimitives {
        &self.primitives
    }
}
