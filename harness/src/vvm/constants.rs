use fil_actors_runtime::FIRST_NON_SINGLETON_ADDR;
use fvm_shared::{ActorID, address::Address};

// TODO: Deduplicate these constants which currently exist both here and in the integration_tests crate.
// https://github.com/filecoin-project/builtin-actors/issues/1348

// accounts for verifreg root signer and msig
pub const VERIFREG_ROOT_KEY: &[u8] = &[200; fvm_shared::address::BLS_PUB_LEN];
pub const TEST_VERIFREG_ROOT_SIGNER_ADDR: Address = Address::new_id(FIRST_NON_SINGLETON_ADDR);
pub const TEST_VERIFREG_ROOT_ADDR: Address = Address::new_id(FIRST_NON_SINGLETON_ADDR + 1);

// account actor seeding funds created by new_with_singletons
pub const FAUCET_ROOT_KEY: &[u8] = &[153; fvm_shared::address::BLS_PUB_LEN];
pub const TEST_FAUCET_ADDR: Address = Address::new_id(FIRST_NON_SINGLETON_ADDR + 2);
pub const FIRST_TEST_USER_ADDR: ActorID = FIRST_NON_SINGLETON_ADDR + 3;

// static values for predictable testing
pub const TEST_VM_RAND_ARRAY: [u8; 32] = [
    1u8, 2, 3, 4, 5, 6, 7, 8, 9, 10, 11, 12, 13, 14, 15, 16, 17, 18, 19, 20, 21, 22, 23, 24, 25,
    26, 27, 28, 29, 30, 31, 32,
];
pub const TEST_VM_INVALID_POST: &str = "i_am_invalid_post";
