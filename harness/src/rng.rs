//! One PRNG (splitmix64) drives every random choice so a run replays exactly from VERIF_SEED.
#[derive(Clone, Debug)]
pub struct Rng(pub u64);

impl Rng {
    pub fn new(seed: u64) -> Self {
        Rng(seed.wrapping_mul(0x9E3779B97F4A7C15).wrapping_add(0xD1B54A32D192ED03))
    }
    pub fn next(&mut self) -> u64 {
        self.0 = self.0.wrapping_add(0x9E3779B97F4A7C15);
        let mut z = self.0;
        z = (z ^ (z >> 30)).wrapping_mul(0xBF58476D1CE4E5B9);
        z = (z ^ (z >> 27)).wrapping_mul(0x94D049BB133111EB);
        z ^ (z >> 31)
    }
    /// uniform in [0, n)
    pub fn below(&mut self, n: u64) -> u64 {
        if n == 0 { 0 } else { self.next() % n }
    }
    /// uniform in [lo, hi] (inclusive)
    pub fn range(&mut self, lo: i64, hi: i64) -> i64 {
        if hi <= lo { lo } else { lo + (self.next() % ((hi - lo + 1) as u64)) as i64 }
    }
    pub fn chance(&mut self, num: u64, den: u64) -> bool {
        self.below(den) < num
    }
    pub fn pick<'a, T>(&mut self, xs: &'a [T]) -> &'a T {
        &xs[self.below(xs.len() as u64) as usize]
    }
    pub fn fork(&mut self) -> Rng {
        Rng(self.next())
    }
}
