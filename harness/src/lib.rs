//! Verification harness for filecoin-project/builtin-actors (links the actors from /repo by path).
pub mod vvm;
pub mod rng;
pub mod lean;
pub mod report;
pub mod world;
pub mod chain;
pub mod props;
