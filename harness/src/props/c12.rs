//! C12 — multisig: spending needs a quorum of current signers, once, within the lock.
//! Two real multisig actors (A, and B which is created with A among its signers and can become a
//! signer of A) in the vvm ⇄ Lean `BA.Multisig` model (one model instance per wallet), plus an
//! independent oracle that keeps its own approval log and checks every inner send in the trace.
use super::{RunCfg, hash_lines, seq_rng};
use crate::lean::LeanDriver;
use crate::report::{Disagreement, Report, Violation, write_replay};
use crate::rng::Rng;
use crate::vvm::{FaultPlan, FaultRule};
use crate::world::{World, exit_class};
use fil_actor_multisig::{
    AddSignerParams, ApproveReturn, ChangeNumApprovalsThresholdParams, ConstructorParams,
    LockBalanceParams, PendingTxnMap, ProposeParams, ProposeReturn, RemoveSignerParams, State,
    SwapSignerParams, Transaction, TxnID, TxnIDParams, compute_proposal_hash, PENDING_TXN_CONFIG,
};
use fil_actors_runtime::INIT_ACTOR_ADDR;
use fvm_ipld_encoding::RawBytes;
use fvm_ipld_encoding::ipld_block::IpldBlock;
use fvm_shared::address::Address;
use fvm_shared::econ::TokenAmount;
use fvm_shared::METHOD_SEND;
use serde_json::json;
use std::cell::RefCell;
use std::collections::{BTreeMap, BTreeSet, HashMap, HashSet};
use vm_api::VM;
use vm_api::trace::InvocationTrace;

/// the limit on signers as the property states it
const SPEC_SIGNERS_MAX: usize = 256;
const FIRST_EXPORTED: u64 = 1 << 24;
/// exit code of a send the harness forces to abort (SYS_OUT_OF_GAS; no actor returns it by itself)
const FAULT_EXIT: u32 = 7;
/// sequence number of the signer-limit probe
const PROBE_SEQ: u64 = 1_000_000;
/// scripted: a transaction with three approvals whose first approver is removed, then cancel attempts
const PURGE_SEQ: u64 = 1_000_001;
/// the same script with the signer named by its key address in RemoveSigner / SwapSigner / AddSigner
const PURGE_KEY_SEQ: u64 = 1_000_002;

fn atto(n: i64) -> TokenAmount {
    TokenAmount::from_atto(n)
}
fn ai(t: &TokenAmount) -> i128 {
    t.atto().to_string().parse::<i128>().unwrap_or(i128::MAX)
}

struct Env {
    w: World,
    accts: Vec<Address>,
    /// id addresses of the wallets (index = model instance)
    wallets: RefCell<Vec<u64>>,
    /// (target, method, parameter bytes) -> flat integer encoding used on the model side
    reg: RefCell<HashMap<(u64, u64, Vec<u8>), Vec<i64>>>,
    /// id -> key (robust) address of the accounts
    keys: HashMap<u64, Address>,
    /// signer-management parameters name accounts by their key address (the actor resolves them)
    key_form: bool,
}

impl Env {
    fn widx(&self, id: u64) -> Option<usize> {
        self.wallets.borrow().iter().position(|x| *x == id)
    }
    fn is_wallet(&self, id: u64) -> bool {
        self.widx(id).is_some()
    }

    /// parameter bytes of a call `(to, method)` from the flat integer encoding (the inverse of the
    /// model's `decode` for wallet targets; a CBOR integer array for every other target)
    fn encode(&self, to: u64, method: u64, list: &[i64]) -> RawBytes {
        let b = self.encode_inner(to, method, list);
        self.reg.borrow_mut().insert((to, method, b.to_vec()), list.to_vec());
        b
    }

    fn encode_inner(&self, to: u64, method: u64, list: &[i64]) -> RawBytes {
        let garbage = || RawBytes::serialize(&("bad".to_string(), list.to_vec())).unwrap();
        let generic = || {
            if list.is_empty() { RawBytes::default() } else { RawBytes::serialize(&list.to_vec()).unwrap() }
        };
        if !self.is_wallet(to) || !(2..=9).contains(&method) {
            return generic();
        }
        let idaddr = |x: i64| Address::new_id(x as u64);
        // signer named by key address when the sequence asks for it (same flat encoding on the model side)
        let saddr = |x: i64| if self.key_form { self.keys.get(&(x as u64)).cloned().unwrap_or(Address::new_id(x as u64)) } else { Address::new_id(x as u64) };
        match method {
            2 => {
                if list.len() >= 3 && list[0] >= 0 && list[2] >= 0 {
                    let inner = self.encode(list[0] as u64, list[2] as u64, &list[3..]);
                    RawBytes::serialize(&ProposeParams {
                        to: idaddr(list[0]),
                        value: atto(list[1]),
                        method: list[2] as u64,
                        params: inner,
                    })
                    .unwrap()
                } else {
                    garbage()
                }
            }
            3 | 4 => {
                if list.len() == 2 && list[0] >= 0 {
                    let h = if list[1] == 0 { vec![] } else { format!("{:032}", list[1]).into_bytes() };
                    RawBytes::serialize(&TxnIDParams { id: TxnID(list[0]), proposal_hash: h }).unwrap()
                } else {
                    garbage()
                }
            }
            5 => {
                if list.len() == 2 && list[0] >= 0 && (list[1] == 0 || list[1] == 1) {
                    RawBytes::serialize(&AddSignerParams { signer: saddr(list[0]), increase: list[1] == 1 }).unwrap()
                } else {
                    garbage()
                }
            }
            6 => {
                if list.len() == 2 && list[0] >= 0 && (list[1] == 0 || list[1] == 1) {
                    RawBytes::serialize(&RemoveSignerParams { signer: saddr(list[0]), decrease: list[1] == 1 }).unwrap()
                } else {
                    garbage()
                }
            }
            7 => {
                if list.len() == 2 && list[0] >= 0 && list[1] >= 0 {
                    RawBytes::serialize(&SwapSignerParams { from: saddr(list[0]), to: saddr(list[1]) }).unwrap()
                } else {
                    garbage()
                }
            }
            8 => {
                if list.len() == 1 && list[0] >= 0 {
                    RawBytes::serialize(&ChangeNumApprovalsThresholdParams { new_threshold: list[0] as u64 }).unwrap()
                } else {
                    garbage()
                }
            }
            _ => {
                if list.len() == 3 {
                    RawBytes::serialize(&LockBalanceParams {
                        start_epoch: list[0],
                        unlock_duration: list[1],
                        amount: atto(list[2]),
                    })
                    .unwrap()
                } else {
                    garbage()
                }
            }
        }
    }

    fn list_of(&self, to: u64, method: u64, bytes: &[u8]) -> String {
        match self.reg.borrow().get(&(to, method, bytes.to_vec())) {
            Some(l) => dots(&l.iter().map(|x| x.to_string()).collect::<Vec<_>>()),
            None => format!("?{}", hex::encode(bytes)),
        }
    }
    fn list_commas(&self, to: u64, method: u64, bytes: &[u8]) -> String {
        match self.reg.borrow().get(&(to, method, bytes.to_vec())) {
            Some(l) if l.is_empty() => "-".into(),
            Some(l) => l.iter().map(|x| x.to_string()).collect::<Vec<_>>().join(","),
            None => format!("?{}", hex::encode(bytes)),
        }
    }
}

fn dots(xs: &[String]) -> String {
    if xs.is_empty() { "-".into() } else { xs.join(".") }
}
fn commas(xs: &[String]) -> String {
    if xs.is_empty() { "-".into() } else { xs.join(",") }
}

thread_local! {
    /// key (robust) address -> id of the accounts of the current sequence (what the actor's
    /// `resolve_to_actor_id` would answer)
    static KEY_TO_ID: RefCell<HashMap<Address, u64>> = RefCell::new(HashMap::new());
}
fn to_id(a: &Address) -> Option<u64> {
    a.id().ok().or_else(|| KEY_TO_ID.with(|m| m.borrow().get(a).cloned()))
}
fn pbytes(p: &Option<IpldBlock>) -> Vec<u8> {
    p.as_ref().map(|b| b.data.clone()).unwrap_or_default()
}
fn de<T: serde::de::DeserializeOwned>(p: &Option<IpldBlock>) -> Option<T> {
    p.as_ref().and_then(|b| b.deserialize::<T>().ok())
}

// ------------------------------------------------------------------ projection of the real state

#[derive(Clone, Debug, Default, PartialEq)]
struct TxP {
    to: u64,
    value: i128,
    method: u64,
    params: Vec<u8>,
    approved: Vec<u64>,
}

#[derive(Clone, Debug, Default, PartialEq)]
struct WProj {
    signers: Vec<u64>,
    threshold: u64,
    next_id: i64,
    start: i64,
    duration: i64,
    initial: i128,
    balance: i128,
    pending: BTreeMap<i64, TxP>,
}

fn project(e: &Env, wid: u64) -> (WProj, BTreeMap<i64, Transaction>) {
    let addr = Address::new_id(wid);
    let st: State = vm_api::util::get_state(&e.w.vm, &addr).unwrap();
    let bal = e.w.balance(&addr);
    let ptx = PendingTxnMap::load(e.w.vm.store.as_ref(), &st.pending_txs, PENDING_TXN_CONFIG, "pending").unwrap();
    let mut pending = BTreeMap::new();
    let mut raw = BTreeMap::new();
    ptx.for_each(|k, t: &Transaction| {
        pending.insert(
            k.0,
            TxP {
                to: to_id(&t.to).unwrap_or(u64::MAX),
                value: ai(&t.value),
                method: t.method,
                params: t.params.to_vec(),
                approved: t.approved.iter().map(|a| to_id(a).unwrap_or(u64::MAX)).collect(),
            },
        );
        raw.insert(k.0, t.clone());
        Ok(())
    })
    .unwrap();
    (
        WProj {
            signers: st.signers.iter().map(|a| to_id(a).unwrap_or(u64::MAX)).collect(),
            threshold: st.num_approvals_threshold,
            next_id: st.next_tx_id.0,
            start: st.start_epoch,
            duration: st.unlock_duration,
            initial: ai(&st.initial_balance),
            balance: ai(&bal),
            pending,
        },
        raw,
    )
}

fn show(e: &Env, p: &WProj) -> String {
    let txs: Vec<String> = p
        .pending
        .iter()
        .map(|(id, t)| {
            format!(
                "{}:{}:{}:{}:{}:{}",
                id,
                t.to,
                t.value,
                t.method,
                e.list_of(t.to, t.method, &t.params),
                dots(&t.approved.iter().map(|x| x.to_string()).collect::<Vec<_>>())
            )
        })
        .collect();
    format!(
        "{} {} {} {} {} {} {} {}",
        commas(&p.signers.iter().map(|x| x.to_string()).collect::<Vec<_>>()),
        p.threshold,
        p.next_id,
        p.start,
        p.duration,
        p.initial,
        p.balance,
        commas(&txs)
    )
}

// ------------------------------------------------------------------ trace -> model activations

/// root activations of wallet `w` inside `inv` (not descending into them), in execution order
fn roots<'a>(w: u64, inv: &'a InvocationTrace, out: &mut Vec<&'a InvocationTrace>) {
    if to_id(&inv.to) == Some(w) {
        // a forced abort is not an activation of the wallet's code the model could replay
        // (everything under it was rolled back)
        if inv.exit_code.value() != FAULT_EXIT {
            out.push(inv);
        }
    } else {
        for s in inv.subinvocations.iter() {
            roots(w, s, out);
        }
    }
}

/// the decoded call of an activation as model tokens
fn call_tokens(e: &Env, w: u64, inv: &InvocationTrace, hash_override: Option<bool>) -> String {
    let m = inv.method;
    if m == 0 {
        return "RCV".into();
    }
    let idof = |a: &Address| to_id(a);
    match m {
        2 => match de::<ProposeParams>(&inv.params) {
            Some(p) => match idof(&p.to) {
                Some(to) => format!(
                    "P {} {} {} {}",
                    to,
                    p.value.atto(),
                    p.method,
                    e.list_commas(to, p.method, p.params.bytes())
                ),
                _ => "BAD".into(),
            },
            None => "BAD".into(),
        },
        3 | 4 => match de::<TxnIDParams>(&inv.params) {
            Some(p) if p.id.0 >= 0 => format!(
                "{} {} {}",
                if m == 3 { "A" } else { "C" },
                p.id.0,
                hash_override.unwrap_or(p.proposal_hash.is_empty()) as u8
            ),
            _ => "BAD".into(),
        },
        5 => match de::<AddSignerParams>(&inv.params) {
            Some(p) => match idof(&p.signer) { Some(a) => format!("AS {} {}", a, p.increase as u8), None => "BAD".into() },
            None => "BAD".into(),
        },
        6 => match de::<RemoveSignerParams>(&inv.params) {
            Some(p) => match idof(&p.signer) { Some(a) => format!("RS {} {}", a, p.decrease as u8), None => "BAD".into() },
            None => "BAD".into(),
        },
        7 => match de::<SwapSignerParams>(&inv.params) {
            Some(p) => match (idof(&p.from), idof(&p.to)) { (Some(a), Some(b)) => format!("SW {} {}", a, b), _ => "BAD".into() },
            None => "BAD".into(),
        },
        8 => match de::<ChangeNumApprovalsThresholdParams>(&inv.params) {
            Some(p) => format!("TH {}", p.new_threshold),
            None => "BAD".into(),
        },
        9 => match de::<LockBalanceParams>(&inv.params) {
            Some(p) => format!("LB {} {} {}", p.start_epoch, p.unlock_duration, p.amount.atto()),
            None => "BAD".into(),
        },
        _ if m >= FIRST_EXPORTED => "RCV".into(),
        _ => { let _ = w; "BAD".into() }
    }
}

/// activation tree of wallet `w` rooted at `inv` (an invocation of `w`) as model tokens, and the
/// inner sends of `w` inside it in execution order
fn act_tokens(e: &Env, w: u64, inv: &InvocationTrace, hash_override: Option<bool>, sends: &mut Vec<String>) -> String {
    let call = call_tokens(e, w, inv, hash_override);
    let mut send_ok = true;
    let mut children: Vec<String> = vec![];
    if let Some(snd) = inv.subinvocations.first() {
        sends.push(format!("{}:{}:{}", to_id(&snd.to).map(|x| x.to_string()).unwrap_or("?".into()), snd.value.atto(), snd.method));
        if to_id(&snd.to) == Some(w) {
            // the callee is the wallet itself: the model computes the outcome from the stored call
            children.push(act_tokens(e, w, snd, None, sends));
        } else {
            send_ok = snd.exit_code.is_success();
            let mut rs = vec![];
            roots(w, snd, &mut rs);
            for r in rs {
                children.push(act_tokens(e, w, r, None, sends));
            }
        }
    }
    let mut s = format!("{} {} {} {} {}", inv.from, inv.value.atto(), call, send_ok as u8, children.len());
    for c in children {
        s.push(' ');
        s.push_str(&c);
    }
    s
}

/// what the real activation answered, in the driver's format (without projection)
fn real_out(inv: &InvocationTrace, sends: &[String]) -> String {
    if !inv.exit_code.is_success() {
        return format!("err {}", commas(sends));
    }
    match inv.method {
        2 => match inv.return_value.as_ref().and_then(|b| b.deserialize::<ProposeReturn>().ok()) {
            Some(r) => format!("ok {} {} {} {}", r.txn_id.0, r.applied as u8, r.code.is_success() as u8, commas(sends)),
            None => "ok ?".into(),
        },
        3 => {
            let id = de::<TxnIDParams>(&inv.params).map(|p| p.id.0).unwrap_or(-1);
            match inv.return_value.as_ref().and_then(|b| b.deserialize::<ApproveReturn>().ok()) {
                Some(r) => format!("ok {} {} {} {}", id, r.applied as u8, r.code.is_success() as u8, commas(sends)),
                None => "ok ?".into(),
            }
        }
        _ => format!("ok 0 0 1 {}", commas(sends)),
    }
}

// ------------------------------------------------------------------ oracle

#[derive(Clone, Debug)]
struct OTx {
    to: u64,
    value: i128,
    method: u64,
    params: Vec<u8>,
    /// in order of approval, purged of removed/replaced signers
    approvers: Vec<u64>,
}

#[derive(Clone, Debug, Default)]
struct OW {
    id: u64,
    signers: Vec<u64>,
    threshold: u64,
    start: i64,
    duration: i64,
    initial: i128,
    balance: i128,
    log: BTreeMap<i64, OTx>,
    executed: BTreeSet<i64>,
}

impl OW {
    /// the amount still locked at `epoch`, from the property statement (linear vesting, rounded up)
    fn locked(&self, epoch: i64) -> i128 {
        let elapsed = epoch - self.start;
        if elapsed >= self.duration {
            return 0;
        }
        if elapsed <= 0 {
            return self.initial;
        }
        let d = self.duration as i128;
        let n = self.initial * (d - elapsed as i128);
        (n + d - 1).div_euclid(d)
    }
    fn purge(&mut self, a: u64) {
        for t in self.log.values_mut() {
            t.approvers.retain(|x| *x != a);
        }
        self.log.retain(|_, t| !t.approvers.is_empty());
    }
}

#[derive(Clone, Debug, Default)]
struct Oracle {
    ws: Vec<OW>,
    sends_seen: u64,
    reentrant_sends: u64,
    failed_sends: u64,
}

type Viol = Vec<(String, String)>;

impl Oracle {
    fn widx(&self, id: u64) -> Option<usize> {
        self.ws.iter().position(|w| w.id == id)
    }

    fn walk(&mut self, inv: &InvocationTrace, epoch: i64, depth: u32, out: &mut Viol) {
        let snap = self.ws.clone();
        let v = ai(&inv.value);
        if let Some(i) = self.widx(inv.from) {
            self.ws[i].balance -= v;
        }
        match to_id(&inv.to).and_then(|t| self.widx(t)) {
            Some(i) => {
                self.ws[i].balance += v;
                self.handle(i, inv, epoch, depth, out);
            }
            None => {
                for s in inv.subinvocations.iter() {
                    self.walk(s, epoch, depth + 1, out);
                }
            }
        }
        if !inv.exit_code.is_success() {
            self.ws = snap;
        }
    }

    fn handle(&mut self, i: usize, inv: &InvocationTrace, epoch: i64, depth: u32, out: &mut Viol) {
        let caller = inv.from;
        let ok = inv.exit_code.is_success();
        let wid = self.ws[i].id;
        let tag = |s: &str| format!("wallet {} caller {} method {}: {}", wid, caller, inv.method, s);
        // membership when the call starts (the executed transaction may remove the caller)
        let was_signer = self.ws[i].signers.contains(&caller);
        match inv.method {
            2 | 3 => {
                let (id, tx): (Option<i64>, Option<OTx>) = if inv.method == 2 {
                    let id = if ok {
                        inv.return_value.as_ref().and_then(|b| b.deserialize::<ProposeReturn>().ok()).map(|r| r.txn_id.0)
                    } else {
                        None
                    };
                    let tx = de::<ProposeParams>(&inv.params).map(|p| OTx {
                        to: to_id(&p.to).unwrap_or(u64::MAX),
                        value: ai(&p.value),
                        method: p.method,
                        params: p.params.to_vec(),
                        approvers: vec![],
                    });
                    (id, tx)
                } else {
                    let id = de::<TxnIDParams>(&inv.params).map(|p| p.id.0);
                    let tx = id.and_then(|id| self.ws[i].log.get(&id).cloned());
                    (id, tx)
                };
                if inv.subinvocations.len() > 1 {
                    out.push(("wallet-sent-more-than-once-in-one-call".into(), tag("")));
                }
                for snd in inv.subinvocations.iter() {
                    self.sends_seen += 1;
                    if depth > 0 {
                        self.reentrant_sends += 1;
                    }
                    if !snd.exit_code.is_success() {
                        self.failed_sends += 1;
                    }
                    let sv = ai(&snd.value);
                    match (id, &tx) {
                        (Some(id), Some(tx)) => {
                            let same = to_id(&snd.to) == Some(tx.to)
                                && sv == tx.value
                                && snd.method == tx.method
                                && pbytes(&snd.params) == tx.params;
                            if !same {
                                out.push(("sent-other-than-the-approved-transaction".into(), tag(&format!("tx {}", id))));
                            }
                            let w = &self.ws[i];
                            let mut ap: Vec<u64> = tx.approvers.clone();
                            if !ap.contains(&caller) {
                                ap.push(caller);
                            }
                            let cur: BTreeSet<u64> = ap.iter().cloned().filter(|a| w.signers.contains(a)).collect();
                            if (cur.len() as u64) < w.threshold {
                                out.push((
                                    "send-without-quorum".into(),
                                    tag(&format!("tx {} approvals by current signers {:?} threshold {} signers {:?}", id, cur, w.threshold, w.signers)),
                                ));
                            }
                            if w.executed.contains(&id) {
                                out.push(("transaction-sent-twice".into(), tag(&format!("tx {}", id))));
                            }
                            // value the wallet sends to itself does not leave the wallet
                            if sv > 0 && to_id(&snd.to) != Some(wid) && w.balance - sv < w.locked(epoch) {
                                out.push((
                                    "send-leaves-balance-below-locked".into(),
                                    tag(&format!("tx {} balance {} value {} locked {} epoch {}", id, w.balance, sv, w.locked(epoch), epoch)),
                                ));
                            }
                            if sv < 0 {
                                out.push(("negative-value-sent".into(), tag(&format!("tx {}", id))));
                            }
                            let w = &mut self.ws[i];
                            w.executed.insert(id);
                            w.log.remove(&id);
                        }
                        (Some(id), None) => {
                            if self.ws[i].executed.contains(&id) {
                                out.push(("transaction-sent-twice".into(), tag(&format!("tx {} was already sent", id))));
                            } else {
                                out.push(("send-of-a-transaction-nobody-proposed".into(), tag(&format!("tx {}", id))));
                            }
                        }
                        (None, _) => {
                            // a proposal that was forced to abort after it ran lost its return value
                            if inv.exit_code.value() != FAULT_EXIT {
                                out.push(("send-inside-a-failed-proposal".into(), tag("")));
                            }
                        }
                    }
                    self.walk(snd, epoch, depth + 1, out);
                }
                if ok {
                    if !was_signer {
                        out.push(("non-signer-accepted".into(), tag("")));
                    }
                    let applied = if inv.method == 2 {
                        inv.return_value.as_ref().and_then(|b| b.deserialize::<ProposeReturn>().ok()).map(|r| r.applied)
                    } else {
                        inv.return_value.as_ref().and_then(|b| b.deserialize::<ApproveReturn>().ok()).map(|r| r.applied)
                    };
                    match applied {
                        Some(true) => {
                            if inv.subinvocations.is_empty() {
                                out.push(("applied-reported-without-send".into(), tag("")));
                            }
                        }
                        Some(false) => {
                            if !inv.subinvocations.is_empty() {
                                out.push(("send-not-reported-as-applied".into(), tag("")));
                            }
                            match (id, tx) {
                                (Some(id), Some(mut tx)) => {
                                    if inv.method == 3 && tx.approvers.contains(&caller) {
                                        out.push(("repeated-approval-accepted".into(), tag(&format!("tx {}", id))));
                                    }
                                    if !tx.approvers.contains(&caller) {
                                        tx.approvers.push(caller);
                                    }
                                    self.ws[i].log.insert(id, tx);
                                }
                                (Some(id), None) => out.push(("approval-of-unknown-transaction-accepted".into(), tag(&format!("tx {}", id)))),
                                _ => {}
                            }
                        }
                        None => out.push(("undecodable-return".into(), tag(""))),
                    }
                }
            }
            4 => {
                if ok {
                    if !was_signer {
                        out.push(("non-signer-accepted".into(), tag("cancel")));
                    }
                    if let Some(id) = de::<TxnIDParams>(&inv.params).map(|p| p.id.0) {
                        match self.ws[i].log.get(&id) {
                            None => out.push(("cancel-of-unknown-transaction-accepted".into(), tag(&format!("tx {}", id)))),
                            Some(t) => {
                                if t.approvers.first() != Some(&caller) {
                                    out.push((
                                        "cancel-by-other-than-earliest-approver".into(),
                                        tag(&format!("tx {} approvers {:?}", id, t.approvers)),
                                    ));
                                }
                            }
                        }
                        self.ws[i].log.remove(&id);
                    }
                }
                for s in inv.subinvocations.iter() {
                    out.push(("unexpected-send".into(), tag("cancel sends")));
                    self.walk(s, epoch, depth + 1, out);
                }
            }
            5..=9 => {
                for s in inv.subinvocations.iter() {
                    self.walk(s, epoch, depth + 1, out);
                }
                if ok {
                    if caller != wid {
                        out.push(("admin-method-accepted-from-other-than-the-wallet".into(), tag("")));
                    }
                    let w = &mut self.ws[i];
                    match inv.method {
                        5 => {
                            if let Some(p) = de::<AddSignerParams>(&inv.params) {
                                w.signers.push(to_id(&p.signer).unwrap_or(u64::MAX));
                                if p.increase {
                                    w.threshold += 1;
                                }
                            }
                        }
                        6 => {
                            if let Some(p) = de::<RemoveSignerParams>(&inv.params) {
                                let a = to_id(&p.signer).unwrap_or(u64::MAX);
                                w.signers.retain(|x| *x != a);
                                if p.decrease {
                                    w.threshold = w.threshold.saturating_sub(1);
                                }
                                w.purge(a);
                            }
                        }
                        7 => {
                            if let Some(p) = de::<SwapSignerParams>(&inv.params) {
                                let a = to_id(&p.from).unwrap_or(u64::MAX);
                                w.signers.retain(|x| *x != a);
                                w.signers.push(to_id(&p.to).unwrap_or(u64::MAX));
                                w.purge(a);
                            }
                        }
                        8 => {
                            if let Some(p) = de::<ChangeNumApprovalsThresholdParams>(&inv.params) {
                                w.threshold = p.new_threshold;
                            }
                        }
                        _ => {
                            if let Some(p) = de::<LockBalanceParams>(&inv.params) {
                                if w.duration != 0 {
                                    out.push(("lock-modified-after-it-was-set".into(), tag("")));
                                }
                                w.start = p.start_epoch;
                                w.duration = p.unlock_duration;
                                w.initial = ai(&p.amount);
                            }
                        }
                    }
                }
            }
            _ => {
                for s in inv.subinvocations.iter() {
                    out.push(("unexpected-send".into(), tag("")));
                    self.walk(s, epoch, depth + 1, out);
                }
            }
        }
    }

    /// after a top-level message: the real state against the tracked facts and the shape invariant
    fn check_state(&self, i: usize, p: &WProj, out: &mut Viol) {
        let w = &self.ws[i];
        let n = p.signers.len();
        if !(1 <= p.threshold && p.threshold as usize <= n && n <= SPEC_SIGNERS_MAX) {
            out.push(("threshold-or-signer-count-out-of-range".into(), format!("wallet {} threshold {} signers {}", w.id, p.threshold, n)));
        }
        let set: BTreeSet<u64> = p.signers.iter().cloned().collect();
        if set.len() != n {
            out.push(("duplicate-signer".into(), format!("wallet {} {:?}", w.id, p.signers)));
        }
        let mut a = p.signers.clone();
        a.sort();
        let mut b = w.signers.clone();
        b.sort();
        if a != b || p.threshold != w.threshold {
            out.push((
                "signers-or-threshold-changed-outside-a-self-call".into(),
                format!("wallet {} real {:?}/{} expected {:?}/{}", w.id, p.signers, p.threshold, w.signers, w.threshold),
            ));
        }
        if (p.start, p.duration, p.initial) != (w.start, w.duration, w.initial) {
            out.push((
                "lock-changed-outside-a-self-call".into(),
                format!("wallet {} real {:?} expected {:?}", w.id, (p.start, p.duration, p.initial), (w.start, w.duration, w.initial)),
            ));
        }
        if p.balance != w.balance {
            out.push(("balance-differs-from-traced-transfers".into(), format!("wallet {} real {} traced {}", w.id, p.balance, w.balance)));
        }
        for (id, t) in p.pending.iter() {
            let aset: BTreeSet<u64> = t.approved.iter().cloned().collect();
            if t.approved.is_empty() || aset.len() != t.approved.len() {
                out.push(("pending-approvals-empty-or-duplicated".into(), format!("wallet {} tx {} {:?}", w.id, id, t.approved)));
            }
            if !t.approved.iter().all(|x| set.contains(x)) {
                out.push(("pending-approval-of-a-non-signer".into(), format!("wallet {} tx {} approved {:?} signers {:?}", w.id, id, t.approved, p.signers)));
            }
            if *id >= p.next_id || *id < 0 {
                out.push(("pending-id-not-below-next-id".into(), format!("wallet {} tx {} next {}", w.id, id, p.next_id)));
            }
            if w.executed.contains(id) {
                out.push(("executed-transaction-pending-again".into(), format!("wallet {} tx {}", w.id, id)));
            }
            match w.log.get(id) {
                None => out.push(("pending-transaction-nobody-proposed".into(), format!("wallet {} tx {}", w.id, id))),
                Some(l) => {
                    if (l.to, l.value, l.method, &l.params) != (t.to, t.value, t.method, &t.params) {
                        out.push(("pending-transaction-differs-from-proposal".into(), format!("wallet {} tx {}", w.id, id)));
                    }
                    if !t.approved.iter().all(|x| l.approvers.contains(x)) {
                        out.push((
                            "stored-approval-nobody-made".into(),
                            format!("wallet {} tx {} stored {:?} made {:?}", w.id, id, t.approved, l.approvers),
                        ));
                    }
                }
            }
        }
    }
}

// ------------------------------------------------------------------ generator

#[derive(Clone, Debug)]
struct TopMsg {
    from: usize, // index into accts
    wi: usize,   // wallet index
    value: i64,
    method: u64,
    params: Option<IpldBlock>,
    /// for top-level Approve/Cancel: proposal hash empty or equal to the real one
    hash_ok: Option<bool>,
    desc: String,
}

enum GOp {
    Msg(TopMsg),
    Advance(i64),
}

struct G<'a> {
    e: &'a Env,
    projs: Vec<WProj>,
    raws: Vec<BTreeMap<i64, Transaction>>,
    epoch: i64,
}

impl G<'_> {
    fn wid(&self, wi: usize) -> u64 {
        self.e.wallets.borrow()[wi]
    }
    fn acct_ids(&self) -> Vec<u64> {
        self.e.accts.iter().map(|a| a.id().unwrap()).collect()
    }
    fn locked(&self, wi: usize) -> i128 {
        let p = &self.projs[wi];
        OW { start: p.start, duration: p.duration, initial: p.initial, ..Default::default() }.locked(self.epoch)
    }

    /// a transaction to propose on wallet `wi`: (to, value, method, flat params)
    fn gen_tx(&self, r: &mut Rng, wi: usize, depth: u32) -> (u64, i64, u64, Vec<i64>) {
        let p = &self.projs[wi];
        let me = self.wid(wi);
        let nw = self.projs.len();
        let other = if nw > 1 { Some((wi + 1) % nw) } else { None };
        let accts = self.acct_ids();
        let avail = (p.balance - self.locked(wi)) as i64;
        let bal = p.balance as i64;
        let val = |r: &mut Rng| -> i64 {
            match r.below(10) {
                0 => 0,
                1 => avail,
                2 => avail + 1,
                3 => (avail - 1).max(0),
                4 => bal,
                5 => bal + 1,
                _ => r.range(1, (avail / 3).max(2)),
            }
            .max(0)
        };
        let k = r.below(100);
        if k < 25 {
            return (*r.pick(&accts), val(r), 0, vec![]);
        }
        if k < 65 {
            let nons: Vec<u64> = {
                let mut v: Vec<u64> = accts.iter().cloned().filter(|a| !p.signers.contains(a)).collect();
                if let Some(o) = other {
                    if !p.signers.contains(&self.wid(o)) {
                        v.push(self.wid(o));
                        v.push(self.wid(o));
                    }
                }
                if !p.signers.contains(&me) && r.chance(1, 4) {
                    v.push(me);
                }
                v
            };
            let some_signer = |r: &mut Rng| -> u64 { if p.signers.is_empty() { accts[0] } else { *r.pick(&p.signers) } };
            let some_non = |r: &mut Rng| -> u64 { if nons.is_empty() { some_signer(r) } else { *r.pick(&nons) } };
            let v = if r.chance(1, 8) { val(r) } else { 0 };
            let j = r.below(100);
            if j < 30 {
                let a = if r.chance(9, 10) { some_non(r) } else { some_signer(r) };
                return (me, v, 5, vec![a as i64, r.below(2) as i64]);
            }
            if j < 55 {
                let a = if r.chance(9, 10) { some_signer(r) } else { some_non(r) };
                return (me, v, 6, vec![a as i64, r.below(2) as i64]);
            }
            if j < 70 {
                let a = if r.chance(9, 10) { some_signer(r) } else { some_non(r) };
                let b = if r.chance(9, 10) { some_non(r) } else { some_signer(r) };
                return (me, v, 7, vec![a as i64, b as i64]);
            }
            if j < 90 {
                let n = p.signers.len() as i64;
                let t = match r.below(8) {
                    0 => 0,
                    1 => n + 1,
                    2 => n,
                    3 => 1,
                    _ => r.range(1, n.max(1)),
                };
                return (me, v, 8, vec![t]);
            }
            let start = self.epoch + r.range(-5, 10);
            let dur = *r.pick(&[0i64, -1, 1, 7, 10, 50, 100]);
            let amt = *r.pick(&[0i64, bal / 2, bal, bal + 10, -1, (bal / 3).max(1)]);
            return (me, v, 9, vec![start, dur, amt]);
        }
        if k < 75 {
            return match r.below(3) {
                0 => (*r.pick(&accts), if r.chance(1, 2) { 0 } else { val(r) }, 99, vec![]),
                1 => (99_999, r.range(0, 5), 0, vec![]),
                _ => (*r.pick(&accts), val(r), 77, vec![1, 2, 3]),
            };
        }
        if k < 80 {
            return match r.below(6) {
                0 => (me, 0, 5, vec![]),
                1 => (me, 0, 5, vec![accts[0] as i64, 7]),
                2 => (me, 0, 1, vec![]),
                3 => (me, 0, 10, vec![4]),
                4 => (me, r.range(0, 3), FIRST_EXPORTED + 5, vec![]),
                _ => (me, 0, 8, vec![2, 2]),
            };
        }
        if k < 95 && other.is_some() && depth < 2 {
            let o = other.unwrap();
            let oid = self.wid(o);
            let op = &self.projs[o];
            let my_ids: Vec<i64> = p.pending.keys().cloned().chain(std::iter::once(p.next_id)).collect();
            let o_ids: Vec<i64> = op.pending.keys().cloned().chain(std::iter::once(op.next_id)).collect();
            return match r.below(6) {
                0 | 1 => (oid, 0, 2, vec![me as i64, 0, 3, *r.pick(&my_ids), 0]),
                2 => (oid, 0, 3, vec![*r.pick(&o_ids), if r.chance(1, 8) { 5 } else { 0 }]),
                3 => (oid, if r.chance(1, 4) { r.range(0, 10) } else { 0 }, 2, vec![*r.pick(&accts) as i64, r.range(0, (op.balance as i64 / 2).max(1)), 0]),
                4 => {
                    // the other wallet proposes on this one (it has to be one of our signers)
                    let (t, v, m, l) = self.gen_tx(r, wi, depth + 1);
                    let mut list = vec![me as i64, 0, 2, t as i64, v, m as i64];
                    list.extend(l);
                    (oid, 0, 2, list)
                }
                _ => (oid, 0, 4, vec![*r.pick(&o_ids), 0]),
            };
        }
        // the wallet calling its own Propose / Approve / Cancel (it has to be its own signer)
        let my_ids: Vec<i64> = p.pending.keys().cloned().chain(std::iter::once(p.next_id)).collect();
        match r.below(3) {
            0 => (me, 0, 3, vec![*r.pick(&my_ids), 0]),
            1 => (me, 0, 2, vec![*r.pick(&accts) as i64, val(r), 0]),
            _ => (me, 0, 4, vec![*r.pick(&my_ids), 0]),
        }
    }

    fn hash_variant(&self, r: &mut Rng, wi: usize, id: i64) -> (Vec<u8>, bool) {
        let real: Option<Vec<u8>> = self.raws[wi].get(&id).map(|t| compute_proposal_hash(t, self.e.w.vm.primitives()).unwrap().to_vec());
        match r.below(20) {
            0..=13 => (vec![], true),
            14..=16 => match real {
                Some(h) => (h, true),
                None => (vec![7u8; 32], false),
            },
            17 => {
                // the hash of the same transaction as requested by somebody else
                match self.raws[wi].get(&id) {
                    Some(t) => {
                        let mut t2 = t.clone();
                        t2.approved = vec![Address::new_id(1)];
                        let h = compute_proposal_hash(&t2, self.e.w.vm.primitives()).unwrap().to_vec();
                        let ok = Some(&h) == real.as_ref();
                        (h, ok)
                    }
                    None => (vec![9u8; 32], false),
                }
            }
            _ => (vec![3u8; 32], false),
        }
    }

    fn next_op(&self, r: &mut Rng) -> GOp {
        let nw = self.projs.len();
        let outsider = self.e.accts.len() - 1;
        let k = r.below(100);
        let wi = if nw > 1 && r.chance(1, 4) { 1 } else { 0 };
        let p = &self.projs[wi];
        let acct_ids = self.acct_ids();
        let signer_accts: Vec<usize> = (0..self.e.accts.len()).filter(|i| p.signers.contains(&acct_ids[*i])).collect();
        let msg_value = |r: &mut Rng| if r.chance(1, 10) { r.range(0, 20) } else { 0 };
        if k < 8 {
            return GOp::Msg(TopMsg { from: outsider, wi, value: r.range(0, 200), method: METHOD_SEND, params: None, hash_ok: None, desc: "deposit".into() });
        }
        if k < 20 {
            let mut c = vec![self.epoch + r.range(0, 5), self.epoch + r.range(0, 40)];
            for q in self.projs.iter() {
                if q.duration != 0 {
                    c.extend([q.start - 1, q.start, q.start + 1, q.start + q.duration / 2, q.start + q.duration - 1, q.start + q.duration, q.start + q.duration + 1]);
                }
            }
            let t = *r.pick(&c);
            return GOp::Advance(t.max(self.epoch));
        }
        let pend: Vec<i64> = p.pending.keys().cloned().collect();
        if k < 50 || (k < 95 && pend.is_empty()) {
            let from = if !signer_accts.is_empty() && r.chance(17, 20) { *r.pick(&signer_accts) } else { r.below(self.e.accts.len() as u64) as usize };
            let (to, value, method, list) = self.gen_tx(r, wi, 0);
            let params = ProposeParams { to: Address::new_id(to), value: atto(value), method, params: self.e.encode(to, method, &list) };
            return GOp::Msg(TopMsg {
                from,
                wi,
                value: msg_value(r),
                method: 2,
                params: IpldBlock::serialize_cbor(&params).unwrap(),
                hash_ok: None,
                desc: format!("propose to={} value={} method={} params={:?}", to, value, method, list),
            });
        }
        if k < 95 {
            let cancel = k >= 85;
            let id = match r.below(12) {
                0 => p.next_id,
                1 => r.range(0, p.next_id + 2),
                _ => *r.pick(&pend),
            };
            let tx = p.pending.get(&id);
            let from = match (tx, r.below(10)) {
                (Some(t), 0..=6) => {
                    if cancel {
                        // the earliest approver when it is an account (one time in three: any approver)
                        let pick = if r.chance(1, 3) && !t.approved.is_empty() { Some(r.pick(&t.approved)) } else { t.approved.first() };
                        match pick.and_then(|a| acct_ids.iter().position(|x| x == a)) {
                            Some(i) => i,
                            None => if signer_accts.is_empty() { outsider } else { *r.pick(&signer_accts) },
                        }
                    } else {
                        let fresh: Vec<usize> = signer_accts.iter().cloned().filter(|i| !t.approved.contains(&acct_ids[*i])).collect();
                        if fresh.is_empty() { if signer_accts.is_empty() { outsider } else { *r.pick(&signer_accts) } } else { *r.pick(&fresh) }
                    }
                }
                (_, 7) => outsider,
                (_, 8) => r.below(self.e.accts.len() as u64) as usize,
                _ => if signer_accts.is_empty() { outsider } else { *r.pick(&signer_accts) },
            };
            let (hash, hash_ok) = self.hash_variant(r, wi, id);
            let params = TxnIDParams { id: TxnID(id), proposal_hash: hash };
            return GOp::Msg(TopMsg {
                from,
                wi,
                value: msg_value(r),
                method: if cancel { 4 } else { 3 },
                params: IpldBlock::serialize_cbor(&params).unwrap(),
                hash_ok: Some(hash_ok),
                desc: format!("{} id={}", if cancel { "cancel" } else { "approve" }, id),
            });
        }
        // an account calling an admin method directly (must be refused)
        let from = if !signer_accts.is_empty() && r.chance(2, 3) { *r.pick(&signer_accts) } else { outsider };
        let me = self.wid(wi);
        let (method, list): (u64, Vec<i64>) = match r.below(6) {
            0 => (5, vec![acct_ids[outsider] as i64, 0]),
            1 => (6, vec![*r.pick(&p.signers) as i64, 1]),
            2 => (7, vec![*r.pick(&p.signers) as i64, acct_ids[outsider] as i64]),
            3 => (8, vec![1]),
            4 => (9, vec![self.epoch, 10, 5]),
            _ => (1, vec![]),
        };
        let bytes = self.e.encode(me, method, &list);
        GOp::Msg(TopMsg {
            from,
            wi,
            value: 0,
            method,
            params: if bytes.is_empty() { None } else { Some(IpldBlock { codec: fvm_ipld_encoding::CBOR, data: bytes.to_vec() }) },
            hash_ok: None,
            desc: format!("direct admin method={} params={:?}", method, list),
        })
    }
}

// ------------------------------------------------------------------ run

struct Seq<'a> {
    e: Env,
    oracle: Oracle,
    lean: Option<&'a mut LeanDriver>,
    lines: Vec<String>,
    epoch: i64,
    applied_sends: u64,
}

enum Bad {
    Viol(String, String),
    Dis(String, String, String),
}

impl Seq<'_> {
    fn ask(&mut self, line: &str, real: &str) -> Result<(), Bad> {
        self.lines.push(line.to_string());
        if let Some(l) = self.lean.as_mut() {
            let m = l.ask(line).unwrap();
            // the error class is informational: drop it
            let norm = if let Some(rest) = m.strip_prefix("err ") {
                match rest.split_once(' ') {
                    Some((_, tail)) => format!("err {}", tail),
                    None => m.clone(),
                }
            } else {
                m.clone()
            };
            if norm != real {
                return Err(Bad::Dis(line.to_string(), real.to_string(), m));
            }
        }
        Ok(())
    }

    /// execute one top-level message on the real actors, run the oracle over its trace, and replay
    /// every wallet's root activation on the model
    fn deliver(&mut self, m: &TopMsg, fault: Option<bool>, rep: &mut Report) -> Result<(), Bad> {
        let s = self;
        let wids: Vec<u64> = s.e.wallets.borrow().clone();
        let projs: Vec<WProj> = wids.iter().map(|w| project(&s.e, *w).0).collect();
        let opname = m.desc.split(' ').next().unwrap().to_string();
        if let Some(after) = fault {
            let other = wids[(m.wi + 1) % wids.len()];
            s.e.w.vm.fault_plan.replace(FaultPlan {
                rules: vec![FaultRule { from: Some(wids[m.wi]), to: Some(other), exit: FAULT_EXIT, after, ..Default::default() }],
                hits: 0,
            });
            s.lines.push(format!("# the send {} -> {} is forced to abort {}", wids[m.wi], other, if after { "after the callee ran" } else { "at once" }));
        }
                let total_before = s.e.w.total_balance();
                let res = s.e.w.apply_raw(&s.e.accts[m.from], &Address::new_id(wids[m.wi]), &atto(m.value), m.method, m.params.clone());
                let trace = s.e.w.take_trace();
                let hits = s.e.w.vm.fault_plan.replace(FaultPlan::default()).hits;
                if hits > 0 {
                    rep.branch(if fault == Some(true) { "forced-abort-after-run" } else { "forced-abort" });
                }
                if res.ok() { rep.ops_ok += 1; } else { rep.err(&format!("{}:{}", opname, exit_class(res.code))); }
                if res.panicked {
                    return Err(Bad::Viol("panic".into(), res.message.clone()));
                }
                if s.e.w.total_balance() != total_before {
                    return Err(Bad::Viol("fil-not-conserved".into(), String::new()));
                }
                let top = match trace.first() {
                    Some(t) => t,
                    None => return Err(Bad::Viol("no-trace".into(), String::new())),
                };
                // ---- oracle: walk the invocation tree, then compare with the real state
                let mut v: Viol = vec![];
                let before = (s.oracle.sends_seen, s.oracle.reentrant_sends, s.oracle.failed_sends);
                s.oracle.walk(top, s.epoch, 0, &mut v);
                s.applied_sends += s.oracle.sends_seen - before.0;
                let mut after = vec![];
                for (i, wid) in wids.iter().enumerate() {
                    let (p, _) = project(&s.e, *wid);
                    s.oracle.check_state(i, &p, &mut v);
                    if !res.ok() && p != projs[i] {
                        v.push(("failed-message-changed-state".into(), format!("wallet {}", wid)));
                    }
                    after.push(p);
                }
                if let Some((k, d)) = v.into_iter().next() {
                    return Err(Bad::Viol(k, d));
                }
                // ---- correspondence: every wallet's root activation of this message
                for (i, wid) in wids.iter().enumerate() {
                    let mut rs = vec![];
                    roots(*wid, top, &mut rs);
                    if rs.len() > 1 {
                        rep.notes.push(format!("more than one root activation of wallet {} in one message", wid));
                    }
                    for root in rs {
                        let mut sends = vec![];
                        let is_top = std::ptr::eq(root, top);
                        let toks = act_tokens(&s.e, *wid, root, if is_top { m.hash_ok } else { None }, &mut sends);
                        let commit = res.ok() && root.exit_code.is_success();
                        let line = format!("msg {} {} {} {}", i, commit as u8, s.epoch, toks);
                        let real = format!("{} | {}", real_out(root, &sends), show(&s.e, &after[i]));
                        rep.branch(&format!("{}:{}", root.method, if root.exit_code.is_success() { "ok" } else { "err" }));
                        if !is_top {
                            rep.branch("nested-root");
                        }
                        s.ask(&line, &real)?;
                    }
                }

        Ok(())
    }

    /// create a wallet through Init.Exec; returns its id when the constructor accepted
    fn create(&mut self, wi: usize, creator: usize, signers: &[u64], threshold: u64, duration: i64, start: i64, value: i64) -> Result<Option<u64>, Bad> {
        let ctor = ConstructorParams {
            signers: signers.iter().map(|s| Address::new_id(*s)).collect(),
            num_approvals_threshold: threshold,
            unlock_duration: duration,
            start_epoch: start,
        };
        let r = self.e.w.apply(
            &self.e.accts[creator],
            &INIT_ACTOR_ADDR,
            &atto(value),
            fil_actor_init::Method::Exec as u64,
            Some(fil_actor_init::ExecParams {
                code_cid: *fil_actors_runtime::test_utils::MULTISIG_ACTOR_CODE_ID,
                constructor_params: RawBytes::serialize(&ctor).unwrap(),
            }),
        );
        let _ = self.e.w.take_trace();
        let sig = commas(&signers.iter().map(|x| x.to_string()).collect::<Vec<_>>());
        if r.ok() {
            let ret: fil_actor_init::ExecReturn = r.ret.unwrap().deserialize().unwrap();
            let id = ret.id_address.id().unwrap();
            {
                let mut ws = self.e.wallets.borrow_mut();
                if ws.len() <= wi { ws.push(id); } else { ws[wi] = id; }
            }
            let (p, _) = project(&self.e, id);
            let line = format!("init {} {} {} {} {} {} {}", wi, id, sig, threshold, duration, start, value);
            let real = format!("ok 0 0 1 - | {}", show(&self.e, &p));
            // the oracle starts from the constructor parameters (not from the state)
            let ow = OW {
                id,
                signers: signers.to_vec(),
                threshold,
                start: if duration != 0 { start } else { 0 },
                duration,
                initial: if duration != 0 { value as i128 } else { 0 },
                balance: value as i128,
                ..Default::default()
            };
            if self.oracle.ws.len() <= wi { self.oracle.ws.push(ow); } else { self.oracle.ws[wi] = ow; }
            let mut v = vec![];
            self.oracle.check_state(wi, &p, &mut v);
            if let Some((k, d)) = v.into_iter().next() {
                return Err(Bad::Viol(k, d));
            }
            self.ask(&line, &real)?;
            Ok(Some(id))
        } else {
            // the id the wallet would have got is irrelevant for a refused constructor
            let line = format!("init {} {} {} {} {} {} {}", wi, 0, sig, threshold, duration, start, value);
            self.ask(&line, "err - | -")?;
            Ok(None)
        }
    }
}

pub fn run(cfg: &RunCfg) -> Report {
    let mut rep = Report::new("C12", cfg.seed, &cfg.tier);
    rep.nontrivial_rule = "a sequence is non-trivial when at least one proposed transaction reached its quorum and was sent by the wallet; distinct = distinct hash of the op lines".into();
    let (nseq, maxlen) = if cfg.thorough() { (3000u64, 250u64) } else { (240, 70) };
    let nseq = nseq * cfg.budget;
    let mut lean = if cfg.use_lean { Some(LeanDriver::spawn("multisig").expect("lean driver")) } else { None };
    let mut seen = HashSet::new();
    let seqs: Vec<u64> = match cfg.only_seq { Some(k) => vec![k], None => [PROBE_SEQ, PURGE_SEQ, PURGE_KEY_SEQ].into_iter().chain(0..nseq).collect() };
    let mut tot_sends = 0u64;
    let mut tot_reentrant = 0u64;
    let mut tot_failed = 0u64;
    for seq in seqs {
        let mut r = seq_rng(cfg.seed, seq);
        let w = World::new(false);
        let probe = seq == PROBE_SEQ;
        let pairs = w.create_accounts(if probe { 258 } else { 6 }, 1212, &TokenAmount::from_whole(1000));
        let keys: HashMap<u64, Address> = pairs.iter().map(|x| (x.0.id().unwrap(), x.1)).collect();
        let accts: Vec<Address> = pairs.into_iter().map(|x| x.0).collect();
        KEY_TO_ID.with(|m| *m.borrow_mut() = keys.iter().map(|(k, v)| (*v, *k)).collect());
        let key_form = seq == PURGE_KEY_SEQ || (seq < PROBE_SEQ && seq % 3 == 1);
        let e = Env { w, accts, wallets: RefCell::new(vec![]), reg: RefCell::new(HashMap::new()), keys, key_form };
        let mut s = Seq { e, oracle: Oracle::default(), lean: lean.as_mut(), lines: vec![], epoch: r.range(0, 30), applied_sends: 0 };
        s.e.w.vm.set_epoch(s.epoch);
        s.lines.push(format!("# epoch {}", s.epoch));
        rep.sequences += 1;
        let mut step: u64 = 0;
        let mut last_desc = String::from("create");
        let res: Result<(), Bad> = if probe { (|| {
            // ---- the signer limit: 256 accepted, 257 refused, AddSigner on a full wallet refused
            let ids: Vec<u64> = s.e.accts.iter().map(|a| a.id().unwrap()).collect();
            rep.op("create");
            let a = match s.create(0, 0, &ids[0..SPEC_SIGNERS_MAX], 1, 0, 0, 100)? {
                Some(a) => a,
                None => return Ok(()),
            };
            rep.op("create-refused");
            if s.create(1, 0, &ids[0..SPEC_SIGNERS_MAX + 1], 1, 0, 0, 0)?.is_some() {
                return Err(Bad::Viol("more-than-256-signers-accepted".into(), "constructor".into()));
            }
            for (method, list) in [(5u64, vec![ids[SPEC_SIGNERS_MAX] as i64, 0]), (7, vec![ids[1] as i64, ids[SPEC_SIGNERS_MAX] as i64]), (5, vec![ids[1] as i64, 1])] {
                let params = ProposeParams { to: Address::new_id(a), value: atto(0), method, params: s.e.encode(a, method, &list) };
                let m = TopMsg { from: 0, wi: 0, value: 0, method: 2, params: IpldBlock::serialize_cbor(&params).unwrap(), hash_ok: None, desc: format!("propose to={} value=0 method={} params={:?}", a, method, list) };
                last_desc = m.desc.clone();
                s.lines.push(format!("# {} (wallet with {} signers)", m.desc, SPEC_SIGNERS_MAX));
                rep.op("propose");
                rep.ops += 1;
                s.deliver(&m, None, &mut rep)?;
            }
            Ok(())
        })() } else if seq == PURGE_SEQ || seq == PURGE_KEY_SEQ { (|| {
            // ---- 4-of-5 wallet; tx0 proposed by signer 0 and approved by signers 1 and 2 stays pending;
            // tx1 removes signer 0 (or swaps it out) and reaches its quorum; afterwards the earliest
            // remaining approver of tx0 is signer 1: signer 2 must not be able to cancel it, signer 1 must.
            let ids: Vec<u64> = s.e.accts.iter().map(|a| a.id().unwrap()).collect();
            rep.op("create");
            let a = match s.create(0, 0, &ids[0..5], 4, 0, 0, 100)? { Some(a) => a, None => return Ok(()) };
            let swap = r.chance(1, 2);
            let mut send = |s: &mut Seq, from: usize, method: u64, params: Option<IpldBlock>, hash_ok: Option<bool>, desc: String, rep: &mut Report| -> Result<(), Bad> {
                let m = TopMsg { from, wi: 0, value: 0, method, params, hash_ok, desc };
                s.lines.push(format!("# {}", m.desc));
                rep.op(m.desc.split(' ').next().unwrap());
                rep.ops += 1;
                s.deliver(&m, None, rep)
            };
            let prop = |s: &Seq, to: u64, value: i64, method: u64, list: &[i64]| IpldBlock::serialize_cbor(&ProposeParams { to: Address::new_id(to), value: atto(value), method, params: s.e.encode(to, method, list) }).unwrap();
            let txn = |id: i64| IpldBlock::serialize_cbor(&TxnIDParams { id: TxnID(id), proposal_hash: vec![] }).unwrap();
            let p0 = prop(&s, ids[5], 1, 0, &[]);
            send(&mut s, 0, 2, p0, None, format!("propose to={} value=1 method=0 params=[]", ids[5]), &mut rep)?;
            send(&mut s, 1, 3, txn(0), Some(true), "approve id=0".into(), &mut rep)?;
            send(&mut s, 2, 3, txn(0), Some(true), "approve id=0".into(), &mut rep)?;
            let (method, list): (u64, Vec<i64>) = if swap { (7, vec![ids[0] as i64, ids[5] as i64]) } else { (6, vec![ids[0] as i64, 0]) };
            let p1 = prop(&s, a, 0, method, &list);
            send(&mut s, 1, 2, p1, None, format!("propose to={} value=0 method={} params={:?}", a, method, list), &mut rep)?;
            for who in [2usize, 3, 4] {
                send(&mut s, who, 3, txn(1), Some(true), "approve id=1".into(), &mut rep)?;
            }
            send(&mut s, 2, 4, txn(0), Some(true), "cancel id=0".into(), &mut rep)?;
            send(&mut s, 1, 4, txn(0), Some(true), "cancel id=0".into(), &mut rep)?;
            Ok(())
        })() } else { (|| {
            // ---- wallet A (sometimes after refused constructors)
            let acct_ids: Vec<u64> = s.e.accts.iter().map(|a| a.id().unwrap()).collect();
            // one sequence in three: a 5-signer wallet with a high threshold, so that pending
            // transactions collect three and more approvals before a signer is removed or swapped
            let deep = r.chance(1, 3);
            let n = if deep { 5 } else { r.range(2, 5) as usize };
            let signers: Vec<u64> = acct_ids[0..n].to_vec();
            let threshold = if deep { r.range(3, 4) as u64 } else if r.chance(1, 3) { 1 } else { r.range(1, n as i64) as u64 };
            let lock = r.chance(1, 2);
            let (duration, start) = if lock { (*r.pick(&[1i64, 10, 40, 100]), s.epoch + r.range(-5, 20)) } else { (0, r.range(0, 5)) };
            let deposit = r.range(0, 1000);
            if r.chance(1, 4) {
                let (sg, th, du): (Vec<u64>, u64, i64) = match r.below(5) {
                    0 => (signers.clone(), 0, duration),
                    1 => (signers.clone(), n as u64 + 1, duration),
                    2 => (vec![signers[0], signers[1], signers[0]], 1, duration),
                    3 => (vec![], 1, duration),
                    _ => (signers.clone(), threshold, -1),
                };
                rep.op("create-refused");
                if s.create(0, 0, &sg, th, du, start, deposit)?.is_some() {
                    return Err(Bad::Viol("invalid-constructor-accepted".into(), format!("signers {:?} threshold {} duration {}", sg, th, du)));
                }
            }
            rep.op("create");
            let a = s.create(0, 0, &signers, threshold, duration, start, deposit)?.ok_or_else(|| Bad::Viol("valid-constructor-refused".into(), String::new()))?;
            // ---- wallet B: one or two accounts and wallet A
            let mut bs = vec![acct_ids[r.below(5) as usize], a];
            if r.chance(1, 3) {
                let x = acct_ids[r.below(5) as usize];
                if !bs.contains(&x) { bs.push(x); }
            }
            let bth = if r.chance(3, 4) { 1 } else { 2 };
            rep.op("create");
            s.create(1, 1, &bs, bth, 0, 0, r.range(0, 300))?.ok_or_else(|| Bad::Viol("valid-constructor-refused".into(), String::new()))?;

            let len = r.range(8, maxlen as i64) as u64;
            for st in 0..len {
                step = st;
                let wids: Vec<u64> = s.e.wallets.borrow().clone();
                let mut projs = vec![];
                let mut raws = vec![];
                for wid in wids.iter() {
                    let (p, raw) = project(&s.e, *wid);
                    projs.push(p);
                    raws.push(raw);
                }
                let g = G { e: &s.e, projs: projs.clone(), raws, epoch: s.epoch };
                let op = g.next_op(&mut r);
                let m = match op {
                    GOp::Advance(t) => {
                        s.epoch = t;
                        s.e.w.vm.set_epoch(t);
                        s.lines.push(format!("# epoch {}", t));
                        rep.op("advance");
                        continue;
                    }
                    GOp::Msg(m) => m,
                };
                last_desc = format!("{} from {} on wallet {} value {}", m.desc, s.e.accts[m.from].id().unwrap(), wids[m.wi], m.value);
                s.lines.push(format!("# {}", last_desc));
                let opname = m.desc.split(' ').next().unwrap().to_string();
                rep.op(&opname);
                rep.ops += 1;
                let fault = if (m.method == 2 || m.method == 3) && wids.len() > 1 {
                    // sometimes the send from this wallet to the other one is forced to abort,
                    // before the callee does anything or after it ran (and re-entered us)
                    match r.below(12) { 0 => Some(false), 1 | 2 => Some(true), _ => None }
                } else { None };
                s.deliver(&m, fault, &mut rep)?;
            }
            Ok(())
        })() };
        tot_sends += s.oracle.sends_seen;
        tot_reentrant += s.oracle.reentrant_sends;
        tot_failed += s.oracle.failed_sends;
        let hdr = vec![
            format!("property C12 seed {} seq {} (re-run: ba_harness c12 --seed {} --only-seq {})", cfg.seed, seq, cfg.seed, seq),
            format!("failing step {}: {}", step, last_desc),
            "lines are the model driver's input (`init`/`msg`, see lean/Driver/Multisig.lean); `#` lines describe the real top-level message".to_string(),
        ];
        match res {
            Ok(()) => {
                if s.lean.is_some() { rep.traces_validated += 1; }
            }
            Err(Bad::Viol(kind, detail)) => {
                let mut h = hdr.clone();
                h.push(format!("violation {}: {}", kind, detail));
                let path = write_replay("C12", &format!("{}-{}", cfg.seed, seq), &h, &s.lines);
                rep.violations.push(Violation { kind, detail, replay: path });
            }
            Err(Bad::Dis(op, i, m)) => {
                let mut h = hdr.clone();
                h.push(format!("disagreement: impl `{}` model `{}`", i, m));
                let path = write_replay("C12", &format!("corr-{}-{}", cfg.seed, seq), &h, &s.lines);
                rep.disagreements.push(Disagreement { seq, step, op, impl_out: i, model_out: m, replay: path });
            }
        }
        let nontrivial = s.applied_sends > 0;
        if nontrivial && seen.insert(hash_lines(&s.lines)) { rep.distinct_nontrivial += 1; }
        if rep.samples.len() < 3 && nontrivial {
            rep.samples.push(json!({"seq": seq, "ops": s.lines.iter().take(14).collect::<Vec<_>>()}));
        }
    }
    rep.notes.push(format!("inner sends checked by the oracle: {} (inside re-entrant activations: {}, failed: {})", tot_sends, tot_reentrant, tot_failed));
    rep.notes.dedup();
    rep
}

#[allow(dead_code)]
fn _unused(_: BTreeSet<u8>) {}
