pub mod c12;
pub mod c13;
pub mod c14;
pub mod c15;
pub mod c11;
pub mod c11_spec;
pub mod c09;
pub mod c10;
pub mod c16;
pub mod chain;
pub mod c19;
pub mod c20;
pub mod c18;
pub mod sectors;
pub mod power_ds;
pub mod sectors_actor;
pub mod market;
pub mod reward;
pub mod c17;

#[derive(Clone, Debug)]
pub struct RunCfg {
    pub seed: u64,
    pub tier: String,
    pub only_seq: Option<u64>,
    pub out: String,
    /// when false the Lean driver is not used (oracle-only search mode)
    pub use_lean: bool,
    /// multiplier on the number of sequences (search stage uses > 1)
    pub budget: u64,
}

impl RunCfg {
    pub fn thorough(&self) -> bool {
        self.tier == "thorough"
    }
}

pub fn seq_rng(seed: u64, seq: u64) -> crate::rng::Rng {
    crate::rng::Rng::new(seed.wrapping_mul(1_000_003).wrapping_add(seq.wrapping_mul(7919)).wrapping_add(17))
}

pub fn hash_lines(lines: &[String]) -> u64 {
    // FNV-1a over the op lines: identity of a sequence for the distinct count
    let mut h: u64 = 0xcbf29ce484222325;
    for l in lines {
        for b in l.as_bytes() {
            h ^= *b as u64;
            h = h.wrapping_mul(0x100000001b3);
        }
        h ^= 0x0a;
        h = h.wrapping_mul(0x100000001b3);
    }
    h
}

/// Sub-campaigns of C01 (payment channel, market, reward) label their sequences with an offset so that
/// a replay header names a sequence number that `ba_harness c01 --only-seq N` dispatches back to them.
pub static SEQ_LABEL_OFFSET: std::sync::atomic::AtomicU64 = std::sync::atomic::AtomicU64::new(0);
pub fn seq_label(seq: u64) -> u64 {
    seq + SEQ_LABEL_OFFSET.load(std::sync::atomic::Ordering::Relaxed)
}
pub const PAYCH_SEQ_BASE: u64 = 2_000_000;
pub const MARKET_SEQ_BASE: u64 = 3_000_000;
pub const REWARD_SEQ_BASE: u64 = 4_000_000;
