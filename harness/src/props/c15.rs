//! C15 — faults and early terminations are always paid for.
//!
//! (i) formula level: the real `pub` fee functions of `fil_actor_miner` (monies.rs / policy.rs) on a
//!     boundary grid + random inputs ⇄ the Lean model `BA.MinerPenalty` + the specified bounds.
//! (ii) actor level: a real miner (plain `CreateMiner` to the power actor) in the vvm with the real
//!     power/reward/market actors; histories of missed PoSts and continued faults, disputed PoSts,
//!     consensus-fault reports (reward transfer succeeding / forced to fail), terminations, for
//!     miners with different mixes of available / vesting / pledged funds.  After every message an
//!     independent oracle reads the invocation trace and the state deltas:
//!       charged = Δfee_debt + Σ value sent to the burnt-funds actor + reporter reward,
//!     no value flows to the owner inside a penalising message, reporter reward ≤ amount collected,
//!     termination fee within [Σ2 % pledge, Σcap], fee debt blocks withdraw/pre-commit/recovery;
//!     and the same step goes to the Lean driver (funds record + environment answers as inputs).
use super::{RunCfg, hash_lines, seq_rng};
use crate::lean::LeanDriver;
use crate::report::{Disagreement, Report, Violation, write_replay};
use crate::rng::Rng;
use crate::vvm::FaultRule;
use crate::world::{Applied, World, exit_class};
use fil_actor_miner::{
    DeclareFaultsRecoveredParams, DeferredCronEventParams, DisputeWindowedPoStParams,
    Method as MinerMethod, RecoveryDeclaration, ReportConsensusFaultParams, SectorOnChainInfo,
    State as MinerState, TerminateSectorsParams, TerminationDeclaration, WithdrawBalanceParams,
    consensus_fault_penalty, daily_proof_fee_payable, expected_reward_for_power,
    locked_reward_from_reward, pledge_penalty_for_continued_fault,
    pledge_penalty_for_invalid_windowpost, pledge_penalty_for_termination,
    pre_commit_deposit_for_power, qa_power_for_sector, qa_power_max,
    reward_for_consensus_slash_report, reward_for_disputed_window_post, CONTINUED_FAULT_PROJECTION_PERIOD,
    PowerPair,
};
use fil_actor_power::{CreateMinerParams, CreateMinerReturn, Method as PowerMethod, State as PowerState};
use fil_actor_reward::State as RewardState;
use fil_actors_integration_tests::util::{
    advance_to_proving_deadline, create_miner_deposit_for_test, deadline_state, miner_dline_info,
    precommit_sectors_v2, prove_commit_sectors, sector_deadline, submit_invalid_post,
    submit_windowed_post,
};
use fil_actors_runtime::reward::FilterEstimate;
use fil_actors_runtime::reward::smooth::extrapolated_cum_sum_of_ratio;
use fil_actors_runtime::runtime::Policy;
use fil_actors_runtime::{
    BURNT_FUNDS_ACTOR_ADDR, CRON_ACTOR_ADDR, EPOCHS_IN_DAY, REWARD_ACTOR_ADDR,
    STORAGE_POWER_ACTOR_ADDR, SYSTEM_ACTOR_ADDR,
};
use fvm_ipld_bitfield::BitField;
use fvm_ipld_encoding::ipld_block::IpldBlock;
use fvm_ipld_encoding::{BytesDe, RawBytes};
use fvm_shared::METHOD_SEND;
use fvm_shared::address::Address;
use fvm_shared::bigint::{BigInt, Integer};
use fvm_shared::consensus::{ConsensusFault, ConsensusFaultType};
use fvm_shared::econ::TokenAmount;
use fvm_shared::sector::{RegisteredPoStProof, RegisteredSealProof, SectorSize};
use num_traits::{Signed, Zero};
use serde_json::json;
use std::collections::{BTreeSet, HashSet};
use std::panic::{AssertUnwindSafe, catch_unwind};
use vm_api::VM;
use vm_api::trace::InvocationTrace;
use vm_api::util::get_state;

const PROP: &str = "C15";
/// the finding the check knows about (known_findings.json keys on kind + this prefix)
const F4_KIND: &str = "consensus-fault-reward-lost";
const F4_DETAIL: &str = "consensus-fault reporter reward lost on failed transfer";

fn atto(t: &TokenAmount) -> BigInt {
    t.atto().clone()
}
fn ta(b: &BigInt) -> TokenAmount {
    TokenAmount::from_atto(b.clone())
}
fn b01(b: bool) -> u8 {
    b as u8
}

// =====================================================================================
// (i) formula level
// =====================================================================================

fn spec_floor_div(a: &BigInt, b: i64) -> BigInt {
    a.div_floor(&BigInt::from(b))
}

fn rand_amount(r: &mut Rng) -> BigInt {
    let v = rand_amount_raw(r);
    if v.is_negative() { BigInt::zero() } else { v }
}

fn rand_amount_raw(r: &mut Rng) -> BigInt {
    match r.below(8) {
        0 => BigInt::from(r.range(0, 200)),
        1 => BigInt::from(r.range(0, 2_000_000)),
        2 => BigInt::from(10u64).pow(18) * BigInt::from(r.range(0, 64)),
        3 => BigInt::from(10u64).pow(18) * BigInt::from(r.range(0, 64)) + BigInt::from(r.range(-3, 3)),
        4 => BigInt::from(r.next()) * BigInt::from(r.next() % 1_000_000),
        5 => BigInt::from(r.range(0, 100)) * BigInt::from(1000) + BigInt::from(r.range(-1, 1)),
        6 => BigInt::from(r.range(0, 100)) * BigInt::from(100) + BigInt::from(r.range(-1, 1)),
        _ => BigInt::from(r.next() % 1_000_000_007),
    }
}

fn rand_estimate(r: &mut Rng, big: bool) -> FilterEstimate {
    // position/velocity in Q.128; positions around the test network's magnitudes, velocity small
    let pos = if big {
        BigInt::from(r.next() % (1u64 << 50)) * BigInt::from(1u64 << 20)
    } else {
        BigInt::from(10u64).pow(18) * BigInt::from(r.range(1, 60))
    };
    let pos = match r.below(12) {
        0 => BigInt::zero(),
        1 => BigInt::from(1),
        _ => pos,
    };
    let mut e = FilterEstimate::new(pos.clone(), BigInt::zero());
    // velocity: a fraction of the position per day, either sign
    let v = (&e.position / BigInt::from(2880 * r.range(2, 400))) * BigInt::from(r.range(-1, 1));
    e.velocity = v;
    if r.chance(1, 10) {
        // sub-unit positions (estimate() == 0 but position != 0)
        e.position = BigInt::from(r.next());
    }
    e
}

struct FormulaCase {
    line: String,
    real: String,
    /// spec-bound failure, if any
    bound: Option<(String, String)>,
}

fn formula_case(r: &mut Rng, k: u64) -> FormulaCase {
    match k % 7 {
        0 | 1 | 2 => {
            // termination fee: boundary grid on pledge / age / fault fee
            let pledge = match r.below(6) {
                0 => BigInt::from(*r.pick(&[0i64, 1, 11, 12, 49, 50, 51, 99, 100, 101, 999, 1000, 1001, 1176, 1177])),
                _ => rand_amount(r),
            };
            let cap_epochs = 140 * 2880i64;
            let age = match r.below(8) {
                0 => *r.pick(&[-1i64, 0, 1, 2879, 2880, 2881]),
                1 => cap_epochs + r.range(-2, 2),
                2 => r.range(0, cap_epochs),
                3 => r.range(cap_epochs, 5 * cap_epochs),
                4 => (cap_epochs * 20 / 85) + r.range(-3, 3), // where the duration fee crosses 2 %
                _ => r.range(0, 2 * cap_epochs),
            };
            let ff = match r.below(6) {
                0 => BigInt::zero(),
                1 => (&pledge * 2 / 105) + BigInt::from(r.range(-2, 2)), // 105 % ff ≈ 2 % pledge
                2 => (&pledge * 85 / 1050) + BigInt::from(r.range(-2, 2)), // 105 % ff ≈ 8.5 % pledge
                3 => &pledge * BigInt::from(r.range(0, 4)),
                _ => rand_amount(r),
            };
            let ff = if ff.is_negative() { BigInt::zero() } else { ff };
            let fee = pledge_penalty_for_termination(&ta(&pledge), age, &ta(&ff));
            let fee = atto(&fee);
            let lo = spec_floor_div(&(&pledge * 2), 100);
            let hi = std::cmp::max(spec_floor_div(&(&pledge * 85), 1000), spec_floor_div(&(&ff * 105), 100));
            let bound = if fee < lo {
                Some(("termination-fee-below-2pct".to_string(), format!("pledge={} age={} fault_fee={} fee={} < 2%={}", pledge, age, ff, fee, lo)))
            } else if fee > hi {
                Some(("termination-fee-above-cap".to_string(), format!("pledge={} age={} fault_fee={} fee={} > cap={}", pledge, age, ff, fee, hi)))
            } else if fee.is_negative() {
                Some(("negative-penalty".to_string(), format!("termination fee {}", fee)))
            } else {
                None
            };
            FormulaCase { line: format!("term {} {} {}", pledge, age, ff), real: format!("ok {}", fee), bound }
        }
        3 => {
            let rwd = rand_amount(r);
            let p = atto(&consensus_fault_penalty(ta(&rwd)));
            let s = atto(&reward_for_consensus_slash_report(&ta(&rwd)));
            let bound = if p.is_negative() || s.is_negative() {
                Some(("negative-penalty".to_string(), format!("consensus fault penalty {} reward {}", p, s)))
            } else if s > p {
                Some(("reporter-reward-exceeds-penalty".to_string(), format!("epoch reward {}: reward {} > penalty {}", rwd, s, p)))
            } else if p != rwd || s != spec_floor_div(&rwd, 20) {
                // the specified values: 5 × reward / 5 expected leaders; reward / (5 leaders × 4)
                Some(("consensus-fault-amounts-off-spec".to_string(), format!("epoch reward {}: penalty {} reward {}", rwd, p, s)))
            } else {
                None
            };
            FormulaCase { line: format!("cfp {}", rwd), real: format!("ok {} {}", p, s), bound }
        }
        4 => {
            // BR / continued fault fee: the filter enters the model through its cumulative ratio
            let re = rand_estimate(r, false);
            let pe = rand_estimate(r, true);
            let qa = match r.below(5) {
                0 => BigInt::zero(),
                1 => BigInt::from(32u64 << 30),
                2 => BigInt::from(32u64 << 30) * BigInt::from(r.range(1, 2000)),
                _ => BigInt::from(r.next() % (1u64 << 45)),
            };
            let period = CONTINUED_FAULT_PROJECTION_PERIOD;
            let z = pe.estimate().is_zero();
            let cum = if z { BigInt::zero() } else { extrapolated_cum_sum_of_ratio(period, 0, &re, &pe) };
            let ff = atto(&pledge_penalty_for_continued_fault(&re, &pe, &qa));
            let bound = if ff.is_negative() && !re.estimate().is_negative() {
                Some(("negative-penalty".to_string(), format!("continued fault fee {}", ff)))
            } else {
                None
            };
            FormulaCase { line: format!("br {} {} {} {}", b01(z), re.estimate(), cum, qa), real: format!("ok {}", ff), bound }
        }
        5 => {
            // invalid PoSt penalty = BR(FF period + 2 days) + 20 FIL (the specified composition)
            let re = rand_estimate(r, false);
            let pe = rand_estimate(r, true);
            let qa = BigInt::from(32u64 << 30) * BigInt::from(r.range(0, 3000));
            let period = CONTINUED_FAULT_PROJECTION_PERIOD + 2 * EPOCHS_IN_DAY;
            let br = atto(&expected_reward_for_power(&re, &pe, &qa, period));
            let pen = atto(&pledge_penalty_for_invalid_windowpost(&re, &pe, &qa));
            let bound = if pen.is_negative() && !br.is_negative() {
                Some(("negative-penalty".to_string(), format!("invalid post penalty {}", pen)))
            } else {
                None
            };
            FormulaCase { line: format!("iwp {}", br), real: format!("ok {}", pen), bound }
        }
        _ => {
            if r.chance(1, 2) {
                let fee = rand_amount(r);
                let dr = rand_amount(r);
                let p = atto(&daily_proof_fee_payable(&Policy::default(), &ta(&fee), &ta(&dr)));
                let bound = if p.is_negative() || p > fee {
                    Some(("negative-penalty".to_string(), format!("daily fee payable {} of {}", p, fee)))
                } else {
                    None
                };
                FormulaCase { line: format!("daily {} {}", fee, dr), real: format!("ok {}", p), bound }
            } else if r.chance(1, 2) {
                let rw = rand_amount(r);
                let l = atto(&locked_reward_from_reward(ta(&rw)).0);
                FormulaCase { line: format!("lock {}", rw), real: format!("ok {}", l), bound: None }
            } else {
                let v = atto(&reward_for_disputed_window_post(RegisteredPoStProof::StackedDRGWindow32GiBV1P1, PowerPair::zero()));
                FormulaCase { line: "dwr".into(), real: format!("ok {}", v), bound: None }
            }
        }
    }
}

fn formula_seq(cfg: &RunCfg, seq: u64, n: u64, rep: &mut Report, lean: &mut Option<LeanDriver>, seen: &mut HashSet<u64>) {
    let mut r = seq_rng(cfg.seed, seq);
    let mut lines = vec![];
    let mut agree = true;
    rep.sequences += 1;
    for k in 0..n {
        let c = formula_case(&mut r, k);
        rep.ops += 1;
        rep.ops_ok += 1;
        rep.op(&format!("fee:{}", c.line.split(' ').next().unwrap()));
        lines.push(c.line.clone());
        let hdr = vec![
            format!("property C15 seed {} seq {} (re-run: ba_harness c15 --seed {} --only-seq {})", cfg.seed, seq, cfg.seed, seq),
            format!("formula level, failing evaluation {}: {} -> real {}", k, c.line, c.real),
        ];
        if let Some((kind, detail)) = c.bound {
            let path = write_replay(PROP, &format!("{}-{}", cfg.seed, seq), &hdr, &lines);
            rep.violations.push(Violation { kind, detail, replay: path });
            return;
        }
        if let Some(l) = lean.as_mut() {
            let m = l.ask(&c.line).unwrap();
            if m != c.real {
                agree = false;
                let path = write_replay(PROP, &format!("corr-{}-{}", cfg.seed, seq), &hdr, &lines);
                rep.disagreements.push(Disagreement { seq, step: k, op: c.line.clone(), impl_out: c.real, model_out: m, replay: path });
                break;
            }
        }
    }
    if agree && lean.is_some() {
        rep.traces_validated += 1;
    }
    if seen.insert(hash_lines(&lines)) {
        rep.distinct_nontrivial += 1;
    }
}

// =====================================================================================
// (ii) actor level
// =====================================================================================

struct Ctx {
    w: World,
    owner: Address,
    reporter: Address,
    miner: Address,
    miner_id: u64,
    sectors: Vec<u64>,
    terminated: BTreeSet<u64>,
    d_idx: u64,
    p_idx: u64,
    next_sector: u64,
    lines: Vec<String>,
    step: u64,
    /// set when the scenario hit an F1/F3 symptom or a helper's own expectation and stops
    stop: Option<String>,
    nontrivial: bool,
    seal_proof: RegisteredSealProof,
}

#[derive(Clone, Debug, PartialEq)]
struct Snap {
    balance: BigInt,
    pcd: BigInt,
    lf: BigInt,
    ip: BigInt,
    debt: BigInt,
    cfe: i64,
    vested: BigInt,
    et_pending: bool,
}

fn mstate(c: &Ctx) -> MinerState {
    get_state(&c.w.vm, &c.miner).unwrap()
}

fn snap(c: &Ctx) -> Snap {
    let st = mstate(c);
    let store = c.w.vm.store.as_ref();
    let epoch = c.w.vm.epoch();
    let mut vested = BigInt::zero();
    for f in st.vesting_funds.load(store).unwrap() {
        if f.epoch < epoch {
            vested += atto(&f.amount);
        }
    }
    let info = st.get_info(store).unwrap();
    Snap {
        balance: atto(&c.w.balance(&c.miner)),
        pcd: atto(&st.pre_commit_deposits),
        lf: atto(&st.locked_funds),
        ip: atto(&st.initial_pledge),
        debt: atto(&st.fee_debt),
        cfe: info.consensus_fault_elapsed,
        vested,
        et_pending: !st.early_terminations.is_empty(),
    }
}

fn show_f(s: &Snap) -> String {
    format!("{} {} {} {} {} {}", s.balance, s.pcd, s.lf, s.ip, s.debt, s.cfe)
}

#[derive(Default)]
struct TraceFacts {
    burnt: BigInt,
    reporter_paid: BigInt,
    reporter_failed: Option<BigInt>,
    reporter_attempts: u64,
    to_owner: BigInt,
    other_value_out: Vec<String>,
    pledge_update_failed: bool,
    cron_callback: Option<(DeferredCronEventParams, u32)>,
    terminated: Vec<u64>,
    value_in: BigInt,
}

fn walk(c: &Ctx, t: &InvocationTrace, f: &mut TraceFacts) {
    let to_id = c.w.vm.resolve_id_address(&t.to).and_then(|a| a.id().ok());
    let ok = t.exit_code.is_success() && t.error_number.is_none();
    if t.from == c.miner_id {
        if to_id == BURNT_FUNDS_ACTOR_ADDR.id().ok() {
            if ok {
                f.burnt += atto(&t.value);
            }
        } else if to_id == c.reporter.id().ok() && t.method == METHOD_SEND {
            f.reporter_attempts += 1;
            if ok {
                f.reporter_paid += atto(&t.value);
            } else {
                f.reporter_failed = Some(atto(&t.value));
            }
        } else if to_id == c.owner.id().ok() {
            if ok {
                f.to_owner += atto(&t.value);
            }
        } else if ok && t.value.is_positive() {
            f.other_value_out.push(format!("{}:{}:{}", t.to, t.method, t.value.atto()));
        }
        if to_id == STORAGE_POWER_ACTOR_ADDR.id().ok()
            && t.method == fil_actor_miner::ext::power::UPDATE_PLEDGE_TOTAL_METHOD
            && !ok
        {
            f.pledge_update_failed = true;
        }
    }
    if to_id == Some(c.miner_id) {
        if ok {
            f.value_in += atto(&t.value);
        }
        if t.method == MinerMethod::OnDeferredCronEvent as u64 {
            if let Some(p) = t.params.as_ref().and_then(|p| p.deserialize::<DeferredCronEventParams>().ok()) {
                f.cron_callback = Some((p, t.exit_code.value()));
            }
        }
        for ev in &t.events {
            let mut is_term = false;
            let mut sector = None;
            for e in &ev.event.entries {
                if e.key == "$type" {
                    if let Ok(s) = fvm_ipld_encoding::from_slice::<String>(&e.value) {
                        is_term = s == "sector-terminated";
                    }
                }
                if e.key == "sector" {
                    sector = fvm_ipld_encoding::from_slice::<u64>(&e.value).ok();
                }
            }
            if is_term && ok {
                if let Some(s) = sector {
                    f.terminated.push(s);
                }
            }
        }
    }
    // a failed invocation's effects (incl. its sub-sends) are rolled back
    if ok {
        for s in &t.subinvocations {
            walk(c, s, f);
        }
    }
}

fn estimates(c: &Ctx) -> (FilterEstimate, FilterEstimate) {
    let rs: RewardState = get_state(&c.w.vm, &REWARD_ACTOR_ADDR).unwrap();
    let ps: PowerState = get_state(&c.w.vm, &STORAGE_POWER_ACTOR_ADDR).unwrap();
    (rs.this_epoch_reward_smoothed, ps.this_epoch_qa_power_smoothed)
}

fn sector_info(c: &Ctx, s: u64) -> Option<SectorOnChainInfo> {
    mstate(c).get_sector(c.w.vm.store.as_ref(), s).unwrap()
}

#[derive(Clone, Debug)]
enum Kind {
    Cron,
    Dispute { post_index: u64, expect_valid: bool },
    ReportCf { expect_valid: bool, fault_epoch: i64, target_self: bool, verified: bool },
    Terminate { sectors: Vec<u64> },
    Withdraw { amount: BigInt },
    PreCommit { count: u64 },
    DeclareRecovered,
    RepayDebt,
    /// not a penalising / gated message (PoSt submission, top-up): only generic checks
    Other,
}

impl Kind {
    fn name(&self) -> &'static str {
        match self {
            Kind::Cron => "cron",
            Kind::Dispute { .. } => "dispute",
            Kind::ReportCf { .. } => "report_cf",
            Kind::Terminate { .. } => "terminate",
            Kind::Withdraw { .. } => "withdraw",
            Kind::PreCommit { .. } => "precommit",
            Kind::DeclareRecovered => "declare_recovered",
            Kind::RepayDebt => "repay_debt",
            Kind::Other => "other",
        }
    }
    fn penalising(&self) -> bool {
        matches!(self, Kind::Cron | Kind::Dispute { .. } | Kind::ReportCf { .. } | Kind::Terminate { .. })
    }
}

struct TermSector {
    pledge: BigInt,
    age: i64,
    ff: BigInt,
}

fn terms_str(ts: &[TermSector]) -> String {
    if ts.is_empty() {
        "-".into()
    } else {
        ts.iter().map(|t| format!("{}:{}:{}", t.pledge, t.age, t.ff)).collect::<Vec<_>>().join(",")
    }
}

struct Checked {
    res: Applied,
    post: Snap,
}

fn violation(c: &Ctx, cfg: &RunCfg, seq: u64, rep: &mut Report, kind: &str, detail: String) {
    let hdr = vec![
        format!("property C15 seed {} seq {} (re-run: ba_harness c15 --seed {} --only-seq {})", cfg.seed, seq, cfg.seed, seq),
        format!("failing step {}: {}", c.step, c.lines.last().cloned().unwrap_or_default()),
        format!("violation {}: {}", kind, detail),
    ];
    let tag = if kind == F4_KIND { format!("{}-{}-f4", cfg.seed, seq) } else { format!("{}-{}", cfg.seed, seq) };
    let path = write_replay(PROP, &tag, &hdr, &c.lines);
    rep.violations.push(Violation { kind: kind.into(), detail, replay: path });
}

/// Execute one top-level message on the real actors, run the oracle on trace + state deltas, send
/// the same step to the Lean model.  Returns None when the sequence must stop (violation recorded,
/// disagreement recorded, or F1/F3 symptom).
#[allow(clippy::too_many_arguments)]
fn exec_checked(
    c: &mut Ctx,
    cfg: &RunCfg,
    seq: u64,
    rep: &mut Report,
    lean: &mut Option<LeanDriver>,
    agree: &mut bool,
    kind: Kind,
    from: Address,
    to: Address,
    value: TokenAmount,
    method: u64,
    params: Option<IpldBlock>,
    descr: String,
) -> Option<Checked> {
    let policy = Policy::default();
    let store_epoch = c.w.vm.epoch();
    let pre = snap(c);
    let (re, pe) = estimates(c);
    let st_pre = mstate(c);
    let sector_size = SectorSize::_32GiB;
    // ---- what the message should charge, from the pre-state (independent of the model)
    let mut term_sectors: Vec<TermSector> = vec![];
    let mut prev_faulty_qa = BigInt::zero();
    let mut closing_dl: Option<u64> = None;
    let mut disputed_qa = BigInt::zero();
    match &kind {
        Kind::Cron => {
            let dl = st_pre.deadline_info(&policy, store_epoch);
            if dl.period_started() {
                let d = deadline_state(&c.w.vm, &c.miner, dl.index);
                prev_faulty_qa = d.faulty_power.qa.clone();
                closing_dl = Some(dl.index);
            }
        }
        Kind::Dispute { post_index, .. } => {
            let d = deadline_state(&c.w.vm, &c.miner, c.d_idx);
            let store = c.w.vm.store.as_ref();
            if let Ok(proofs) = d.optimistic_proofs_snapshot_amt(store) {
                if let Ok(Some(post)) = proofs.get(*post_index) {
                    for p in post.partitions.iter() {
                        if let Ok(part) = d.load_partition_snapshot(store, p) {
                            disputed_qa += part.active_power().qa;
                        }
                    }
                }
            }
        }
        Kind::Terminate { sectors } => {
            for s in sectors {
                if let Some(info) = sector_info(c, *s) {
                    let qa = qa_power_for_sector(sector_size, &info);
                    let ff = pledge_penalty_for_continued_fault(&re, &pe, &qa);
                    term_sectors.push(TermSector { pledge: atto(&info.initial_pledge), age: store_epoch - info.activation, ff: atto(&ff) });
                }
            }
        }
        _ => {}
    }
    c.lines.push(format!("# epoch {} step {}: {} ({})", store_epoch, c.step, descr, kind.name()));
    let value_in_top = atto(&value);
    let res = c.w.apply_raw(&from, &to, &value, method, params);
    let traces = c.w.take_trace();
    let post = snap(c);
    rep.ops += 1;
    rep.op(kind.name());
    c.step += 1;
    if res.ok() {
        rep.ops_ok += 1;
    } else {
        rep.err(&format!("{}:{}", kind.name(), exit_class(res.code)));
    }
    if res.panicked {
        violation(c, cfg, seq, rep, "panic", res.message.clone());
        return None;
    }
    let mut tf = TraceFacts::default();
    if res.ok() {
        if let Some(t) = traces.last() {
            walk(c, t, &mut tf);
        }
    } else if let Some(t) = traces.last() {
        // environment answer of a failed message: did the power actor refuse UpdatePledgeTotal?
        fn pledge_failed(c: &Ctx, t: &InvocationTrace) -> bool {
            let to_id = c.w.vm.resolve_id_address(&t.to).and_then(|a| a.id().ok());
            (t.from == c.miner_id
                && to_id == STORAGE_POWER_ACTOR_ADDR.id().ok()
                && t.method == fil_actor_miner::ext::power::UPDATE_PLEDGE_TOTAL_METHOD
                && !t.exit_code.is_success())
                || t.subinvocations.iter().any(|s| pledge_failed(c, s))
        }
        tf.pledge_update_failed = pledge_failed(c, t);
        if tf.pledge_update_failed {
            rep.branch("env:update-pledge-total-refused(F1)");
        }
    }
    let _ = value_in_top;
    // ---- failing message: nothing may change
    if !res.ok() {
        if pre != post {
            violation(c, cfg, seq, rep, "failed-message-changed-state", format!("{} -> {}", show_f(&pre), show_f(&post)));
            return None;
        }
    }
    // ---- cron: the miner's callback must not have failed (that is F1/F3 territory, not C15)
    if let Kind::Cron = kind {
        match &tf.cron_callback {
            Some((_, code)) if *code != 0 => {
                c.stop = Some(format!("miner cron callback failed with exit {} (F1/F3 symptom, not a C15 matter)", code));
                return None;
            }
            _ => {}
        }
        // find a failed callback in the (successful) tick: walk() skips failed subtrees, look directly
        fn failed_cb(c: &Ctx, t: &InvocationTrace) -> Option<u32> {
            let to_id = c.w.vm.resolve_id_address(&t.to).and_then(|a| a.id().ok());
            if to_id == Some(c.miner_id) && t.method == MinerMethod::OnDeferredCronEvent as u64 && !t.exit_code.is_success() {
                return Some(t.exit_code.value());
            }
            t.subinvocations.iter().find_map(|s| failed_cb(c, s))
        }
        if let Some(code) = traces.last().and_then(|t| failed_cb(c, t)) {
            c.stop = Some(format!("miner cron callback failed with exit {} (F1/F3 symptom, not a C15 matter)", code));
            rep.branch("stop:cron-callback-failed");
            return None;
        }
    }
    let d_debt = &post.debt - &pre.debt;
    let taken = &d_debt + &tf.burnt + &tf.reporter_paid; // what the message demonstrably charged
    // ---- expected charge
    let mut expected: Option<BigInt> = None;
    let mut lean_line: Option<String> = None;
    let pledge_ok = !tf.pledge_update_failed;
    // the funds record the model step starts from: the VM has credited the message value
    let pre_in = Snap { balance: &pre.balance + atto(&value), ..pre.clone() };
    let unlocked_pre = |lf: &BigInt| &pre.balance + atto(&value) - lf - &pre.pcd - &pre.ip;
    match &kind {
        Kind::Cron => {
            if let Some((p, _)) = &tf.cron_callback {
                let dep = &pre.pcd - &post.pcd;
                let ff = atto(&pledge_penalty_for_continued_fault(&p.reward_smoothed, &p.quality_adj_power_smoothed, &prev_faulty_qa));
                let (mut daily, mut day_reward) = (BigInt::zero(), BigInt::zero());
                if let Some(di) = closing_dl {
                    let d = deadline_state(&c.w.vm, &c.miner, di);
                    daily = atto(&d.daily_fee);
                    day_reward = atto(&expected_reward_for_power(&p.reward_smoothed, &p.quality_adj_power_smoothed, &d.live_power.qa, EPOCHS_IN_DAY));
                }
                let df = if daily.is_positive() { atto(&daily_proof_fee_payable(&policy, &ta(&daily), &ta(&day_reward))) } else { BigInt::zero() };
                // pledge released by on-time expirations (none in these scenarios) = Δip not explained by terminations
                let on_time = BigInt::zero();
                if !tf.terminated.is_empty() {
                    // early terminations processed inside the callback: bounds only
                    rep.branch("cron:with-terminations");
                    c.stop = Some("cron processed early terminations (not modelled exactly in the harness)".into());
                } else {
                    expected = Some(&dep + &ff + &df);
                    lean_line = Some(format!("dl {} {} {} {} {} {} {} {} -", show_f(&pre_in), pre.vested, dep, on_time, ff, daily, day_reward, b01(pledge_ok)));
                    if prev_faulty_qa.is_positive() && res.ok() {
                        rep.branch("cron:continued-fault-charged");
                        c.nontrivial = true;
                        if !ff.is_positive() {
                            violation(c, cfg, seq, rep, "continued-fault-not-charged", format!("previously faulty QA power {} at deadline {:?} but fee {}", prev_faulty_qa, closing_dl, ff));
                            return None;
                        }
                    }
                    if dep.is_positive() {
                        rep.branch("cron:expired-precommit-burnt");
                    }
                }
            } else {
                expected = Some(BigInt::zero());
            }
        }
        Kind::Dispute { expect_valid, .. } => {
            let base = atto(&pledge_penalty_for_invalid_windowpost(&re, &pe, &disputed_qa));
            let br = atto(&expected_reward_for_power(&re, &pe, &disputed_qa, CONTINUED_FAULT_PROJECTION_PERIOD + 2 * EPOCHS_IN_DAY));
            let rwd = atto(&reward_for_disputed_window_post(RegisteredPoStProof::StackedDRGWindow32GiBV1P1, PowerPair::zero()));
            expected = Some(&base + &rwd);
            let send_ok = tf.reporter_failed.is_none();
            let disputable = if res.ok() { true } else { *expect_valid && false };
            lean_line = Some(format!("dispute {} {} {} {} {} {}", show_f(&pre_in), pre.vested, b01(disputable), br, b01(send_ok), b01(pledge_ok)));
            if res.ok() {
                c.nontrivial = true;
                rep.branch(if send_ok { "dispute:reward-paid" } else { "dispute:reward-transfer-failed" });
                if tf.reporter_paid > rwd {
                    violation(c, cfg, seq, rep, "reporter-reward-above-policy", format!("dispute reward {} > {}", tf.reporter_paid, rwd));
                    return None;
                }
            }
        }
        Kind::ReportCf { fault_epoch, target_self, verified, .. } => {
            let r = re.estimate();
            let pen = atto(&consensus_fault_penalty(ta(&r)));
            let rwd = atto(&reward_for_consensus_slash_report(&ta(&r)));
            expected = Some(pen.clone());
            let send_ok = tf.reporter_failed.is_none();
            lean_line = Some(format!("cf {} {} {} {} {} {} {} {} {}", show_f(&pre_in), pre.vested, b01(*verified), b01(*target_self), store_epoch, fault_epoch, r, b01(send_ok), b01(pledge_ok)));
            if res.ok() {
                c.nontrivial = true;
                rep.branch(if send_ok { "cf:reward-paid" } else { "cf:reward-transfer-failed" });
                if tf.reporter_paid > rwd {
                    violation(c, cfg, seq, rep, "reporter-reward-above-policy", format!("consensus fault reward {} > {}", tf.reporter_paid, rwd));
                    return None;
                }
            }
        }
        Kind::Terminate { .. } => {
            let mut total = BigInt::zero();
            let (mut lo, mut hi) = (BigInt::zero(), BigInt::zero());
            for t in &term_sectors {
                total += atto(&pledge_penalty_for_termination(&ta(&t.pledge), t.age, &ta(&t.ff)));
                lo += spec_floor_div(&(&t.pledge * 2), 100);
                hi += std::cmp::max(spec_floor_div(&(&t.pledge * 85), 1000), spec_floor_div(&(&t.ff * 105), 100));
            }
            expected = Some(total);
            lean_line = Some(format!("terminate {} {} {} {} {}", show_f(&pre_in), pre.vested, b01(res.ok() || pledge_ok && false), b01(pledge_ok), terms_str(&term_sectors)));
            if res.ok() {
                c.nontrivial = true;
                rep.branch("terminate:charged");
                let mut got: Vec<u64> = tf.terminated.clone();
                got.sort();
                if let Kind::Terminate { sectors } = &kind {
                    let mut want = sectors.clone();
                    want.sort();
                    if got != want {
                        // the termination was queued rather than processed at once: not exact
                        c.stop = Some(format!("termination processed partially ({:?} of {:?})", got, want));
                        expected = None;
                        lean_line = None;
                    }
                }
                if expected.is_some() && (taken < lo || taken > hi) {
                    violation(c, cfg, seq, rep, if taken < lo { "termination-fee-below-2pct" } else { "termination-fee-above-cap" },
                        format!("terminated {:?}: charged {} outside [{}, {}]", tf.terminated, taken, lo, hi));
                    return None;
                }
            }
        }
        Kind::Withdraw { amount } => {
            expected = Some(BigInt::zero());
            let lf_after = if pre.lf.is_zero() { pre.lf.clone() } else { &pre.lf - &pre.vested };
            let blocked = pre.debt > unlocked_pre(&lf_after);
            lean_line = Some(format!("wd {} {} 1 {} {} -1 {}", show_f(&pre_in), pre.vested, b01(pre.et_pending), amount, b01(pledge_ok)));
            if blocked {
                rep.branch("gate:withdraw-blocked");
                c.nontrivial = true;
                if res.ok() {
                    violation(c, cfg, seq, rep, "debt-did-not-block", format!("withdraw succeeded with fee debt {} > unlocked {}", pre.debt, unlocked_pre(&lf_after)));
                    return None;
                }
            }
        }
        Kind::PreCommit { count } => {
            expected = Some(BigInt::zero());
            let dep = atto(&pre_commit_deposit_for_power(&re, &pe, &qa_power_max(sector_size))) * BigInt::from(*count);
            let blocked = pre.debt > unlocked_pre(&pre.lf);
            // a failure for a reason other than the funds (parameters) is an environment answer
            let params_ok = res.ok() || res.message.contains("fee debt") || res.message.contains("insufficient funds");
            lean_line = Some(format!("pc {} {} 1 {} {}", show_f(&pre_in), b01(params_ok), store_epoch, dep));
            if blocked {
                rep.branch("gate:precommit-blocked");
                c.nontrivial = true;
                if res.ok() {
                    violation(c, cfg, seq, rep, "debt-did-not-block", format!("pre-commit succeeded with fee debt {} > unlocked {}", pre.debt, unlocked_pre(&pre.lf)));
                    return None;
                }
            }
        }
        Kind::DeclareRecovered => {
            expected = Some(BigInt::zero());
            let blocked = pre.debt > unlocked_pre(&pre.lf);
            let decl_ok = res.ok() || res.message.contains("fee debt") || res.message.contains("consensus fault");
            lean_line = Some(format!("dr {} 1 1 {} {}", show_f(&pre_in), store_epoch, b01(decl_ok)));
            if blocked {
                rep.branch("gate:recovery-blocked");
                c.nontrivial = true;
                if res.ok() {
                    violation(c, cfg, seq, rep, "debt-did-not-block", format!("recovery declaration succeeded with fee debt {} > unlocked {}", pre.debt, unlocked_pre(&pre.lf)));
                    return None;
                }
            }
        }
        Kind::RepayDebt => {
            expected = Some(BigInt::zero());
            lean_line = Some(format!("rd {} {} 1 {}", show_f(&pre_in), pre.vested, b01(pledge_ok)));
        }
        Kind::Other => {}
    }
    if c.stop.is_some() && expected.is_none() {
        return None;
    }
    // ---- the oracle proper (successful messages)
    if res.ok() {
        if tf.burnt.is_negative() || tf.reporter_paid.is_negative() {
            violation(c, cfg, seq, rep, "negative-penalty", format!("burnt {} reporter {}", tf.burnt, tf.reporter_paid));
            return None;
        }
        if post.debt.is_negative() || post.balance < &post.pcd + &post.lf + &post.ip {
            violation(c, cfg, seq, rep, "balance-invariant-broken", show_f(&post));
            return None;
        }
        if kind.penalising() && (tf.to_owner.is_positive() || !tf.other_value_out.is_empty()) {
            violation(c, cfg, seq, rep, "penalty-flows-to-miner", format!("value to owner {} / other value out {:?} inside {}", tf.to_owner, tf.other_value_out, kind.name()));
            return None;
        }
        // reporter reward ≤ what was actually collected from the miner in this message
        let collected_bound = &tf.burnt + &tf.reporter_paid;
        if tf.reporter_paid > collected_bound || (expected.is_some() && tf.reporter_paid > &pre.debt + expected.as_ref().unwrap() - &post.debt) {
            violation(c, cfg, seq, rep, "reporter-reward-exceeds-taken", format!("reporter {} collected {}", tf.reporter_paid, &pre.debt + expected.as_ref().unwrap() - &post.debt));
            return None;
        }
        // balance equation
        let withdrawn = tf.to_owner.clone();
        let bal_expect = &pre.balance + atto(&value) + (&tf.value_in - atto(&value)) - &tf.burnt - &tf.reporter_paid - &withdrawn
            - tf.other_value_out.iter().map(|s| s.rsplit(':').next().unwrap().parse::<BigInt>().unwrap()).sum::<BigInt>();
        if post.balance != bal_expect {
            violation(c, cfg, seq, rep, "balance-delta-unexplained", format!("balance {} -> {}, expected {}", pre.balance, post.balance, bal_expect));
            return None;
        }
        if let Some(exp) = &expected {
            if exp.is_negative() {
                violation(c, cfg, seq, rep, "negative-penalty", format!("{} charged {}", kind.name(), exp));
                return None;
            }
            if &taken != exp {
                // the one situation finding F4 describes, recognised by its exact signature
                let is_f4 = matches!(kind, Kind::ReportCf { .. })
                    && tf.reporter_failed.as_ref().map(|v| v.is_positive() && &(exp - &taken) == v).unwrap_or(false);
                if is_f4 {
                    let v = tf.reporter_failed.clone().unwrap();
                    violation(c, cfg, seq, rep, F4_KIND, format!(
                        "{}: charged {} but fee_debt delta {} + burnt {} + reporter 0 = {}; the unsent reward {} stays in the miner's balance",
                        F4_DETAIL, exp, d_debt, tf.burnt, taken, v));
                    // known finding: keep going (the check decides whether it is known)
                } else {
                    violation(c, cfg, seq, rep, "charged-not-accounted", format!(
                        "{}: expected charge {} but fee_debt delta {} + burnt {} + reporter {} = {}",
                        kind.name(), exp, d_debt, tf.burnt, tf.reporter_paid, taken));
                    return None;
                }
            }
        }
        // gated methods that succeed have repaid the whole debt at once
        if matches!(kind, Kind::Withdraw { .. } | Kind::PreCommit { .. } | Kind::DeclareRecovered) && (!post.debt.is_zero() || tf.burnt != pre.debt) {
            violation(c, cfg, seq, rep, "gate-did-not-repay-debt", format!("debt {} -> {}, burnt {}", pre.debt, post.debt, tf.burnt));
            return None;
        }
    }
    // ---- the Lean model on the same step
    if let (Some(l), Some(line)) = (lean.as_mut(), lean_line) {
        c.lines.push(line.clone());
        let m = l.ask(&line).unwrap();
        let i = if res.ok() {
            let exp = expected.clone().unwrap_or_default();
            let lost = &exp - &taken;
            format!("ok {} {} {} {} {} | {}", exp, tf.burnt, tf.reporter_paid, tf.to_owner, lost, show_f(&post))
        } else {
            // a failed message changed nothing (checked above); the model's unchanged record is the
            // one it was given, i.e. with the (returned) message value credited
            format!("err | {}", show_f(&pre_in))
        };
        let m_norm = if m.starts_with("err ") { format!("err | {}", m.splitn(2, " | ").nth(1).unwrap_or("")) } else { m.clone() };
        if m_norm != i {
            *agree = false;
            let hdr = vec![
                format!("property C15 seed {} seq {} (re-run: ba_harness c15 --seed {} --only-seq {})", cfg.seed, seq, cfg.seed, seq),
                format!("model/implementation disagreement at step {}: {} (impl exit {} {})", c.step, descr, res.code.value(), res.message),
            ];
            let path = write_replay(PROP, &format!("corr-{}-{}", cfg.seed, seq), &hdr, &c.lines);
            rep.disagreements.push(Disagreement { seq, step: c.step, op: line, impl_out: i, model_out: m, replay: path });
            return None;
        }
    }
    Some(Checked { res, post })
}

fn cron_tick(c: &mut Ctx, cfg: &RunCfg, seq: u64, rep: &mut Report, lean: &mut Option<LeanDriver>, agree: &mut bool) -> Option<Checked> {
    exec_checked(c, cfg, seq, rep, lean, agree, Kind::Cron, SYSTEM_ACTOR_ADDR, CRON_ACTOR_ADDR, TokenAmount::zero(),
        fil_actor_cron::Method::EpochTick as u64, None, "cron tick".into())
}

/// advance to the last epoch of the miner's current deadline, tick, step into the next deadline
fn next_deadline(c: &mut Ctx, cfg: &RunCfg, seq: u64, rep: &mut Report, lean: &mut Option<LeanDriver>, agree: &mut bool) -> Option<()> {
    let dl = miner_dline_info(&c.w.vm, &c.miner);
    c.w.vm.set_epoch(dl.last());
    cron_tick(c, cfg, seq, rep, lean, agree)?;
    let e = c.w.vm.epoch() + 1;
    c.w.vm.set_epoch(e);
    Some(())
}

fn advance_to_index(c: &mut Ctx, cfg: &RunCfg, seq: u64, rep: &mut Report, lean: &mut Option<LeanDriver>, agree: &mut bool, idx: u64) -> Option<()> {
    for _ in 0..60 {
        if miner_dline_info(&c.w.vm, &c.miner).index == idx {
            return Some(());
        }
        next_deadline(c, cfg, seq, rep, lean, agree)?;
    }
    Some(())
}

fn live_sectors(c: &Ctx) -> Vec<u64> {
    c.sectors.iter().cloned().filter(|s| !c.terminated.contains(s)).collect()
}

fn setup(r: &mut Rng) -> Result<Ctx, String> {
    let w = World::new(false);
    let accts = w.create_accounts(2, 7000 + r.below(1000), &TokenAmount::from_whole(100_000));
    let (owner, reporter) = (accts[0].0, accts[1].0);
    let seal_proof = RegisteredSealProof::StackedDRG32GiBV1P1;
    let deposit = create_miner_deposit_for_test(&w.vm);
    let params = CreateMinerParams {
        owner,
        worker: owner,
        window_post_proof_type: seal_proof.registered_window_post_proof().unwrap(),
        peer: b"miner".to_vec(),
        multiaddrs: vec![BytesDe(b"multiaddr".to_vec())],
    };
    // a plain CreateMiner (the integration-test helper would erase the creation deposit)
    let res = w.apply(&owner, &STORAGE_POWER_ACTOR_ADDR, &deposit, PowerMethod::CreateMiner as u64, Some(params));
    if !res.ok() {
        return Err(format!("CreateMiner failed: {:?}", res));
    }
    let ret: CreateMinerReturn = res.ret.unwrap().deserialize().unwrap();
    let miner = ret.id_address;
    // funds for deposits and pledge: tight or plentiful
    // enough sectors that the network's pledge total (≈ 1 FIL per sector) exceeds the creation
    // deposit that vests / is unlocked by penalties: the deposit is not part of the pledge total
    // (finding F1) and `UpdatePledgeTotal` would otherwise be refused
    let k = r.range(38, 44) as usize;
    let pcd_one = pre_commit_deposit_for_power(
        &get_state::<RewardState>(&w.vm, &REWARD_ACTOR_ADDR).unwrap().this_epoch_reward_smoothed,
        &get_state::<PowerState>(&w.vm, &STORAGE_POWER_ACTOR_ADDR).unwrap().this_epoch_qa_power_smoothed,
        &qa_power_max(SectorSize::_32GiB),
    );
    let need = pcd_one * (k as u64) + TokenAmount::from_whole(k as i64);
    let topup = need + match r.below(3) {
        0 => TokenAmount::from_whole(r.range(1, 10)),
        1 => TokenAmount::from_whole(r.range(100, 400)),
        _ => TokenAmount::from_whole(r.range(2_000, 20_000)),
    };
    let t = w.apply(&owner, &miner, &topup, METHOD_SEND, None::<RawBytes>);
    if !t.ok() {
        return Err(format!("top-up failed: {:?}", t));
    }
    w.vm.set_epoch(200);
    let first = 100u64;
    let mut c = Ctx {
        w, owner, reporter, miner, miner_id: miner.id().unwrap(), sectors: (first..first + k as u64).collect(),
        terminated: BTreeSet::new(), d_idx: 0, p_idx: 0, next_sector: first + k as u64, lines: vec![], step: 0, stop: None,
        nontrivial: false, seal_proof,
    };
    c.lines.push(format!("# setup: miner {} owner {} reporter {} sectors {}..{} topup {}", miner, owner, reporter, first, first + k as u64 - 1, topup));
    let onboard = catch_unwind(AssertUnwindSafe(|| {
        let v = &c.w.vm;
        let exp = v.epoch() + Policy::default().max_sector_expiration_extension;
        let pcs = precommit_sectors_v2(v, k, vec![], &c.owner, &c.miner, seal_proof, first, true, Some(exp));
        let prove_time = v.epoch() + Policy::default().pre_commit_challenge_delay + 1;
        fil_actors_integration_tests::util::advance_by_deadline_to_epoch(v, &c.miner, prove_time);
        prove_commit_sectors(v, &c.owner, &c.miner, pcs, k);
        fil_actors_integration_tests::util::cron_tick(v);
        let (dl, p) = advance_to_proving_deadline(v, &c.miner, first);
        submit_windowed_post(v, &c.owner, &c.miner, dl, p, None);
        (dl.index, p)
    }));
    match onboard {
        Ok((d, p)) => {
            c.d_idx = d;
            c.p_idx = p;
        }
        Err(e) => {
            let msg = e.downcast_ref::<String>().cloned().or_else(|| e.downcast_ref::<&str>().map(|s| s.to_string())).unwrap_or_default();
            return Err(format!("onboarding helper panicked: {}", msg.chars().take(200).collect::<String>()));
        }
    }
    // all sectors must sit in one deadline/partition for the scripted scenarios
    for s in c.sectors.clone() {
        let (d, p) = sector_deadline(&c.w.vm, &c.miner, s);
        if d != c.d_idx || p != c.p_idx {
            return Err(format!("sector {} assigned to {}/{} instead of {}/{}", s, d, p, c.d_idx, c.p_idx));
        }
    }
    c.w.take_trace();
    Ok(c)
}

#[derive(Clone, Copy, Debug, PartialEq)]
enum Template {
    Faults,
    Dispute,
    DisputeFail,
    Cf,
    CfFail,
    CfInvalid,
    Terminate,
}

fn withdraw_msg(amount: &BigInt) -> Option<IpldBlock> {
    IpldBlock::serialize_cbor(&WithdrawBalanceParams { amount_requested: ta(amount) }).unwrap()
}

#[allow(clippy::too_many_arguments)]
fn gate_probes(c: &mut Ctx, cfg: &RunCfg, seq: u64, rep: &mut Report, lean: &mut Option<LeanDriver>, agree: &mut bool, r: &mut Rng) -> Option<()> {
    // Withdraw / PreCommit / DeclareFaultsRecovered while (possibly) in debt
    let one = BigInt::from(r.range(1, 1000));
    exec_checked(c, cfg, seq, rep, lean, agree, Kind::Withdraw { amount: one.clone() }, c.owner, c.miner, TokenAmount::zero(),
        MinerMethod::WithdrawBalance as u64, withdraw_msg(&one), "withdraw probe".into())?;
    // a pre-commit of one fresh sector, optionally carrying value (which may or may not cover the debt)
    let sn = c.next_sector;
    c.next_sector += 1;
    let v = &c.w.vm;
    let exp = v.epoch() + Policy::default().max_sector_expiration_extension;
    let pc = fil_actor_miner::PreCommitSectorBatchParams2 {
        sectors: vec![fil_actor_miner::SectorPreCommitInfo {
            seal_proof: c.seal_proof,
            sector_number: sn,
            sealed_cid: fil_actors_runtime::test_utils::make_sealed_cid(format!("sn: {}", sn).as_bytes()),
            seal_rand_epoch: v.epoch() - 1,
            deal_ids: vec![],
            expiration: exp,
            unsealed_cid: fil_actor_miner::CompactCommD::empty(),
        }],
    };
    let val = if r.chance(1, 3) { TokenAmount::from_whole(r.range(1, 30)) } else { TokenAmount::zero() };
    exec_checked(c, cfg, seq, rep, lean, agree, Kind::PreCommit { count: 1 }, c.owner, c.miner, val,
        MinerMethod::PreCommitSectorBatch2 as u64, IpldBlock::serialize_cbor(&pc).unwrap(), format!("pre-commit probe sector {}", sn))?;
    let live = live_sectors(c);
    if !live.is_empty() {
        let rec = DeclareFaultsRecoveredParams {
            recoveries: vec![RecoveryDeclaration { deadline: c.d_idx, partition: c.p_idx, sectors: BitField::try_from_bits(live.iter().copied()).unwrap() }],
        };
        exec_checked(c, cfg, seq, rep, lean, agree, Kind::DeclareRecovered, c.owner, c.miner, TokenAmount::zero(),
            MinerMethod::DeclareFaultsRecovered as u64, IpldBlock::serialize_cbor(&rec).unwrap(), "recovery declaration probe".into())?;
    }
    Some(())
}

#[allow(clippy::too_many_arguments)]
fn run_template(c: &mut Ctx, cfg: &RunCfg, seq: u64, rep: &mut Report, lean: &mut Option<LeanDriver>, agree: &mut bool, r: &mut Rng, t: Template) -> Option<()> {
    let policy = Policy::default();
    let nd = policy.wpost_period_deadlines;
    rep.branch(&format!("template:{:?}", t));
    // optionally drain the available balance first so that penalties turn into debt
    if r.chance(1, 2) {
        let all = BigInt::from(10u64).pow(30);
        exec_checked(c, cfg, seq, rep, lean, agree, Kind::Withdraw { amount: all.clone() }, c.owner, c.miner, TokenAmount::zero(),
            MinerMethod::WithdrawBalance as u64, withdraw_msg(&all), "drain: withdraw everything available".into())?;
    }
    match t {
        Template::Faults => {
            // miss the PoSt of the sectors' deadline, stay faulty for n more proving periods
            let periods = r.range(1, 3);
            advance_to_index(c, cfg, seq, rep, lean, agree, c.d_idx)?;
            for p in 0..=periods {
                // skip the deadline (no PoSt) and walk a full period
                next_deadline(c, cfg, seq, rep, lean, agree)?;
                if p == 0 || r.chance(1, 2) {
                    // a few deadlines later: probes against the debt gate
                    for _ in 0..r.range(2, 6) {
                        next_deadline(c, cfg, seq, rep, lean, agree)?;
                    }
                    gate_probes(c, cfg, seq, rep, lean, agree, r)?;
                }
                advance_to_index(c, cfg, seq, rep, lean, agree, c.d_idx)?;
            }
            // pay up (maybe), recover and prove again
            if r.chance(2, 3) {
                let amt = TokenAmount::from_whole(r.range(10, 3000));
                exec_checked(c, cfg, seq, rep, lean, agree, Kind::Other, c.owner, c.miner, amt, METHOD_SEND, None, "top-up".into())?;
                exec_checked(c, cfg, seq, rep, lean, agree, Kind::RepayDebt, c.owner, c.miner, TokenAmount::zero(),
                    MinerMethod::RepayDebt as u64, None, "repay debt".into())?;
            }
            advance_to_index(c, cfg, seq, rep, lean, agree, (c.d_idx + 3) % nd)?;
            gate_probes(c, cfg, seq, rep, lean, agree, r)?;
            advance_to_index(c, cfg, seq, rep, lean, agree, c.d_idx)?;
            // prove (recovered sectors regain power when the declaration went through)
            let dl = miner_dline_info(&c.w.vm, &c.miner);
            let params = fil_actor_miner::SubmitWindowedPoStParams {
                deadline: dl.index,
                partitions: vec![fil_actor_miner::PoStPartition { index: c.p_idx, skipped: BitField::new() }],
                proofs: vec![fvm_shared::sector::PoStProof { post_proof: RegisteredPoStProof::StackedDRGWindow32GiBV1P1, proof_bytes: vec![] }],
                chain_commit_epoch: dl.challenge,
                chain_commit_rand: fvm_shared::randomness::Randomness(fil_actors_integration_tests::TEST_VM_RAND_ARRAY.into()),
            };
            exec_checked(c, cfg, seq, rep, lean, agree, Kind::Other, c.owner, c.miner, TokenAmount::zero(),
                MinerMethod::SubmitWindowedPoSt as u64, IpldBlock::serialize_cbor(&params).unwrap(), "window post after faults".into())?;
            next_deadline(c, cfg, seq, rep, lean, agree)?;
        }
        Template::Dispute | Template::DisputeFail => {
            advance_to_index(c, cfg, seq, rep, lean, agree, c.d_idx)?;
            let dl = miner_dline_info(&c.w.vm, &c.miner);
            let posted = catch_unwind(AssertUnwindSafe(|| submit_invalid_post(&c.w.vm, &c.owner, &c.miner, dl, c.p_idx)));
            c.w.take_trace();
            if posted.is_err() {
                // the partition is faulty (an earlier template left it so): nothing to dispute
                rep.branch("dispute:no-post-possible");
                next_deadline(c, cfg, seq, rep, lean, agree)?;
                return Some(());
            }
            c.lines.push(format!("# epoch {}: invalid window post submitted for deadline {}", c.w.vm.epoch(), c.d_idx));
            next_deadline(c, cfg, seq, rep, lean, agree)?;
            // the deadline has closed and is mutable again: in half of the runs the miner declares (some of)
            // the sectors it has just "proven" faulty before anybody disputes — the dispute must still charge
            // for the power the proof claimed (the snapshot), not for what the dispute itself removes
            if r.chance(1, 2) {
                let live = live_sectors(c);
                if !live.is_empty() {
                    let some: Vec<u64> = if r.chance(1, 2) { live.clone() } else { live.iter().cloned().take(1).collect() };
                    let df = fil_actor_miner::DeclareFaultsParams {
                        faults: vec![fil_actor_miner::FaultDeclaration {
                            deadline: c.d_idx,
                            partition: c.p_idx,
                            sectors: fvm_ipld_bitfield::BitField::try_from_bits(some.iter().cloned()).unwrap(),
                        }],
                    };
                    rep.branch("dispute:faults-declared-before-dispute");
                    exec_checked(c, cfg, seq, rep, lean, agree, Kind::Other, c.owner, c.miner, TokenAmount::zero(),
                        MinerMethod::DeclareFaults as u64, IpldBlock::serialize_cbor(&df).unwrap(), format!("declare faults {:?} after the disputed deadline closed", some))?;
                }
            }
            next_deadline(c, cfg, seq, rep, lean, agree)?;
            if t == Template::DisputeFail {
                c.w.vm.fault_plan.borrow_mut().rules.push(FaultRule { from: Some(c.miner_id), to: c.reporter.id().ok(), method: Some(METHOD_SEND), ordinal: None, exit: 7, ..Default::default() });
            }
            let dp = DisputeWindowedPoStParams { deadline: c.d_idx, post_index: 0 };
            let out = exec_checked(c, cfg, seq, rep, lean, agree, Kind::Dispute { post_index: 0, expect_valid: true }, c.reporter, c.miner, TokenAmount::zero(),
                MinerMethod::DisputeWindowedPoSt as u64, IpldBlock::serialize_cbor(&dp).unwrap(), format!("dispute deadline {} (reward transfer {})", c.d_idx, if t == Template::DisputeFail { "forced to fail" } else { "normal" }));
            c.w.vm.fault_plan.borrow_mut().rules.clear();
            out?;
            // a second dispute of the same PoSt must fail and change nothing
            let dp = DisputeWindowedPoStParams { deadline: c.d_idx, post_index: 0 };
            exec_checked(c, cfg, seq, rep, lean, agree, Kind::Dispute { post_index: 0, expect_valid: false }, c.reporter, c.miner, TokenAmount::zero(),
                MinerMethod::DisputeWindowedPoSt as u64, IpldBlock::serialize_cbor(&dp).unwrap(), "dispute again".into())?;
            gate_probes(c, cfg, seq, rep, lean, agree, r)?;
        }
        Template::Cf | Template::CfFail | Template::CfInvalid => {
            let epoch = c.w.vm.epoch();
            let (fault_epoch, target) = match (t, r.below(2)) {
                (Template::CfInvalid, 0) => (epoch - 1, c.owner),          // fault of somebody else
                (Template::CfInvalid, _) => (epoch + r.range(0, 3), c.miner), // not in the past
                _ => (epoch - r.range(1, 800), c.miner),
            };
            c.w.vm.consensus_fault.replace(Some(ConsensusFault { target, epoch: fault_epoch, fault_type: ConsensusFaultType::DoubleForkMining }));
            if t == Template::CfFail {
                c.w.vm.fault_plan.borrow_mut().rules.push(FaultRule { from: Some(c.miner_id), to: c.reporter.id().ok(), method: Some(METHOD_SEND), ordinal: None, exit: 7, ..Default::default() });
            }
            let p = ReportConsensusFaultParams { header1: vec![1], header2: vec![2], header_extra: vec![] };
            let out = exec_checked(c, cfg, seq, rep, lean, agree,
                Kind::ReportCf { expect_valid: t != Template::CfInvalid, fault_epoch, target_self: target == c.miner, verified: true },
                c.reporter, c.miner, TokenAmount::zero(), MinerMethod::ReportConsensusFault as u64, IpldBlock::serialize_cbor(&p).unwrap(),
                format!("report consensus fault at {} target {} (reward transfer {})", fault_epoch, target, if t == Template::CfFail { "forced to fail" } else { "normal" }));
            c.w.vm.fault_plan.borrow_mut().rules.clear();
            out?;
            // the same fault again: too old now (exclusion period), must fail
            let p = ReportConsensusFaultParams { header1: vec![1], header2: vec![2], header_extra: vec![] };
            exec_checked(c, cfg, seq, rep, lean, agree,
                Kind::ReportCf { expect_valid: false, fault_epoch, target_self: target == c.miner, verified: true },
                c.reporter, c.miner, TokenAmount::zero(), MinerMethod::ReportConsensusFault as u64, IpldBlock::serialize_cbor(&p).unwrap(),
                "report the same fault again".into())?;
            c.w.vm.consensus_fault.replace(None);
            gate_probes(c, cfg, seq, rep, lean, agree, r)?;
        }
        Template::Terminate => {
            let live = live_sectors(c);
            if live.len() <= 34 {
                return Some(());
            }
            // keep > 33 sectors pledged so that the network's pledge total stays above the creation
            // deposit (findings F1/F3 are not C15's business)
            let n = r.range(1, std::cmp::min(4, live.len() as i64 - 34)) as usize;
            let chosen: Vec<u64> = live.iter().cloned().take(n).collect();
            // deadlines are immutable while being proven: move away from the sectors' deadline
            let cur = miner_dline_info(&c.w.vm, &c.miner).index;
            if cur == c.d_idx || (cur + 1) % nd == c.d_idx {
                advance_to_index(c, cfg, seq, rep, lean, agree, (c.d_idx + 2) % nd)?;
            }
            let tp = TerminateSectorsParams {
                terminations: vec![TerminationDeclaration { deadline: c.d_idx, partition: c.p_idx, sectors: BitField::try_from_bits(chosen.iter().copied()).unwrap() }],
            };
            let out = exec_checked(c, cfg, seq, rep, lean, agree, Kind::Terminate { sectors: chosen.clone() }, c.owner, c.miner, TokenAmount::zero(),
                MinerMethod::TerminateSectors as u64, IpldBlock::serialize_cbor(&tp).unwrap(), format!("terminate sectors {:?}", chosen))?;
            if out.res.ok() {
                for s in chosen {
                    c.terminated.insert(s);
                }
            }
            let _ = out.post;
            gate_probes(c, cfg, seq, rep, lean, agree, r)?;
        }
    }
    Some(())
}

fn actor_seq(cfg: &RunCfg, seq: u64, idx: u64, rep: &mut Report, lean: &mut Option<LeanDriver>, seen: &mut HashSet<u64>) {
    let mut r = seq_rng(cfg.seed, seq);
    rep.sequences += 1;
    let mut c = match setup(&mut r) {
        Ok(c) => c,
        Err(e) => {
            rep.err("setup-failed");
            let n = format!("actor-level setup did not complete: {}", e);
            if !rep.notes.contains(&n) {
                rep.notes.push(n);
            }
            return;
        }
    };
    let mut agree = true;
    // the first actor sequence of every run contains the consensus-fault report with a failing
    // reward transfer (so the F4 situation is exercised for every seed); the rest is drawn
    let pool = [Template::Faults, Template::Dispute, Template::DisputeFail, Template::Cf, Template::CfFail, Template::CfInvalid, Template::Terminate];
    let mut plan: Vec<Template> = vec![];
    if idx == 0 {
        plan.push(Template::CfFail);
    }
    let n = r.range(2, 4);
    for _ in 0..n {
        plan.push(*r.pick(&pool));
    }
    if idx % 3 == 1 && !plan.contains(&Template::Faults) {
        plan.insert(0, Template::Faults);
    }
    c.lines.push(format!("# plan {:?}", plan));
    let nviol = rep.violations.len();
    for t in plan {
        if run_template(&mut c, cfg, seq, rep, lean, &mut agree, &mut r, t).is_none() {
            break;
        }
        if c.w.vm.epoch() > 200 + 12 * 2880 {
            break; // stay well inside the window in which F1 cannot bite (see DESIGN §7 C15 notes)
        }
    }
    if let Some(s) = &c.stop {
        let n = format!("sequence stopped early: {}", s);
        if !rep.notes.contains(&n) {
            rep.notes.push(n);
        }
    }
    let _ = nviol;
    if agree && lean.is_some() {
        rep.traces_validated += 1;
    }
    if c.nontrivial && seen.insert(hash_lines(&c.lines)) {
        rep.distinct_nontrivial += 1;
    }
    if rep.samples.len() < 3 && c.nontrivial {
        rep.samples.push(json!({"seq": seq, "ops": c.lines.iter().filter(|l| !l.starts_with("# epoch")).take(10).collect::<Vec<_>>()}));
    }
}

pub fn run(cfg: &RunCfg) -> Report {
    let mut rep = Report::new(PROP, cfg.seed, &cfg.tier);
    rep.nontrivial_rule = "formula sequences: distinct hash of the evaluated input lines; actor sequences: non-trivial when at least one penalty was charged (continued fault, dispute, consensus fault, termination) or a debt-gated method was blocked; distinct = distinct hash of the op lines".into();
    let (nf, per_f, na) = if cfg.thorough() { (40u64, 2000u64, 150u64) } else { (6, 400, 14) };
    let (nf, na) = (nf * cfg.budget, na * cfg.budget);
    let mut lean = if cfg.use_lean { Some(LeanDriver::spawn("minerpenalty").expect("lean driver")) } else { None };
    let mut seen = HashSet::new();
    let seqs: Vec<u64> = match cfg.only_seq {
        Some(k) => vec![k],
        None => (0..nf + na).collect(),
    };
    for seq in seqs {
        if seq < nf {
            formula_seq(cfg, seq, per_f, &mut rep, &mut lean, &mut seen);
        } else {
            actor_seq(cfg, seq, seq - nf, &mut rep, &mut lean, &mut seen);
        }
    }
    rep
}
