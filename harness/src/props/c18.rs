//! C18 — EVM execution is total, bounded and respects read-only mode.
//! Real EVM actor in the vvm (public path only: EAM CreateExternal, InvokeContract, GetStorageAt)
//! ⇄ Lean `BA.Evm.Machine` (driver model `evmmachine`) + independent oracles.
//!
//! Case numbering (`--only-seq K` replays one case in a fresh world):
//!   0 .. 8191        matrix cell  K = byte*32 + height-index   (heights 0..17, 1022, 1023, 1024)
//!   8192 .. 8299     jump / jumpdest variants
//!   8300 .. 8999     memory-guard cases
//!   10000 + i        arbitrary byte strings (init code, runtime code, calldata, jumpdest probes)
//!   20000 + i        read-only chains
use super::{RunCfg, hash_lines, seq_rng};
use crate::lean::LeanDriver;
use crate::report::{Disagreement, Report, Violation, write_replay};
use crate::rng::Rng;
use crate::world::{Applied, World};
use fil_actors_runtime::EAM_ACTOR_ADDR;
use fvm_ipld_encoding::ipld_block::IpldBlock;
use fvm_ipld_encoding::{BytesDe, BytesSer};
use fvm_shared::address::Address;
use fvm_shared::econ::TokenAmount;
use fvm_shared::ActorID;
use num_traits::Zero;
use serde_json::json;
use std::collections::{BTreeMap, BTreeSet, HashSet};
use std::sync::atomic::{AtomicU64, Ordering};
use vm_api::VM;
use vm_api::trace::InvocationTrace;

const HEIGHTS: [usize; 21] = [0, 1, 2, 3, 4, 5, 6, 7, 8, 9, 10, 11, 12, 13, 14, 15, 16, 17, 1022, 1023, 1024];
/// the stack limit as the property states it
const SPEC_STACK_LIMIT: usize = 1024;
const INVOKE: u64 = fil_actor_evm::Method::InvokeContract as u64;
const INVOKE_DELEGATE: u64 = fil_actor_evm::Method::InvokeContractDelegate as u64;

// exit codes (lib.rs) as the property names them
const REVERTED: u32 = 33;
const INVALID_INSTRUCTION: u32 = 34;
const UNDEFINED_INSTRUCTION: u32 = 35;
const STACK_UNDERFLOW: u32 = 36;
const STACK_OVERFLOW: u32 = 37;
const ILLEGAL_MEMORY_ACCESS: u32 = 38;
const BAD_JUMPDEST: u32 = 39;
const READ_ONLY: u32 = 25;

/// exit codes an EVM activation may end with: success, the user-range actor error codes and the
/// EVM_CONTRACT_* codes; anything else (system codes, unknown codes) or a panic is a violation.
fn defined_exit(code: u32) -> bool {
    code == 0 || (16..=26).contains(&code) || (33..=40).contains(&code)
}

static CURRENT_CASE: AtomicU64 = AtomicU64::new(u64::MAX);
static CASE_STARTED_MS: AtomicU64 = AtomicU64::new(0);

fn now_ms() -> u64 {
    std::time::SystemTime::now().duration_since(std::time::UNIX_EPOCH).unwrap().as_millis() as u64
}

// ------------------------------------------------------------------------------------ assembler

mod op {
    pub const STOP: u8 = 0x00;
    pub const CALLDATALOAD: u8 = 0x35;
    pub const CODECOPY: u8 = 0x39;
    pub const POP: u8 = 0x50;
    pub const MSTORE: u8 = 0x52;
    pub const SSTORE: u8 = 0x55;
    pub const JUMP: u8 = 0x56;
    pub const JUMPI: u8 = 0x57;
    pub const MSIZE: u8 = 0x59;
    pub const GAS: u8 = 0x5a;
    pub const JUMPDEST: u8 = 0x5b;
    pub const TSTORE: u8 = 0x5d;
    pub const PUSH0: u8 = 0x5f;
    pub const PUSH1: u8 = 0x60;
    pub const PUSH32: u8 = 0x7f;
    pub const LOG1: u8 = 0xa1;
    pub const CREATE: u8 = 0xf0;
    pub const CALL: u8 = 0xf1;
    pub const RETURN: u8 = 0xf3;
    pub const DELEGATECALL: u8 = 0xf4;
    pub const CREATE2: u8 = 0xf5;
    pub const STATICCALL: u8 = 0xfa;
    pub const SELFDESTRUCT: u8 = 0xff;
}

#[derive(Default, Clone)]
struct Asm(Vec<u8>);
impl Asm {
    fn op(mut self, b: u8) -> Self {
        self.0.push(b);
        self
    }
    fn ops(mut self, bs: &[u8]) -> Self {
        self.0.extend_from_slice(bs);
        self
    }
    /// minimal PUSHn of a u128
    fn push(mut self, v: u128) -> Self {
        if v == 0 {
            self.0.push(op::PUSH0);
            return self;
        }
        let bytes = v.to_be_bytes();
        let skip = bytes.iter().take_while(|b| **b == 0).count();
        self.0.push(op::PUSH1 + (16 - skip - 1) as u8);
        self.0.extend_from_slice(&bytes[skip..]);
        self
    }
    /// PUSHn of big-endian bytes (n = len, 1..=32)
    fn push_bytes(mut self, be: &[u8]) -> Self {
        assert!(!be.is_empty() && be.len() <= 32);
        self.0.push(op::PUSH1 + (be.len() - 1) as u8);
        self.0.extend_from_slice(be);
        self
    }
    fn rep(mut self, b: u8, n: usize) -> Self {
        self.0.extend(std::iter::repeat(b).take(n));
        self
    }
}

/// init code that installs `runtime` as the contract's code
fn deployer(runtime: &[u8]) -> Vec<u8> {
    // PUSH2 len; PUSH2 off; PUSH0; CODECOPY; PUSH2 len; PUSH0; RETURN
    let len = runtime.len() as u16;
    let off: u16 = 3 + 3 + 1 + 1 + 3 + 1 + 1;
    let mut c = vec![0x61, (len >> 8) as u8, len as u8, 0x61, (off >> 8) as u8, off as u8, op::PUSH0, op::CODECOPY,
                     0x61, (len >> 8) as u8, len as u8, op::PUSH0, op::RETURN];
    assert_eq!(c.len(), off as usize);
    c.extend_from_slice(runtime);
    c
}

// ------------------------------------------------------------------------------------ the world

struct Evm {
    w: World,
    acct: Address,
}

#[derive(Clone, Debug)]
struct Contract {
    id: Address,
    eth: [u8; 20],
}

impl Evm {
    fn new() -> Evm {
        Evm::with_depth(6)
    }
    fn with_depth(max_depth: u32) -> Evm {
        let w = World::new(false);
        let accts = w.create_accounts(1, 1818, &TokenAmount::from_whole(1_000_000));
        // natively there is no gas: bound the recursion of self-calling random programs
        w.vm.max_depth.replace(max_depth);
        Evm { w, acct: accts[0].0 }
    }

    /// EAM CreateExternal with raw init code
    fn create_raw(&self, initcode: &[u8], value: &TokenAmount) -> (Applied, Option<Contract>) {
        let params = IpldBlock::serialize_cbor(&fil_actor_eam::CreateExternalParams(initcode.to_vec())).unwrap();
        let r = self.w.apply_raw(&self.acct, &EAM_ACTOR_ADDR, value, fil_actor_eam::Method::CreateExternal as u64, params);
        let c = if r.ok() {
            r.ret.as_ref().and_then(|b| b.deserialize::<fil_actor_eam::CreateExternalReturn>().ok()).map(|ret| Contract {
                id: Address::new_id(ret.actor_id),
                eth: ret.eth_address.0,
            })
        } else {
            None
        };
        (r, c)
    }

    fn deploy(&self, runtime: &[u8], value: &TokenAmount) -> (Applied, Option<Contract>) {
        self.create_raw(&deployer(runtime), value)
    }

    fn invoke(&self, to: &Address, calldata: &[u8], value: &TokenAmount) -> Applied {
        let params = IpldBlock::serialize_cbor(&BytesSer(calldata)).unwrap();
        self.w.apply_raw(&self.acct, to, value, INVOKE, params)
    }

    fn storage_at(&self, c: &Address, key: u64) -> Option<String> {
        let params = fil_actor_evm::GetStorageAtParams { storage_key: fil_actors_evm_shared::uints::U256::from(key) };
        let r = self.w.apply(&Address::new_id(0), c, &TokenAmount::zero(), fil_actor_evm::Method::GetStorageAt as u64, Some(params));
        if !r.ok() {
            return None;
        }
        let ret: fil_actor_evm::GetStorageAtReturn = r.ret?.deserialize().ok()?;
        Some(format!("{:x}", ret.storage))
    }
}

fn ret_bytes(r: &Applied) -> Vec<u8> {
    r.ret.as_ref().and_then(|b| b.deserialize::<BytesDe>().ok()).map(|b| b.0).unwrap_or_default()
}

// ------------------------------------------------------------------------------------ independent spec table

/// (δ, α) of the Yellow Paper / EIPs for every defined opcode (independent of the repo's macros)
fn spec_arity(b: u8) -> Option<(usize, usize)> {
    Some(match b {
        0x00 => (0, 0),
        0x01..=0x07 => (2, 1),
        0x08 | 0x09 => (3, 1),
        0x0a | 0x0b => (2, 1),
        0x10..=0x14 => (2, 1),
        0x15 => (1, 1),
        0x16..=0x18 => (2, 1),
        0x19 => (1, 1),
        0x1a..=0x1d => (2, 1),
        0x1e => (1, 1), // CLZ (EIP-7939)
        0x20 => (2, 1),
        0x30 => (0, 1),
        0x31 => (1, 1),
        0x32..=0x34 => (0, 1),
        0x35 => (1, 1),
        0x36 => (0, 1),
        0x37 => (3, 0),
        0x38 => (0, 1),
        0x39 => (3, 0),
        0x3a => (0, 1),
        0x3b => (1, 1),
        0x3c => (4, 0),
        0x3d => (0, 1),
        0x3e => (3, 0),
        0x3f | 0x40 => (1, 1),
        0x41..=0x48 => (0, 1),
        0x50 => (1, 0),
        0x51 => (1, 1),
        0x52 | 0x53 => (2, 0),
        0x54 => (1, 1),
        0x55 => (2, 0),
        0x56 => (1, 0),
        0x57 => (2, 0),
        0x58..=0x5a => (0, 1),
        0x5b => (0, 0),
        0x5c => (1, 1),
        0x5d => (2, 0),
        0x5e => (3, 0),
        0x5f..=0x7f => (0, 1),
        0x80..=0x8f => ((b - 0x80) as usize + 1, (b - 0x80) as usize + 2),
        0x90..=0x9f => ((b - 0x90) as usize + 2, (b - 0x90) as usize + 2),
        0xa0..=0xa4 => ((b - 0xa0) as usize + 2, 0),
        0xf0 => (3, 1),
        0xf1 => (7, 1),
        0xf3 => (2, 0),
        0xf4 => (6, 1),
        0xf5 => (4, 1),
        0xfa => (6, 1),
        0xfd => (2, 0),
        0xfe => (0, 0),
        0xff => (1, 0),
        _ => return None,
    })
}

#[derive(Clone, Debug, PartialEq, Eq)]
enum Pred {
    /// execution continues after the byte with this stack height
    Next(usize),
    /// the activation ends with this exit code (0 = success)
    Ends(u32),
}

/// what the specification says happens when byte `b` is executed on a stack of `h` zero words
fn spec_predict(b: u8, h: usize) -> Pred {
    let (d, a) = match spec_arity(b) {
        None => return Pred::Ends(UNDEFINED_INSTRUCTION),
        Some(x) => x,
    };
    if h < d {
        return Pred::Ends(STACK_UNDERFLOW);
    }
    if h - d + a > SPEC_STACK_LIMIT {
        return Pred::Ends(STACK_OVERFLOW);
    }
    match b {
        0x00 | 0xf3 | 0xff => Pred::Ends(0),
        0xfd => Pred::Ends(REVERTED),
        0xfe => Pred::Ends(INVALID_INSTRUCTION),
        0x56 => Pred::Ends(BAD_JUMPDEST), // JUMP to offset 0, which is never a JUMPDEST in a matrix program
        _ => Pred::Next(h - d + a),
    }
}

fn model_class_code(class: &str) -> Option<u32> {
    Some(match class {
        "stack_underflow" => STACK_UNDERFLOW,
        "stack_overflow" => STACK_OVERFLOW,
        "undefined_instruction" => UNDEFINED_INSTRUCTION,
        "invalid_instruction" => INVALID_INSTRUCTION,
        "illegal_memory_access" => ILLEGAL_MEMORY_ACCESS,
        "bad_jumpdest" => BAD_JUMPDEST,
        "selfdestruct_failed" => 40,
        "read_only" => READ_ONLY,
        "forbidden" => 18,
        _ => return None,
    })
}

fn field(line: &str, key: &str) -> Option<u64> {
    line.split(' ').find_map(|t| t.strip_prefix(key).and_then(|v| v.parse().ok()))
}

/// parse a `step`/`stack` answer of the driver
fn model_pred(line: &str) -> Option<Pred> {
    let mut it = line.split(' ');
    match it.next()? {
        "next" => Some(Pred::Next(field(line, "h=")? as usize)),
        "halt" => Some(Pred::Ends(if it.next()? == "revert" { REVERTED } else { 0 })),
        "fail" => Some(Pred::Ends(model_class_code(it.next()?)?)),
        _ => None,
    }
}

/// parse a `run` answer of the driver: (exit code, final height)
fn model_run(line: &str) -> Option<(u32, usize)> {
    let mut it = line.split(' ');
    match it.next()? {
        "done" => Some((if it.next()? == "revert" { REVERTED } else { 0 }, field(line, "h=")? as usize)),
        "err" => Some((model_class_code(it.next()?)?, field(line, "h=")? as usize)),
        _ => None,
    }
}

// ------------------------------------------------------------------------------------ run context

struct Ctx<'a> {
    cfg: &'a RunCfg,
    rep: Report,
    lean: Option<LeanDriver>,
    evm: Evm,
    seen: HashSet<u64>,
    fresh_world_each_case: bool,
}

impl<'a> Ctx<'a> {
    fn begin(&mut self, seq: u64) {
        CURRENT_CASE.store(seq, Ordering::SeqCst);
        CASE_STARTED_MS.store(now_ms(), Ordering::SeqCst);
        if self.fresh_world_each_case {
            self.evm = Evm::new();
        }
        self.rep.sequences += 1;
    }
    /// next case inside a batch that shares the world of the batch
    fn tick(&mut self, seq: u64) {
        CURRENT_CASE.store(seq, Ordering::SeqCst);
        CASE_STARTED_MS.store(now_ms(), Ordering::SeqCst);
        self.rep.sequences += 1;
    }
    fn hdr(&self, seq: u64, what: &str) -> Vec<String> {
        vec![
            format!("property C18 seed {} seq {} (re-run: ba_harness c18 --seed {} --only-seq {})", self.cfg.seed, seq, self.cfg.seed, seq),
            what.to_string(),
        ]
    }
    fn violation(&mut self, seq: u64, kind: &str, detail: String, lines: &[String]) {
        let path = write_replay("C18", &format!("{}-{}", self.cfg.seed, seq), &self.hdr(seq, &format!("{}: {}", kind, detail)), lines);
        self.rep.violations.push(Violation { kind: kind.into(), detail, replay: path });
    }
    fn disagreement(&mut self, seq: u64, op: &str, impl_out: String, model_out: String, lines: &[String]) {
        let path = write_replay("C18", &format!("corr-{}-{}", self.cfg.seed, seq), &self.hdr(seq, &format!("model disagreement on `{}`: impl={} model={}", op, impl_out, model_out)), lines);
        self.rep.disagreements.push(Disagreement { seq, step: 0, op: op.into(), impl_out, model_out, replay: path });
    }
    fn ask(&mut self, line: &str) -> Option<String> {
        self.lean.as_mut().map(|l| l.ask(line).expect("lean driver"))
    }
    /// panics and undefined exit codes are violations everywhere; a panic poisons the world
    fn check_defined(&mut self, seq: u64, what: &str, r: &Applied, lines: &[String]) -> bool {
        self.rep.ops += 1;
        if r.ok() {
            self.rep.ops_ok += 1;
        }
        Report::bump(&mut self.rep.err_hist, &format!("{}:{}", what, r.code.value()));
        if r.panicked {
            self.violation(seq, "panic", format!("{} panicked: {}", what, r.message.chars().take(300).collect::<String>()), lines);
            self.evm = Evm::new();
            return false;
        }
        if !defined_exit(r.code.value()) {
            self.violation(seq, "undefined-exit-code", format!("{} ended with exit code {} ({})", what, r.code.value(), r.message.chars().take(200).collect::<String>()), lines);
            return false;
        }
        true
    }
}

fn hex(b: &[u8]) -> String {
    if b.is_empty() { "-".into() } else { hex::encode(b) }
}

// ------------------------------------------------------------------------------------ (i) matrix

/// program that builds `h` zero words, executes `b` (followed by zero filler for push data), then `suffix`
fn cell_program(b: u8, h: usize, suffix: &[u8]) -> Vec<u8> {
    // (code may not start with 0xEF, EIP-3541: a leading JUMPDEST is a no-op)
    let mut p = if h == 0 && b == 0xef { Asm::default().op(op::JUMPDEST).op(b) } else { Asm::default().rep(op::PUSH0, h).op(b) };
    if (op::PUSH1..=op::PUSH32).contains(&b) {
        p = p.rep(0, (b - op::PUSH1) as usize + 1);
    }
    p.ops(suffix).0
}

/// deploy + invoke a runtime program; None when a violation was already recorded
fn run_program(cx: &mut Ctx, seq: u64, code: &[u8], calldata: &[u8], lines: &mut Vec<String>) -> Option<Applied> {
    lines.push(format!("deploy {}", hex(code)));
    let (r, c) = cx.evm.deploy(code, &TokenAmount::zero());
    if !cx.check_defined(seq, "deploy", &r, lines) {
        return None;
    }
    let c = match c {
        Some(c) => c,
        None => {
            cx.violation(seq, "deploy-failed", format!("installing a runtime program failed with {} {}", r.code.value(), r.message), lines);
            return None;
        }
    };
    lines.push(format!("invoke {} {}", c.id, hex(calldata)));
    let r = cx.evm.invoke(&c.id, calldata, &TokenAmount::zero());
    if !cx.check_defined(seq, "invoke", &r, lines) {
        return None;
    }
    Some(r)
}

/// pc of the failing instruction, from the interpreter's `ABORT(pc=N)` wrapper
fn abort_pc(msg: &str) -> Option<usize> {
    let i = msg.find("ABORT(pc=")? + 9;
    let digits: String = msg[i..].chars().take_while(|c| c.is_ascii_digit()).collect();
    digits.parse().ok()
}

/// height after the byte when the prediction failed: one run with more POPs than any stack can hold;
/// the pc of the POP that underflows gives the height
fn measure_height(cx: &mut Ctx, seq: u64, b: u8, h: usize, lines: &mut Vec<String>) -> Option<Pred> {
    let prog = cell_program(b, h, &Asm::default().rep(op::POP, SPEC_STACK_LIMIT + 8).op(op::STOP).0);
    let first_pop = prog.len() - (SPEC_STACK_LIMIT + 8) - 1;
    let r = run_program(cx, seq, &prog, &[], lines)?;
    match (r.code.value(), abort_pc(&r.message)) {
        (STACK_UNDERFLOW, Some(pc)) if pc >= first_pop => Some(Pred::Next(pc - first_pop)),
        (0, _) => Some(Pred::Next(usize::MAX)),
        (c, _) => Some(Pred::Ends(c)),
    }
}

struct Cell {
    seq: u64,
    b: u8,
    h: usize,
    spec: Pred,
    model_line: Option<String>,
    guide: Pred,
    /// offsets inside the shared contract
    start: usize,
    op_pc: usize,
    first_pop: usize,
    end_pc: usize,
}

/// A batch of matrix cells shares one contract: `PUSH0 CALLDATALOAD JUMP` dispatches on the calldata word
/// to `JUMPDEST PUSH0×h <byte> [push filler] POP×(p+1) INVALID` (p = predicted height) or
/// `JUMPDEST PUSH0×h <byte> [filler] INVALID` when the byte is predicted to end the activation.
/// The exit code together with the failing pc tells what happened: underflow at the last POP = height p.
fn matrix_batch(cx: &mut Ctx, seqs: &[u64]) {
    let mut code = vec![op::PUSH0, op::CALLDATALOAD, op::JUMP];
    let mut cells: Vec<Cell> = vec![];
    for &seq in seqs {
        let b = (seq / 32) as u8;
        let h = HEIGHTS[(seq % 32) as usize];
        let spec = spec_predict(b, h);
        let model_line = cx.ask(&format!("stack {} {}", b, h));
        // observe guided by the model's prediction when there is one (a wrong spec table cannot hide a difference)
        let guide = model_line.as_deref().and_then(model_pred).unwrap_or(spec.clone());
        let start = code.len();
        code.push(op::JUMPDEST);
        code.extend(std::iter::repeat(op::PUSH0).take(h));
        let op_pc = code.len();
        code.push(b);
        if (op::PUSH1..=op::PUSH32).contains(&b) {
            code.extend(std::iter::repeat(0u8).take((b - op::PUSH1) as usize + 1));
        }
        let first_pop = code.len();
        if let Pred::Next(p) = &guide {
            code.extend(std::iter::repeat(op::POP).take(*p + 1));
        }
        let end_pc = code.len();
        code.push(0xfe);
        cells.push(Cell { seq, b, h, spec, model_line, guide, start, op_pc, first_pop, end_pc });
    }
    let first = seqs[0];
    cx.begin(first);
    cx.rep.sequences -= 1;
    let mut lines = vec![format!("# matrix batch of {} cells (first: byte 0x{:02x} height {})", cells.len(), cells[0].b, cells[0].h)];
    lines.push(format!("deploy {}", hex(&code)));
    let (rd, c) = cx.evm.deploy(&code, &TokenAmount::zero());
    if !cx.check_defined(first, "deploy", &rd, &lines) {
        return;
    }
    let c = match c {
        Some(c) => c,
        None => {
            cx.violation(first, "deploy-failed", format!("installing the matrix contract failed with {} {}", rd.code.value(), rd.message), &lines);
            return;
        }
    };
    for cell in cells {
        let seq = cell.seq;
        cx.tick(seq);
        cx.rep.op("matrix-cell");
        let mut cd = [0u8; 32];
        cd[24..].copy_from_slice(&(cell.start as u64).to_be_bytes());
        let mut cl = lines.clone();
        cl.push(format!("# cell byte 0x{:02x} height {}: spec {:?}, model {:?}", cell.b, cell.h, cell.spec, cell.model_line));
        cl.push(format!("invoke {} {}", c.id, hex(&cd)));
        let r = cx.evm.invoke(&c.id, &cd, &TokenAmount::zero());
        if !cx.check_defined(seq, "invoke", &r, &cl) {
            if r.panicked { return; }
            continue;
        }
        let code_v = r.code.value();
        let pc = abort_pc(&r.message);
        let real: Option<Pred> = if code_v == 0 {
            Some(Pred::Ends(0))
        } else if pc == Some(cell.op_pc) || ((op::PUSH0..=op::PUSH32).contains(&cell.b) && pc == Some(cell.op_pc + 1)) {
            // (def_push! advances pc before the push can fail)
            Some(Pred::Ends(code_v))
        } else if code_v == STACK_UNDERFLOW && pc.map(|x| x >= cell.first_pop && x < cell.end_pc).unwrap_or(false) {
            Some(Pred::Next(pc.unwrap() - cell.first_pop))
        } else if code_v == REVERTED && pc.is_none() {
            Some(Pred::Ends(REVERTED))
        } else {
            None // ran into the trailing INVALID (more values than predicted) or an unexpected place
        };
        let real = match real {
            Some(x) => x,
            None => match measure_height(cx, seq, cell.b, cell.h, &mut cl) {
                Some(x) => x,
                None => continue,
            },
        };
        cl.push(format!("# observed {:?} (exit {} pc {:?})", real, code_v, pc));
        if real != cell.spec {
            let kind = match (&real, &cell.spec) {
                (Pred::Next(n), _) if *n > SPEC_STACK_LIMIT => "stack-exceeds-1024",
                (Pred::Next(_), Pred::Ends(STACK_OVERFLOW)) => "stack-overflow-not-rejected",
                (Pred::Next(_), Pred::Ends(STACK_UNDERFLOW)) => "stack-underflow-not-rejected",
                (Pred::Next(_), Pred::Next(_)) => "stack-effect-differs-from-specification",
                _ => "outcome-differs-from-specification",
            };
            cx.violation(seq, kind, format!("byte 0x{:02x} at height {}: observed {:?}, specified {:?}", cell.b, cell.h, real, cell.spec), &cl);
            continue;
        }
        if let Some(ml) = cell.model_line {
            if model_pred(&ml).as_ref() != Some(&real) {
                cx.disagreement(seq, &format!("stack {} {}", cell.b, cell.h), format!("{:?}", real), ml, &cl);
                continue;
            }
            cx.rep.traces_validated += 1;
        }
        let _ = cell.guide;
        match real {
            Pred::Next(_) => { cx.rep.branch("cell:continues"); cx.rep.distinct_nontrivial += 1; }
            Pred::Ends(c) => cx.rep.branch(&format!("cell:ends-{}", c)),
        }
    }
}

/// all matrix cells, packed into contracts below the code-size limit (SELFDESTRUCT cells on their own)
fn matrix_all(cx: &mut Ctx, limit: u64) {
    let mut batch: Vec<u64> = vec![];
    let mut size = 0usize;
    for seq in 0..limit {
        let hi = (seq % 32) as usize;
        if hi >= HEIGHTS.len() {
            continue;
        }
        let b = (seq / 32) as u8;
        let est = 2 * HEIGHTS[hi] + 40;
        let alone = b == op::SELFDESTRUCT;
        if !batch.is_empty() && (alone || size + est > 20_000) {
            matrix_batch(cx, &batch);
            batch.clear();
            size = 0;
        }
        batch.push(seq);
        size += est;
        if alone {
            matrix_batch(cx, &batch);
            batch.clear();
            size = 0;
        }
        if cx.rep.violations.len() >= 20 || cx.rep.disagreements.len() >= 20 {
            return;
        }
    }
    if !batch.is_empty() {
        matrix_batch(cx, &batch);
    }
}

// ------------------------------------------------------------------------------------ jump variants

/// independent decoding: instruction boundaries and the valid jump destinations
fn boundaries(code: &[u8]) -> Vec<bool> {
    let mut bd = vec![false; code.len()];
    let mut i = 0;
    while i < code.len() {
        bd[i] = true;
        let b = code[i];
        i += if (op::PUSH1..=op::PUSH32).contains(&b) { (b - op::PUSH1) as usize + 2 } else { 1 };
    }
    bd
}
fn spec_jumpdests(code: &[u8]) -> BTreeSet<usize> {
    let bd = boundaries(code);
    (0..code.len()).filter(|i| bd[*i] && code[*i] == op::JUMPDEST).collect()
}

fn jump_variants() -> Vec<(&'static str, Vec<u8>, u32)> {
    let a = Asm::default;
    vec![
        ("jump to a jumpdest", a().push(3).op(op::JUMP).op(op::JUMPDEST).op(op::STOP).0, 0),
        ("jump to a non-jumpdest", a().push(4).op(op::JUMP).op(op::JUMPDEST).op(op::STOP).0, BAD_JUMPDEST),
        ("jump into push data holding 0x5b", a().push(4).op(op::JUMP).ops(&[0x60, 0x5b, op::STOP]).0, BAD_JUMPDEST),
        ("jump into push32 data holding 0x5b", a().push(10).op(op::JUMP).op(op::PUSH32).rep(0x5b, 32).op(op::STOP).0, BAD_JUMPDEST),
        ("jumpi taken to a jumpdest", a().push(1).push(5).op(op::JUMPI).op(op::JUMPDEST).op(op::STOP).0, 0),
        ("jumpi taken to a non-jumpdest", a().push(1).push(6).op(op::JUMPI).op(op::JUMPDEST).op(op::STOP).0, BAD_JUMPDEST),
        ("jumpi not taken with a bad destination", a().push(0).push(200).op(op::JUMPI).op(op::STOP).0, 0),
        ("jumpi taken into push data", a().push(1).push(6).op(op::JUMPI).ops(&[0x61, 0x5b, 0x5b, op::STOP]).0, BAD_JUMPDEST),
        ("jump beyond the code", a().push(1000).op(op::JUMP).op(op::JUMPDEST).0, BAD_JUMPDEST),
        ("jump to 2^64", a().push(1u128 << 64).op(op::JUMP).op(op::JUMPDEST).0, BAD_JUMPDEST),
        ("jump to 2^256-1", a().push_bytes(&[0xff; 32]).op(op::JUMP).op(op::JUMPDEST).0, BAD_JUMPDEST),
        ("jump to 2^32 + 3 (no truncation)", a().push((1u128 << 32) + 7).op(op::JUMP).op(op::JUMPDEST).op(op::STOP).0, BAD_JUMPDEST),
        ("jump into a truncated trailing push", a().push(4).op(op::JUMP).ops(&[0x62, 0x5b]).0, BAD_JUMPDEST),
        ("jump to a jumpdest that is the last byte", a().push(3).op(op::JUMP).op(op::JUMPDEST).0, 0),
        ("jumpdest after a truncated-looking push1", a().push(5).op(op::JUMP).ops(&[0x60, 0x5b, op::JUMPDEST, op::STOP]).0, 0),
        ("jump with an empty stack", vec![op::JUMP], STACK_UNDERFLOW),
        ("jumpi with one operand", a().push(0).op(op::JUMPI).0, STACK_UNDERFLOW),
        ("code ending in a truncated push32", a().op(op::PUSH32).ops(&[1, 2, 3]).0, 0),
        ("code ending in a bare push1", vec![0x60], 0),
        ("push at the stack limit", a().rep(op::PUSH0, 1024).ops(&[0x60]).0, STACK_OVERFLOW),
    ]
}

fn jump_variant(cx: &mut Ctx, seq: u64, idx: usize) {
    let vs = jump_variants();
    if idx >= vs.len() {
        return;
    }
    let (name, code, want) = vs[idx].clone();
    cx.begin(seq);
    cx.rep.op("jump-variant");
    let mut lines = vec![format!("# jump variant: {}", name)];
    let r = match run_program(cx, seq, &code, &[], &mut lines) {
        Some(r) => r,
        None => return,
    };
    if r.code.value() != want {
        let kind = if want == BAD_JUMPDEST { "jump-landed-on-non-jumpdest" } else { "outcome-differs-from-specification" };
        cx.violation(seq, kind, format!("{}: exit {} expected {}", name, r.code.value(), want), &lines);
        return;
    }
    if let Some(m) = cx.ask(&format!("run {} 5000 0", hex(&code))) {
        match model_run(&m) {
            Some((c, _)) if c == r.code.value() => cx.rep.traces_validated += 1,
            _ => cx.disagreement(seq, &format!("run {}", hex(&code)), format!("exit {}", r.code.value()), m, &lines),
        }
    }
    cx.rep.distinct_nontrivial += 1;
}

// ------------------------------------------------------------------------------------ memory guard

const U32MAX: u128 = 0xffff_ffff;

/// (opcode byte, operands pushed bottom-first as (is_off, is_size, const) placeholders)
/// The program pushes the operands so that the *top* is the first Rust parameter.
fn mem_ops() -> Vec<(&'static str, u8, Vec<&'static str>)> {
    // operand names top-first: "off" / "size" are replaced; "0" literal zero; "w" = 32
    vec![
        ("MLOAD", 0x51, vec!["off"]),
        ("MSTORE", 0x52, vec!["off", "0"]),
        ("MSTORE8", 0x53, vec!["off", "0"]),
        ("KECCAK256", 0x20, vec!["off", "size"]),
        ("CALLDATACOPY", 0x37, vec!["off", "0", "size"]),
        ("CODECOPY", 0x39, vec!["off", "0", "size"]),
        ("EXTCODECOPY", 0x3c, vec!["0", "off", "0", "size"]),
        ("RETURNDATACOPY", 0x3e, vec!["off", "0", "size"]),
        ("MCOPY-dest", 0x5e, vec!["off", "0", "size"]),
        ("MCOPY-src", 0x5e, vec!["0", "off", "size"]),
        ("LOG0", 0xa0, vec!["off", "size"]),
        ("LOG2", 0xa2, vec!["off", "size", "0", "0"]),
        ("RETURN", 0xf3, vec!["off", "size"]),
        ("REVERT", 0xfd, vec!["off", "size"]),
        ("CREATE", 0xf0, vec!["0", "off", "size"]),
        ("CREATE2", 0xf5, vec!["0", "off", "size", "0"]),
        ("CALL-in", 0xf1, vec!["0", "0", "0", "off", "size", "0", "0"]),
        ("CALL-out", 0xf1, vec!["0", "0", "0", "0", "0", "off", "size"]),
        ("STATICCALL-in", 0xfa, vec!["0", "0", "off", "size", "0", "0"]),
        ("DELEGATECALL-out", 0xf4, vec!["0", "0", "0", "0", "off", "size"]),
    ]
}

/// (offset, size) pairs: small accepted ones and rejected ones (all rejected before allocating)
fn mem_pairs() -> Vec<(u128, u128)> {
    vec![
        (0, 0), (U32MAX, 0), (U32MAX + 1, 0), (u128::MAX, 0),
        (0, 1), (31, 1), (32, 1), (0, 33), (5, 64), (100, 1000),
        (U32MAX, 1), (U32MAX + 1, 1), (U32MAX - 30, 32), (1, U32MAX), (0, U32MAX + 1),
        (1u128 << 64, 1), (5, 1u128 << 64), (u128::MAX, u128::MAX), (U32MAX, U32MAX),
    ]
}

fn mem_case(cx: &mut Ctx, seq: u64, idx: usize) {
    let ops = mem_ops();
    let pairs = mem_pairs();
    if idx >= ops.len() * pairs.len() {
        return;
    }
    let (name, b, operands) = ops[idx / pairs.len()].clone();
    let (off, size) = pairs[idx % pairs.len()];
    cx.begin(seq);
    cx.rep.op("memory-guard");
    let val = |o: &str| -> u128 {
        match o {
            "off" => off,
            "size" => size,
            _ => 0,
        }
    };
    // fixed-size accesses: the size operand is implicit
    let implicit = match b { 0x51 | 0x52 => Some(32u128), 0x53 => Some(1), _ => None };
    let eff_size = implicit.unwrap_or(size);
    // independent expectation
    let rejected = eff_size > U32MAX || (eff_size != 0 && (off > U32MAX || off + eff_size > U32MAX));
    // RETURNDATACOPY with a non-zero size on empty return data fails (also 38) — keep only size 0 / rejected cases
    if b == 0x3e && !rejected && eff_size != 0 {
        return;
    }
    let new_mem: u128 = if rejected || eff_size == 0 { 0 } else { (off + eff_size).div_ceil(32) * 32 };
    if new_mem > (1 << 20) || (b == 0x5e && eff_size > (1 << 20) && eff_size <= U32MAX) {
        // (MCOPY touches a second region of the same size at offset 0)
        return; // accepted but huge: would really allocate (no gas natively)
    }
    let mut p = Asm::default();
    for o in operands.iter().rev() {
        p = p.push(val(o));
    }
    p = p.op(b);
    let halts = matches!(b, 0xf3 | 0xfd);
    if !halts {
        // report MSIZE
        p = p.op(op::MSIZE).push(0).op(op::MSTORE).push(32).push(0).op(op::RETURN);
    }
    let code = p.0;
    let mut lines = vec![format!("# memory guard: {} offset {} size {}", name, off, size)];
    let r = match run_program(cx, seq, &code, &[], &mut lines) {
        Some(r) => r,
        None => return,
    };
    let want = if rejected { ILLEGAL_MEMORY_ACCESS } else if b == 0xfd { REVERTED } else { 0 };
    if r.code.value() != want {
        let kind = if rejected { "memory-access-beyond-32-bit-limit-not-rejected" } else { "memory-access-wrongly-rejected" };
        cx.violation(seq, kind, format!("{} offset {} size {}: exit {} expected {}", name, off, size, r.code.value(), want), &lines);
        return;
    }
    let mut observed_mem = None;
    if !rejected && !halts {
        let out = ret_bytes(&r);
        if out.len() == 32 {
            let m = u128::from_be_bytes(out[16..32].try_into().unwrap());
            observed_mem = Some(m);
            if m != new_mem {
                cx.violation(seq, "memory-size-not-32-aligned-end", format!("{} offset {} size {}: MSIZE {} expected {}", name, off, size, m, new_mem), &lines);
                return;
            }
        }
    }
    // model: one step on the explicit stack (top first)
    let stack: Vec<String> = operands.iter().map(|o| val(o).to_string()).collect();
    if let Some(m) = cx.ask(&format!("step {} 0 {}", b, stack.join(","))) {
        let mp = model_pred(&m);
        let agree = match (&mp, rejected) {
            (Some(Pred::Ends(c)), true) => *c == ILLEGAL_MEMORY_ACCESS,
            (Some(Pred::Ends(c)), false) => halts && *c == want,
            (Some(Pred::Next(_)), false) => !halts && observed_mem.map(|o| Some(o as u64) == field(&m, "mem=")).unwrap_or(true),
            _ => false,
        };
        if agree { cx.rep.traces_validated += 1 } else {
            cx.disagreement(seq, &format!("step {} 0 {}", b, stack.join(",")), format!("exit {} msize {:?}", r.code.value(), observed_mem), m, &lines);
            return;
        }
    }
    cx.rep.branch(if rejected { "mem:rejected" } else if eff_size == 0 { "mem:empty-region" } else { "mem:grown" });
    cx.rep.distinct_nontrivial += 1;
}

// ------------------------------------------------------------------------------------ (ii) arbitrary bytes

/// make every jump go forward so that natively (no gas) the program terminates: a JUMP/JUMPI stays if no
/// JUMPDEST lies at or before it, or if it is fed by an immediately preceding PUSH of a larger offset;
/// otherwise the byte is replaced by POP / ADD-like stack equivalents.  PUSH3+ constants in
/// [2^16, 2^32 + 2^16) are moved out of that band so a memory instruction cannot allocate gigabytes.
fn sanitize(code: &mut [u8]) {
    let bd = boundaries(code);
    let mut first_jd: Option<usize> = None;
    let mut prev: Option<usize> = None;
    let mut i = 0;
    while i < code.len() {
        if !bd[i] {
            i += 1;
            continue;
        }
        let b = code[i];
        if b == op::GAS {
            // the vvm answers GAS with u32::MAX — the largest size get_memory_region accepts; as a size
            // operand it makes the interpreter really allocate 4 GiB (no gas natively): use PC instead
            code[i] = 0x58;
        }
        if b == op::JUMPDEST && first_jd.is_none() {
            first_jd = Some(i);
        }
        if (0x62..=op::PUSH32).contains(&b) {
            let n = (b - op::PUSH1) as usize + 1;
            let end = (i + 1 + n).min(code.len());
            let data = &code[i + 1..end];
            // value with right zero padding, compared through its significant length
            let mut padded = vec![0u8; n];
            padded[..data.len()].copy_from_slice(data);
            let lead = padded.iter().take_while(|x| **x == 0).count();
            let sig = n - lead;
            let danger = sig == 3 || sig == 4 || (sig == 5 && padded[lead] == 1 && padded[lead + 1] == 0 && padded[lead + 2] == 0);
            if danger && i + 1 < code.len() {
                if n >= 6 && i + 1 < end {
                    code[i + 1] = 0xff; // far above 2^32: rejected before allocating
                } else {
                    for k in (i + 1)..end.min(i + 1 + n.saturating_sub(2)) {
                        code[k] = 0; // below 2^16
                    }
                }
            }
        }
        if b == op::JUMP || b == op::JUMPI {
            let forward_const = prev.map(|p| {
                let pb = code[p];
                if pb == op::PUSH0 {
                    return false;
                }
                if !(op::PUSH1..=op::PUSH32).contains(&pb) {
                    return false;
                }
                let n = (pb - op::PUSH1) as usize + 1;
                let data = &code[p + 1..(p + 1 + n).min(code.len())];
                if data.len() < n {
                    return false;
                }
                let lead = data.iter().take_while(|x| **x == 0).count();
                if n - lead > 8 {
                    return true; // huge: always rejected
                }
                let mut v: u64 = 0;
                for x in &data[lead..] {
                    v = (v << 8) | *x as u64;
                }
                v as usize > i
            }).unwrap_or(false);
            let no_jd_before = first_jd.is_none();
            if !(forward_const || no_jd_before) {
                code[i] = if b == op::JUMP { op::POP } else { 0x01 };
            }
        }
        prev = Some(i);
        i += 1;
    }
}

const GRAMMAR_OPS: [u8; 40] = [
    0x01, 0x02, 0x03, 0x04, 0x06, 0x10, 0x14, 0x15, 0x16, 0x19, 0x1b, 0x20, 0x30, 0x33, 0x34, 0x35, 0x36, 0x38,
    0x3d, 0x43, 0x46, 0x47, 0x50, 0x51, 0x52, 0x53, 0x54, 0x55, 0x58, 0x59, 0x5a, 0x5c, 0x5d, 0x80, 0x81, 0x90,
    0x91, 0xa0, 0xa1, 0x5b,
];

/// a mostly valid program: pushes of small constants, arithmetic, memory/storage traffic, forward jumps
fn grammar_program(r: &mut Rng) -> Vec<u8> {
    let mut p = Asm::default();
    let n = r.range(3, 60);
    let mut pending_dest: Vec<usize> = vec![];
    for _ in 0..n {
        match r.below(10) {
            0..=3 => {
                let v = match r.below(6) {
                    0 => 0,
                    1 => r.below(256) as u128,
                    2 => r.below(4096) as u128,
                    3 => 32 * r.below(16) as u128,
                    4 => u128::MAX >> r.below(100),
                    _ => r.below(65536) as u128,
                };
                p = p.push(v);
            }
            4 => {
                // forward jump over a few bytes: PUSH2 dest JUMP(I) ... JUMPDEST (patched below)
                if r.chance(1, 2) { p = p.push(r.below(2) as u128); p = p.ops(&[0x61, 0, 0, op::JUMPI]); } else { p = p.ops(&[0x61, 0, 0, op::JUMP]); }
                pending_dest.push(p.0.len() - 3);
            }
            5 if !pending_dest.is_empty() => {
                let at = pending_dest.remove(0);
                let here = p.0.len();
                p.0[at] = (here >> 8) as u8;
                p.0[at + 1] = here as u8;
                p = p.op(op::JUMPDEST);
            }
            _ => p = p.op(*r.pick(&GRAMMAR_OPS)),
        }
    }
    for at in pending_dest {
        let here = p.0.len();
        p.0[at] = (here >> 8) as u8;
        p.0[at + 1] = here as u8;
        p = p.op(op::JUMPDEST);
    }
    match r.below(4) {
        0 => p = p.push(32).push(0).op(op::RETURN),
        1 => p = p.push(0).push(0).op(0xfd),
        2 => p = p.op(op::STOP),
        _ => {}
    }
    p.0
}

fn random_bytes(r: &mut Rng, n: usize) -> Vec<u8> {
    (0..n).map(|_| r.next() as u8).collect()
}

fn fuzz_program(r: &mut Rng) -> (String, Vec<u8>) {
    let (kind, code) = match r.below(8) {
        0 | 1 => ("uniform", { let n = r.range(0, 96) as usize; random_bytes(r, n) }),
        2 => ("defined-opcodes", {
            // uniform over the defined opcodes (so programs run longer than a couple of instructions)
            let n = r.range(1, 80) as usize;
            (0..n).map(|_| loop { let b = r.next() as u8; if spec_arity(b).is_some() { break b; } }).collect()
        }),
        3 | 4 => ("grammar", grammar_program(r)),
        5 => ("mutated", {
            let mut c = grammar_program(r);
            for _ in 0..r.range(1, 4) {
                if c.is_empty() { break; }
                let i = r.below(c.len() as u64) as usize;
                match r.below(4) {
                    0 => c[i] = r.next() as u8,
                    1 => c[i] ^= 1 << r.below(8),
                    2 => { c.remove(i); }
                    _ => c.insert(i, r.next() as u8),
                }
            }
            c
        }),
        6 => ("truncated-push", {
            let mut c = if r.chance(1, 2) { grammar_program(r) } else { let n = r.range(0, 40) as usize; random_bytes(r, n) };
            let n = r.range(1, 32) as u8;
            c.push(op::PUSH1 + n - 1);
            let have = r.below(n as u64) as usize;
            for _ in 0..have { c.push(if r.chance(1, 2) { op::JUMPDEST } else { r.next() as u8 }); }
            c
        }),
        _ => ("jumpdest-dense", {
            let n = r.range(4, 64) as usize;
            (0..n).map(|_| match r.below(5) { 0 => op::JUMPDEST, 1 => op::PUSH1 + r.below(32) as u8, 2 => op::PUSH0, 3 => op::JUMP, _ => r.next() as u8 }).collect()
        }),
    };
    (kind.to_string(), code)
}

fn fuzz_case(cx: &mut Ctx, seq: u64) {
    cx.begin(seq);
    let mut r = seq_rng(cx.cfg.seed, seq);
    let (kind, body) = fuzz_program(&mut r);
    cx.rep.op(&format!("fuzz:{}", kind));
    let mut lines = vec![format!("# arbitrary bytes ({}): {}", kind, hex(&body))];
    if std::env::var("BA_C18_TRACE").is_ok() {
        eprintln!("{}", lines[0]);
    }
    // (a) as init code
    let mut init = body.clone();
    sanitize(&mut init);
    lines.push(format!("create-raw {}", hex(&init)));
    let (ra, _) = cx.evm.create_raw(&init, &TokenAmount::zero());
    if !cx.check_defined(seq, "initcode", &ra, &lines) {
        return;
    }
    // (b) as runtime code behind a calldata-driven dispatcher: PUSH0 CALLDATALOAD JUMP
    let mut code = vec![op::PUSH0, op::CALLDATALOAD, op::JUMP];
    code.extend_from_slice(&body);
    sanitize(&mut code); // absolute offsets: the dispatcher's JUMP precedes every JUMPDEST
    // the probed contract must survive its probes: SELFDESTRUCT -> POP here (kept in the init-code run above
    // and in the second deployment below)
    let with_selfdestruct = code.clone();
    {
        let bd = boundaries(&code);
        for i in 0..code.len() {
            if bd[i] && code[i] == op::SELFDESTRUCT {
                code[i] = op::POP;
            }
        }
    }
    lines.push(format!("deploy {}", hex(&code)));
    let (rd, c) = cx.evm.deploy(&code, &TokenAmount::zero());
    if !cx.check_defined(seq, "deploy", &rd, &lines) {
        return;
    }
    let c = match c {
        Some(c) => c,
        None => {
            cx.violation(seq, "deploy-failed", format!("installing runtime code failed with {} {}", rd.code.value(), rd.message), &lines);
            return;
        }
    };
    // jumpdest sets: independent decoding, model, and the real code through probing jumps
    let spec_jd = spec_jumpdests(&code);
    let model_jd: Option<BTreeSet<usize>> = cx.ask(&format!("analyze {}", hex(&code))).map(|m| {
        m.strip_prefix("ok ").map(|s| if s == "-" { BTreeSet::new() } else { s.split(',').filter_map(|x| x.parse().ok()).collect() }).unwrap_or_default()
    });
    if let Some(mj) = &model_jd {
        if *mj != spec_jd {
            cx.disagreement(seq, &format!("analyze {}", hex(&code)), format!("{:?}", spec_jd), format!("{:?}", mj), &lines);
            return;
        }
    }
    // probes: every 0x5b byte (valid or inside push data), plus a few others; cheap because programs are short
    let mut probes: Vec<usize> = (0..code.len()).filter(|i| code[*i] == op::JUMPDEST).collect();
    for _ in 0..4 { probes.push(r.below(code.len() as u64 + 4) as usize); }
    probes.truncate(12);
    let mut agree = true;
    for d in probes {
        let mut cd = [0u8; 32];
        cd[24..].copy_from_slice(&(d as u64).to_be_bytes());
        lines.push(format!("invoke {} {}", c.id, hex(&cd)));
        let rr = cx.evm.invoke(&c.id, &cd, &TokenAmount::zero());
        if !cx.check_defined(seq, "probe", &rr, &lines) {
            return;
        }
        // the dispatcher's JUMP sits at pc 2: rejected there <=> exit 39 with ABORT(pc=2)
        let rejected_at_dispatch = rr.code.value() == BAD_JUMPDEST && rr.message.contains("ABORT(pc=2)");
        let valid = spec_jd.contains(&d);
        if valid == rejected_at_dispatch {
            let kind = if valid { "jump-to-genuine-jumpdest-rejected" } else { "jump-landed-on-non-jumpdest" };
            cx.violation(seq, kind, format!("offset {} of {}: valid per decoding = {}, exit {} {}", d, hex(&code), valid, rr.code.value(), rr.message.chars().take(80).collect::<String>()), &lines);
            return;
        }
        if let Some(mj) = &model_jd {
            if mj.contains(&d) == rejected_at_dispatch { agree = false; }
        }
    }
    // random calldata (word 0 is the jump target: mostly garbage → rejected at pc 2, sometimes a valid one),
    // on a second deployment that keeps SELFDESTRUCT
    let c = if with_selfdestruct != code {
        lines.push(format!("deploy {}", hex(&with_selfdestruct)));
        let (rd, c2) = cx.evm.deploy(&with_selfdestruct, &TokenAmount::from_atto(5));
        if !cx.check_defined(seq, "deploy", &rd, &lines) {
            return;
        }
        match c2 { Some(c2) => c2, None => c }
    } else { c };
    for _ in 0..2 {
        let cdlen = [0usize, 4, 32, 36, 68][r.below(5) as usize];
        let mut cd = random_bytes(&mut r, cdlen);
        if cd.len() >= 32 && r.chance(2, 3) && !spec_jd.is_empty() {
            let d = *spec_jd.iter().nth(r.below(spec_jd.len() as u64) as usize).unwrap();
            cd[..32].copy_from_slice(&{ let mut w = [0u8; 32]; w[24..].copy_from_slice(&(d as u64).to_be_bytes()); w });
        }
        lines.push(format!("invoke {} {}", c.id, hex(&cd)));
        let rr = cx.evm.invoke(&c.id, &cd, &TokenAmount::zero());
        if !cx.check_defined(seq, "invoke", &rr, &lines) {
            return;
        }
    }
    if agree && model_jd.is_some() { cx.rep.traces_validated += 1; }
    if !spec_jd.is_empty() && cx.seen.insert(hash_lines(&[hex(&code)])) { cx.rep.distinct_nontrivial += 1; }
    if cx.rep.samples.len() < 3 && !spec_jd.is_empty() {
        cx.rep.samples.push(json!({"seq": seq, "kind": kind, "code": hex(&code), "jumpdests": spec_jd}));
    }
}

// ------------------------------------------------------------------------------------ (iii) read-only

#[derive(Clone, Copy, Debug, PartialEq, Eq)]
enum Effect { Sstore, Tstore, Log, Create, Create2, Selfdestruct, CallValue, CallActorValue }
const EFFECTS: [Effect; 8] = [Effect::Sstore, Effect::Tstore, Effect::Log, Effect::Create, Effect::Create2, Effect::Selfdestruct, Effect::CallValue, Effect::CallActorValue];

#[derive(Clone, Copy, Debug, PartialEq, Eq)]
enum Kind { Call, Delegate, Static }
impl Kind {
    fn name(&self) -> &'static str { match self { Kind::Call => "call", Kind::Delegate => "delegate", Kind::Static => "static" } }
}

/// contract that attempts `e` and then returns the word 1
fn effect_contract(e: Effect, sink_eth: &[u8; 20], sink_id: ActorID) -> Vec<u8> {
    let a = Asm::default();
    let body = match e {
        Effect::Sstore => a.push(7).push(1).op(op::SSTORE),
        Effect::Tstore => a.push(7).push(1).op(op::TSTORE),
        Effect::Log => a.push(0xabcd).push(32).push(0).op(op::LOG1),
        Effect::Create => a.push(0).push(0).push(0).op(op::CREATE).op(op::POP),
        Effect::Create2 => a.push(5).push(0).push(0).push(0).op(op::CREATE2).op(op::POP),
        Effect::Selfdestruct => a.push_bytes(sink_eth).op(op::SELFDESTRUCT),
        Effect::CallValue => a.push(0).push(0).push(0).push(0).push(1).push_bytes(sink_eth).op(op::GAS).op(op::CALL).op(op::POP),
        Effect::CallActorValue => {
            // call_actor_id precompile (0xfe..05) by DELEGATECALL: method 0 (send), value 1, flags 0, codec 0,
            // params offset 192, actor id; params length 0
            let words: [u128; 7] = [0, 1, 0, 0, 192, sink_id as u128, 0];
            let mut p = a;
            for (i, w) in words.iter().enumerate() {
                p = p.push(*w).push(32 * i as u128).op(op::MSTORE);
            }
            let mut pre = [0u8; 20];
            pre[0] = 0xfe;
            pre[19] = 5;
            // DELEGATECALL(gas, dst, ioff, isz, ooff, osz): out word at 0x100
            p.push(32).push(0x100).push(224).push(0).push_bytes(&pre).op(op::GAS).op(op::DELEGATECALL).op(op::POP)
        }
    };
    body.push(1).push(0).op(op::MSTORE).push(32).push(0).op(op::RETURN).0
}

/// relay: calls `target` with `kind`, returns [success flag, first word the callee returned]
fn relay_contract(kind: Kind, target: &[u8; 20]) -> Vec<u8> {
    let mut p = Asm::default().push(32).push(32).push(0).push(0);
    if kind == Kind::Call {
        p = p.push(0);
    }
    p = p.push_bytes(target).op(op::GAS).op(match kind { Kind::Call => op::CALL, Kind::Delegate => op::DELEGATECALL, Kind::Static => op::STATICCALL });
    p.push(0).op(op::MSTORE).push(64).push(0).op(op::RETURN).0
}

#[derive(Clone, Debug, PartialEq, Eq)]
struct Snapshot {
    actors: BTreeMap<String, (String, String)>, // address -> (state cid, balance)
    slots: BTreeMap<String, Option<String>>,
}

fn snapshot(evm: &Evm, contracts: &[Contract], exclude: &Address) -> Snapshot {
    let mut actors = BTreeMap::new();
    for (a, st) in evm.w.vm.actor_states() {
        if a == *exclude {
            continue; // the message sender's nonce moves
        }
        actors.insert(a.to_string(), (st.state.to_string(), st.balance.atto().to_string()));
    }
    let mut slots = BTreeMap::new();
    for c in contracts {
        slots.insert(format!("{}#1", c.id), evm.storage_at(&c.id, 1));
    }
    Snapshot { actors, slots }
}

fn count_events(t: &InvocationTrace) -> usize {
    t.events.len() + t.subinvocations.iter().map(count_events).sum::<usize>()
}

/// follow the chain of EVM activations (InvokeContract / InvokeContractDelegate) `steps` levels down
fn descend<'t>(t: &'t InvocationTrace, steps: usize) -> Option<&'t InvocationTrace> {
    let mut cur = t;
    for _ in 0..steps {
        cur = cur.subinvocations.iter().find(|s| s.method == INVOKE || s.method == INVOKE_DELEGATE)?;
    }
    Some(cur)
}

fn readonly_case(cx: &mut Ctx, seq: u64) {
    cx.begin(seq);
    let mut r = seq_rng(cx.cfg.seed, seq);
    let idx = seq - 20000;
    let effect = EFFECTS[(idx % EFFECTS.len() as u64) as usize];
    // chain of relays above the effect contract: depth 1..4 kinds, one of which is (usually) static
    let depth = r.range(1, 4) as usize;
    let mut kinds: Vec<Kind> = (0..depth).map(|_| *r.pick(&[Kind::Call, Kind::Delegate, Kind::Static])).collect();
    let control = r.chance(1, 4); // no static call anywhere: the effect must be visible (non-vacuity of the oracle)
    if control {
        for k in kinds.iter_mut() { if *k == Kind::Static { *k = if r.chance(1, 2) { Kind::Call } else { Kind::Delegate }; } }
    } else if !kinds.contains(&Kind::Static) {
        let at = r.below(depth as u64) as usize;
        kinds[at] = Kind::Static;
    }
    let beneath_static = kinds.contains(&Kind::Static);
    cx.rep.op(&format!("readonly:{:?}", effect));
    let fresh = Evm::with_depth(64);
    let old = std::mem::replace(&mut cx.evm, fresh);
    drop(old);
    let mut lines = vec![format!("# read-only chain {:?} above {:?}", kinds.iter().map(|k| k.name()).collect::<Vec<_>>(), effect)];
    // a sink account that would receive value
    let sink = cx.evm.w.create_accounts(1, 777, &TokenAmount::from_atto(1000))[0].0;
    let sink_id = sink.id().unwrap();
    let mut sink_eth = [0u8; 20];
    sink_eth[0] = 0xff;
    sink_eth[12..].copy_from_slice(&sink_id.to_be_bytes());
    // deploy bottom-up; every contract gets funds (value transfers / selfdestruct need a balance;
    // with DELEGATECALL the effect runs in a relay's context)
    let fund = TokenAmount::from_atto(100);
    let ecode = effect_contract(effect, &sink_eth, sink_id);
    lines.push(format!("deploy {}", hex(&ecode)));
    let (rd, c) = cx.evm.deploy(&ecode, &fund);
    if !cx.check_defined(seq, "deploy", &rd, &lines) { return; }
    let mut contracts = vec![match c { Some(c) => c, None => { cx.violation(seq, "deploy-failed", rd.message, &lines); return; } }];
    for k in kinds.iter().rev() {
        let code = relay_contract(*k, &contracts.last().unwrap().eth);
        lines.push(format!("deploy {}", hex(&code)));
        let (rd, c) = cx.evm.deploy(&code, &fund);
        if !cx.check_defined(seq, "deploy", &rd, &lines) { return; }
        contracts.push(match c { Some(c) => c, None => { cx.violation(seq, "deploy-failed", rd.message, &lines); return; } });
    }
    let top = contracts.last().unwrap().clone();
    let acct = cx.evm.acct;
    let before = snapshot(&cx.evm, &contracts, &acct);
    let n_actors_before = before.actors.len();
    cx.evm.w.take_trace();
    lines.push(format!("invoke {} -", top.id));
    let res = cx.evm.invoke(&top.id, &[], &TokenAmount::zero());
    if !cx.check_defined(seq, "invoke", &res, &lines) { return; }
    let trace = cx.evm.w.take_trace();
    let after = snapshot(&cx.evm, &contracts, &acct);
    let root = match trace.last() { Some(t) => t.clone(), None => { cx.violation(seq, "no-trace", String::new(), &lines); return; } };
    let events = count_events(&root);
    // the activation that ran the effect contract's code
    let attempt = descend(&root, kinds.len());
    let attempt_code = attempt.map(|t| t.exit_code.value());
    lines.push(format!("# top exit {} ; attempt exit {:?} ; events {} ; actors {} -> {}", res.code.value(), attempt_code, events, n_actors_before, after.actors.len()));
    let changed = before != after;
    // model: read-only flag at the attempting activation and the outcome of the effectful instruction there
    let model_ro = cx.ask(&format!("chain 0 {}", kinds.iter().map(|k| k.name()).collect::<Vec<_>>().join(",")));
    if beneath_static {
        // oracle: nothing may change anywhere, no event, and the attempt is seen to fail
        if changed {
            let diff: Vec<String> = after.actors.iter().filter(|(k, v)| before.actors.get(*k) != Some(v)).map(|(k, v)| format!("{} {:?} -> {:?}", k, before.actors.get(k), v)).chain(
                after.slots.iter().filter(|(k, v)| before.slots.get(*k) != Some(v)).map(|(k, v)| format!("{} {:?} -> {:?}", k, before.slots.get(k), v))).take(4).collect();
            cx.violation(seq, "state-changed-beneath-staticcall", format!("{:?} beneath {:?}: {}", effect, kinds.iter().map(|k| k.name()).collect::<Vec<_>>(), diff.join(" ; ")), &lines);
            return;
        }
        if events > 0 {
            cx.violation(seq, "event-emitted-beneath-staticcall", format!("{:?}: {} event(s) in the trace", effect, events), &lines);
            return;
        }
        match (effect, attempt_code) {
            (_, None) => { cx.violation(seq, "attempt-not-reached", format!("trace has no activation at depth {}", kinds.len()), &lines); return; }
            (Effect::CallActorValue, Some(_)) => {
                // the precompile reports the refused send in its output; the frame itself continues
            }
            (_, Some(0)) => { cx.violation(seq, "effect-attempt-succeeded-beneath-staticcall", format!("{:?} activation ended with exit 0", effect), &lines); return; }
            _ => {}
        }
    } else {
        // control: the effect must be observable, otherwise the oracle above is blind
        let visible = match effect {
            Effect::Log => events > 0,
            Effect::Tstore => attempt_code == Some(0), // transient data lives in the state only during the message
            _ => changed,
        };
        if !visible || res.code.value() != 0 {
            cx.violation(seq, "control-effect-not-observable", format!("{:?} without any static call: exit {} changed {} events {}", effect, res.code.value(), changed, events), &lines);
            return;
        }
    }
    // correspondence: flag at the attempt and error class of the guarded instruction
    if let Some(m) = model_ro {
        let want = format!("ok {}", if beneath_static { 1 } else { 0 });
        if m != want {
            cx.disagreement(seq, "chain", want, m, &lines);
            return;
        }
        let (b, stack) = match effect {
            Effect::Sstore => (op::SSTORE, "1,7"),
            Effect::Tstore => (op::TSTORE, "1,7"),
            Effect::Log => (op::LOG1, "0,32,43981"),
            Effect::Create => (op::CREATE, "0,0,0"),
            Effect::Create2 => (op::CREATE2, "0,0,0,5"),
            Effect::Selfdestruct => (op::SELFDESTRUCT, "1"),
            Effect::CallValue => (op::CALL, "0,1,1,0,0,0,0"),
            Effect::CallActorValue => (op::DELEGATECALL, "0,1,0,224,256,32"),
        };
        let line = format!("step {} {} {}", b, beneath_static as u8, stack);
        let m = cx.ask(&line).unwrap();
        let model_fails_ro = m.starts_with("fail read_only");
        let real_fails_ro = attempt_code == Some(READ_ONLY);
        if effect != Effect::CallActorValue && model_fails_ro != real_fails_ro {
            cx.disagreement(seq, &line, format!("attempt exit {:?}", attempt_code), m, &lines);
            return;
        }
        cx.rep.traces_validated += 1;
    }
    cx.rep.branch(if beneath_static { "ro:refused" } else { "ro:control-effect-visible" });
    if cx.seen.insert(hash_lines(&lines[..1])) { cx.rep.distinct_nontrivial += 1; }
    if cx.rep.samples.len() < 6 && beneath_static && kinds.len() >= 3 {
        cx.rep.samples.push(json!({"seq": seq, "chain": kinds.iter().map(|k| k.name()).collect::<Vec<_>>(), "effect": format!("{:?}", effect), "attempt_exit": attempt_code}));
    }
}

// ------------------------------------------------------------------------------------ driver

pub fn run(cfg: &RunCfg) -> Report {
    // deep recursion of nested activations runs on the native stack
    let cfg2 = cfg.clone();
    std::thread::Builder::new().stack_size(1 << 30).spawn(move || run_inner(&cfg2)).unwrap().join().expect("c18 harness thread")
}

fn run_inner(cfg: &RunCfg) -> Report {
    // watchdog: natively there is no gas; a case that runs away is reported instead of hanging the check
    std::thread::spawn(|| loop {
        std::thread::sleep(std::time::Duration::from_secs(2));
        let k = CURRENT_CASE.load(Ordering::SeqCst);
        let t0 = CASE_STARTED_MS.load(Ordering::SeqCst);
        if k != u64::MAX && t0 != 0 && now_ms().saturating_sub(t0) > 600_000 {
            eprintln!("c18 harness: case {} did not finish within 600 s (no gas natively) — aborting the run", k);
            std::process::exit(3);
        }
    });
    let mut rep = Report::new("C18", cfg.seed, &cfg.tier);
    rep.nontrivial_rule = "matrix cells in which the byte executes and execution continues; jump/memory cases; byte strings with at least one genuine JUMPDEST probed through the real interpreter; read-only chains (distinct chain+effect)".into();
    let lean = if cfg.use_lean { Some(LeanDriver::spawn("evmmachine").expect("lean driver")) } else { None };
    let mut cx = Ctx { cfg, rep, lean, evm: Evm::new(), seen: HashSet::new(), fresh_world_each_case: cfg.only_seq.is_some() };
    let (n_fuzz, n_ro) = if cfg.thorough() { (20_000u64, 2_000u64) } else { (600, 240) };
    let (n_fuzz, n_ro) = (n_fuzz * cfg.budget, n_ro * cfg.budget);
    let n_jump = jump_variants().len() as u64;
    let n_mem = (mem_ops().len() * mem_pairs().len()) as u64;
    let mut cases: Vec<u64> = vec![];
    match cfg.only_seq {
        Some(k) => cases.push(k),
        None => {
            let ph = std::env::var("BA_C18_PHASES").unwrap_or_else(|_| "matrix,jump,mem,ro,fuzz".into());
            let mlim: u64 = std::env::var("BA_C18_MLIM").ok().and_then(|x| x.parse().ok()).unwrap_or(8192);
            if ph.contains("matrix") { matrix_all(&mut cx, mlim); }
            if ph.contains("jump") { cases.extend(8192..8192 + n_jump); }
            if ph.contains("mem") { cases.extend(8300..8300 + n_mem); }
            if ph.contains("ro") { cases.extend(20000..20000 + n_ro); }
            if ph.contains("fuzz") { cases.extend(100_000..100_000 + n_fuzz); }
        }
    }
    for seq in cases {
        if cx.rep.violations.len() >= 20 || cx.rep.disagreements.len() >= 20 {
            break;
        }
        match seq {
            0..=8191 => { if ((seq % 32) as usize) < HEIGHTS.len() { matrix_batch(&mut cx, &[seq]) } }
            8192..=8299 => jump_variant(&mut cx, seq, (seq - 8192) as usize),
            8300..=8999 => mem_case(&mut cx, seq, (seq - 8300) as usize),
            20000..=99_999 => readonly_case(&mut cx, seq),
            100_000.. => fuzz_case(&mut cx, seq),
            _ => {}
        }
    }
    CURRENT_CASE.store(u64::MAX, Ordering::SeqCst);
    cx.rep.notes.push(format!("matrix: 256 bytes x {} heights exhaustive; {} jump variants; {} memory-guard cases", HEIGHTS.len(), n_jump, n_mem));
    cx.rep.notes.push("natively there is no gas: arbitrary byte strings are made forward-jumping (sanitize) and call depth is capped at 6".into());
    cx.rep
}
