//! Reward actor: `AwardBlockReward` on the real actor ⇄ Lean `BA.Reward.award`, plus independent
//! oracles ("the reward actor never pays out more than it holds"; nothing is lost when the miner
//! refuses the reward).  Sub-campaign of C01.
use super::{RunCfg, hash_lines, seq_rng};
use crate::chain::Chain;
use crate::lean::LeanDriver;
use crate::report::{Disagreement, Report, Violation, write_replay};
use crate::world::exit_class;
use fil_actor_reward::{AwardBlockRewardParams, Method as RewardMethod, State as RewardState};
use fil_actors_runtime::{BURNT_FUNDS_ACTOR_ADDR, REWARD_ACTOR_ADDR, SYSTEM_ACTOR_ADDR};
use fvm_shared::METHOD_SEND;
use fvm_shared::address::Address;
use fvm_shared::bigint::BigInt;
use fvm_shared::econ::TokenAmount;
use num_traits::{Signed, Zero};
use std::collections::HashSet;
use vm_api::VM;
use vm_api::util::get_state;

const APPLY_REWARDS: u64 = 14;

/// moves FIL between the reward actor and a vault account directly in the state tree so that the
/// reward actor holds exactly `target` (total FIL unchanged)
fn set_reward_balance(c: &Chain, vault: &Address, target: &TokenAmount) -> bool {
    let mut ra = c.w.vm.actor(&REWARD_ACTOR_ADDR).unwrap();
    let mut va = c.w.vm.actor(vault).unwrap();
    let diff = &ra.balance - target; // > 0: reward gives to the vault
    if (&va.balance + &diff).is_negative() {
        return false;
    }
    ra.balance = target.clone();
    va.balance = &va.balance + &diff;
    c.w.vm.set_actor(&REWARD_ACTOR_ADDR, ra);
    c.w.vm.set_actor(vault, va);
    true
}

pub fn run_as(cfg: &RunCfg, prop: &'static str, nseq: u64) -> Report {
    let mut rep = Report::new(prop, cfg.seed, &cfg.tier);
    rep.nontrivial_rule = "a sequence is non-trivial when at least one award was capped by the balance and one went to the burnt-funds actor".into();
    let mut lean = if cfg.use_lean { Some(LeanDriver::spawn("reward").expect("lean driver")) } else { None };
    let mut seen = HashSet::new();
    let steps = if cfg.thorough() { 120 } else { 40 };
    let seqs: Vec<u64> = match cfg.only_seq { Some(k) => vec![k], None => (0..nseq).collect() };
    'seqs: for seq in seqs {
        let mut r = seq_rng(cfg.seed ^ 0x5eed_0f_4e3a4d, seq);
        let mut c = Chain::new(5);
        let cm = c.create_miner(0, 1, &TokenAmount::from_whole(100));
        assert!(cm.ok(), "create miner failed: {:?}", cm);
        let miner = c.miners[0].id;
        // F1 compensation (known finding, see props/chain.rs): the miner reports its locked creation
        // deposit to the power actor; otherwise any penalty that unlocks vesting funds makes
        // ApplyRewards fail on the pledge-total underflow and the whole reward is burnt
        {
            let lf = c.miner_view(&miner).lf;
            let rr = c.w.apply(&miner, &fil_actors_runtime::STORAGE_POWER_ACTOR_ADDR, &TokenAmount::zero(),
                fil_actor_power::Method::UpdatePledgeTotal as u64,
                Some(fil_actor_power::UpdatePledgeTotalParams { pledge_delta: lf }));
            assert!(rr.ok(), "F1 compensation failed: {:?}", rr);
        }
        let vault = c.accounts[4].0;
        let unknown = Address::new_secp256k1(&[7u8; 65]).unwrap();
        let _ = c.w.take_trace();
        rep.sequences += 1;
        let mut lines: Vec<String> = vec![];
        let (mut capped_seen, mut burnt_seen) = (false, false);
        let mut agree = true;
        for step in 0..steps {
            // now and then the epoch moves on and cron recomputes this_epoch_reward
            if r.chance(1, 5) {
                c.set_epoch(c.epoch() + r.range(1, 3));
                let t = c.tick();
                if !t.ok() { rep.branch("tick-failed"); }
                let _ = c.w.take_trace();
            }
            let st: RewardState = get_state(&c.w.vm, &REWARD_ACTOR_ADDR).unwrap();
            let reward = st.this_epoch_reward.atto().clone();
            let wins: i64 = *r.pick(&[-1, 0, 1, 1, 1, 2, 3, 5, 7]);
            let gas = match r.below(5) {
                0 => BigInt::zero(),
                1 => BigInt::from(1),
                2 => BigInt::from(r.range(-3, 1000)),
                3 => BigInt::from(r.range(0, 1_000_000_000)) * BigInt::from(1_000_000_000u64),
                _ => &reward / 3,
            };
            let penalty = match r.below(6) { 0 => BigInt::from(-1), 1 | 2 => BigInt::from(r.range(0, 1_000_000)), _ => BigInt::zero() };
            let block: BigInt = if wins > 0 { (&reward * wins) / BigInt::from(5) /* reward ≥ 0, wins > 0: floor = truncation */ } else { BigInt::zero() };
            let expected = &gas + &block;
            let target: Option<BigInt> = match r.below(12) {
                0 => Some(BigInt::zero()),
                1 => Some(&gas - 1),
                2 => Some(gas.clone()),
                3 => Some(&gas + 1),
                4 => Some(&expected - 1),
                5 => Some(expected.clone()),
                6 => Some(&expected + 1),
                7 => Some(&expected * 2),
                8 => Some(&gas + &block / 2),
                _ => None,
            };
            if let Some(t) = target {
                let t = if t.is_negative() { BigInt::zero() } else { t };
                if !set_reward_balance(&c, &vault, &TokenAmount::from_atto(t)) { rep.branch("vault-empty"); }
            }
            let sys = !r.chance(1, 12);
            let resolves = !r.chance(1, 12);
            let fault_miner = r.chance(1, 3);
            let fault_burn = r.chance(1, 3);
            {
                let mut fp = c.w.vm.fault_plan.borrow_mut();
                fp.rules.clear();
                if fault_miner {
                    fp.rules.push(crate::vvm::FaultRule { from: REWARD_ACTOR_ADDR.id().ok(), to: miner.id().ok(), method: Some(APPLY_REWARDS), exit: 16, ..Default::default() });
                }
                if fault_burn {
                    fp.rules.push(crate::vvm::FaultRule { from: REWARD_ACTOR_ADDR.id().ok(), to: BURNT_FUNDS_ACTOR_ADDR.id().ok(), method: Some(METHOD_SEND), exit: 16, ..Default::default() });
                }
            }
            let bal0 = c.w.balance(&REWARD_ACTOR_ADDR);
            let total0 = c.w.total_balance();
            let burnt0 = c.w.balance(&BURNT_FUNDS_ACTOR_ADDR);
            let miner0 = c.w.balance(&miner);
            let line = format!("award {} {} {} {} {} {} {} {} {}", sys as u8, bal0.atto(), penalty, gas, reward, wins, resolves as u8, !fault_miner as u8, !fault_burn as u8);
            lines.push(line.clone());
            rep.op("award");
            rep.ops += 1;
            let res = c.w.apply(
                if sys { &SYSTEM_ACTOR_ADDR } else { &c.accounts[2].0 },
                &REWARD_ACTOR_ADDR,
                &TokenAmount::zero(),
                RewardMethod::AwardBlockReward as u64,
                Some(AwardBlockRewardParams {
                    miner: if resolves { miner } else { unknown },
                    penalty: TokenAmount::from_atto(penalty.clone()),
                    gas_reward: TokenAmount::from_atto(gas.clone()),
                    win_count: wins,
                }),
            );
            c.w.vm.fault_plan.borrow_mut().rules.clear();
            let traces = c.w.take_trace();
            let st1: RewardState = get_state(&c.w.vm, &REWARD_ACTOR_ADDR).unwrap();
            let bal1 = c.w.balance(&REWARD_ACTOR_ADDR);
            let total1 = c.w.total_balance();
            let burnt1 = c.w.balance(&BURNT_FUNDS_ACTOR_ADDR);
            let miner1 = c.w.balance(&miner);
            let hdr = vec![
                format!("property {} (reward sub-campaign) seed {} seq {} (re-run: ba_harness {} --seed {} --only-seq {})", prop, cfg.seed, super::seq_label(seq), prop.to_lowercase(), cfg.seed, super::seq_label(seq)),
                format!("failing step {}: {}  -> exit {} {}", step, line, res.code, res.message),
            ];
            let mut viol = |rep: &mut Report, kind: &str, detail: String, lines: &Vec<String>| {
                let path = write_replay(prop, &format!("reward-{}-{}", cfg.seed, seq), &hdr, lines);
                rep.violations.push(Violation { kind: kind.into(), detail, replay: path });
            };
            if res.panicked {
                viol(&mut rep, "reward-panic", res.message.clone(), &lines);
                continue 'seqs;
            }
            // ---- independent oracles
            if total0 != total1 {
                viol(&mut rep, "reward-fil-not-conserved", format!("total {} -> {}", total0.atto(), total1.atto()), &lines);
                continue 'seqs;
            }
            let paid = &bal0 - &bal1;
            if paid.is_negative() || paid > bal0 || bal1.is_negative() {
                viol(&mut rep, "reward-paid-more-than-held", format!("balance {} paid {}", bal0.atto(), paid.atto()), &lines);
                continue 'seqs;
            }
            let block_delta = &st1.total_storage_power_reward - &st.total_storage_power_reward;
            let impl_out;
            if res.ok() {
                rep.ops_ok += 1;
                // the sends the reward actor made
                let top = traces.last();
                let subs: Vec<_> = top.map(|t| t.subinvocations.iter().collect()).unwrap_or_default();
                let to_miner = subs.iter().find(|s| s.to == miner && s.method == APPLY_REWARDS);
                let to_burn = subs.iter().find(|s| s.to == BURNT_FUNDS_ACTOR_ADDR && s.method == METHOD_SEND);
                let Some(tm) = to_miner else {
                    viol(&mut rep, "reward-no-send-to-miner", "successful award without an ApplyRewards send".into(), &lines);
                    continue 'seqs;
                };
                let sent = tm.value.clone();
                let pen_sent: BigInt = tm.params.as_ref()
                    .and_then(|p| p.deserialize::<fil_actor_miner::ApplyRewardParams>().ok())
                    .map(|p| p.penalty.atto().clone()).unwrap_or_else(|| BigInt::from(-1));
                let dest = if tm.exit_code.is_success() { "miner" }
                    else if to_burn.map(|b| b.exit_code.is_success()).unwrap_or(false) { "burnt" } else { "kept" };
                if sent > bal0 || sent.is_negative() {
                    viol(&mut rep, "reward-paid-more-than-held", format!("balance {} sent {}", bal0.atto(), sent.atto()), &lines);
                    continue 'seqs;
                }
                if block_delta.is_negative() || &sent != &(TokenAmount::from_atto(gas.clone()) + &block_delta) {
                    viol(&mut rep, "reward-total-mined-ne-payouts", format!("sent {} gas {} recorded block reward {}", sent.atto(), gas, block_delta.atto()), &lines);
                    continue 'seqs;
                }
                // where the funds went: miner + burnt funds got exactly what left the reward actor
                let gained = (&miner1 - &miner0) + (&burnt1 - &burnt0);
                if gained != paid || (dest == "kept") != paid.is_zero() && !sent.is_zero() {
                    viol(&mut rep, "reward-funds-stranded", format!("left the reward actor {} miner+burnt gained {} dest {}", paid.atto(), gained.atto(), dest), &lines);
                    continue 'seqs;
                }
                if dest != "kept" && paid != sent {
                    viol(&mut rep, "reward-funds-stranded", format!("sent {} but balance fell by {}", sent.atto(), paid.atto()), &lines);
                    continue 'seqs;
                }
                if sent.atto() < &expected { capped_seen = true; rep.branch("capped"); }
                if dest == "burnt" { burnt_seen = true; }
                rep.branch(&format!("dest-{}", dest));
                impl_out = format!("ok {} {} {} {}", sent.atto(), block_delta.atto(), pen_sent, dest);
            } else {
                rep.err(&format!("award:{}", exit_class(res.code)));
                if bal1 != bal0 || !block_delta.is_zero() {
                    viol(&mut rep, "reward-failed-message-changed-state", format!("exit {} balance {} -> {}", res.code, bal0.atto(), bal1.atto()), &lines);
                    continue 'seqs;
                }
                impl_out = format!("err {}", exit_class(res.code));
            }
            // ---- correspondence with the Lean model
            if let Some(l) = lean.as_mut() {
                let m = l.ask(&line).unwrap();
                if m != impl_out {
                    agree = false;
                    let path = write_replay(prop, &format!("reward-{}-{}-disagree", cfg.seed, seq), &hdr, &lines);
                    rep.disagreements.push(Disagreement { seq, step, op: line.clone(), impl_out, model_out: m, replay: path });
                    continue 'seqs;
                }
            }
        }
        if agree && lean.is_some() { rep.traces_validated += 1; }
        if capped_seen && burnt_seen && seen.insert(hash_lines(&lines)) { rep.distinct_nontrivial += 1; }
    }
    rep
}
