//! C04 / C02 — sector bookkeeping is a partition with exact memos; power deltas telescope.
//! Data-structure level: the REAL `fil_actor_miner::Partition` (+ its `ExpirationQueue`,
//! early-termination `BitFieldQueue`) on an in-memory blockstore ⇄ Lean `BA.Sector` model
//! ("partition" driver), plus an independent oracle that recomputes every set relation and memo
//! from the sector infos.  `run_c02` additionally merges the power-actor run (power_ds) and both
//! merge the actor-level run (sectors_actor).
use super::{RunCfg, hash_lines, seq_rng};
use crate::lean::LeanDriver;
use crate::report::{Disagreement, Report, Violation, write_replay};
use crate::rng::Rng;
use fil_actor_miner::{
    BitFieldQueue, ExpirationQueue, ExpirationSet, NO_QUANTIZATION, Partition, PowerPair, QuantSpec,
    SectorOnChainInfo, Sectors, qa_power_for_sector,
};
use fil_actors_runtime::runtime::Policy;
use fil_actors_runtime::test_blockstores::MemoryBlockstore;
use fvm_ipld_amt::Amt;
use fvm_ipld_bitfield::BitField;
use fvm_shared::bigint::BigInt;
use fvm_shared::econ::TokenAmount;
use fvm_shared::sector::SectorSize;
use num_traits::Zero;
use serde_json::json;
use std::collections::{BTreeMap, BTreeSet, HashSet};
use std::panic::{AssertUnwindSafe, catch_unwind};

const SIZE: SectorSize = SectorSize::_32GiB;
/// every pool sector has the same power duration so that moving its expiration keeps its QA power
const DUR: i64 = 1000;

type Set = BTreeSet<u64>;

fn bf(s: &[u64]) -> BitField {
    BitField::try_from_bits(s.iter().copied()).unwrap()
}
fn set_of(b: &BitField) -> Set {
    b.iter().collect()
}

fn mk_info(num: u64, exp: i64, vw_tenths: u64, pledge: u64, fee: u64) -> SectorOnChainInfo {
    SectorOnChainInfo {
        sector_number: num,
        expiration: exp,
        power_base_epoch: exp - DUR,
        verified_deal_weight: BigInt::from(SIZE as u64) * BigInt::from(DUR) * BigInt::from(vw_tenths) / BigInt::from(10),
        initial_pledge: TokenAmount::from_atto(pledge),
        daily_fee: TokenAmount::from_atto(fee),
        ..Default::default()
    }
}

fn raw_of(_i: &SectorOnChainInfo) -> BigInt {
    BigInt::from(SIZE as u64)
}
fn qa_of(i: &SectorOnChainInfo) -> BigInt {
    qa_power_for_sector(SIZE, i)
}

fn info_str(i: &SectorOnChainInfo) -> String {
    format!(
        "{}:{}:{}:{}:{}:{}",
        i.sector_number,
        raw_of(i),
        qa_of(i),
        i.initial_pledge.atto(),
        i.daily_fee.atto(),
        i.expiration
    )
}

fn list_str<T: ToString>(xs: impl IntoIterator<Item = T>) -> String {
    let v: Vec<String> = xs.into_iter().map(|x| x.to_string()).collect();
    if v.is_empty() { "-".into() } else { v.join(",") }
}
fn bf_str(b: &BitField) -> String {
    list_str(b.iter())
}
fn pow_str(p: &PowerPair) -> String {
    format!("{}:{}", p.raw, p.qa)
}
fn es_str(es: &ExpirationSet) -> String {
    format!(
        "{}/{}/{}/{}/{}/{}",
        bf_str(&es.on_time_sectors),
        bf_str(&es.early_sectors),
        es.on_time_pledge.atto(),
        pow_str(&es.active_power),
        pow_str(&es.faulty_power),
        es.fee_deduction.atto()
    )
}

/// the whole observable state of a partition, read back through the blockstore
#[derive(Clone, Debug, Default)]
struct Proj {
    s: Set,
    u: Set,
    f: Set,
    r: Set,
    t: Set,
    live: (BigInt, BigInt),
    unproven: (BigInt, BigInt),
    faulty: (BigInt, BigInt),
    recovering: (BigInt, BigInt),
    queue: Vec<(i64, ExpirationSet)>,
    early: Vec<(i64, Set)>,
}

fn pp(p: &PowerPair) -> (BigInt, BigInt) {
    (p.raw.clone(), p.qa.clone())
}

fn project(store: &MemoryBlockstore, p: &Partition, quant: QuantSpec) -> Proj {
    let mut queue = vec![];
    let q = ExpirationQueue::new(store, &p.expirations_epochs, quant).unwrap();
    q.amt
        .for_each(|e, es| {
            queue.push((e as i64, es.clone()));
            Ok(())
        })
        .unwrap();
    let mut early = vec![];
    let eq = BitFieldQueue::new(store, &p.early_terminated, NO_QUANTIZATION).unwrap();
    eq.amt
        .for_each(|e, b| {
            early.push((e as i64, set_of(b)));
            Ok(())
        })
        .unwrap();
    Proj {
        s: set_of(&p.sectors),
        u: set_of(&p.unproven),
        f: set_of(&p.faults),
        r: set_of(&p.recoveries),
        t: set_of(&p.terminated),
        live: pp(&p.live_power),
        unproven: pp(&p.unproven_power),
        faulty: pp(&p.faulty_power),
        recovering: pp(&p.recovering_power),
        queue,
        early,
    }
}

fn show(j: &Proj) -> String {
    let q = if j.queue.is_empty() {
        "-".to_string()
    } else {
        j.queue.iter().map(|(e, es)| format!("{}@{}", e, es_str(es))).collect::<Vec<_>>().join(";")
    };
    let eq = if j.early.is_empty() {
        "-".to_string()
    } else {
        j.early.iter().map(|(e, s)| format!("{}@{}", e, list_str(s.iter()))).collect::<Vec<_>>().join(";")
    };
    let p2 = |x: &(BigInt, BigInt)| format!("{}:{}", x.0, x.1);
    format!(
        "{} {} {} {} {} {} {} {} {} {} {}",
        list_str(j.s.iter()),
        list_str(j.u.iter()),
        list_str(j.f.iter()),
        list_str(j.r.iter()),
        list_str(j.t.iter()),
        p2(&j.live),
        p2(&j.unproven),
        p2(&j.faulty),
        p2(&j.recovering),
        q,
        eq
    )
}

#[derive(Clone, Debug)]
enum Op {
    Add { proven: bool, nums: Vec<u64> },
    Faults { fe: i64, nums: Vec<u64> },
    DeclRec { nums: Vec<u64> },
    Recover,
    Activate,
    Missed { fe: i64 },
    Pop { until: i64 },
    Terminate { epoch: i64, nums: Vec<u64> },
    Skipped { fe: i64, nums: Vec<u64> },
    Resched { new_exp: i64, nums: Vec<u64>, upd: bool },
    Replace { old: Vec<u64>, new: Vec<SectorOnChainInfo> },
    PopEarly { max: u64 },
}

impl Op {
    fn name(&self) -> &'static str {
        match self {
            Op::Add { .. } => "add",
            Op::Faults { .. } => "faults",
            Op::DeclRec { .. } => "declrec",
            Op::Recover => "recover",
            Op::Activate => "activate",
            Op::Missed { .. } => "missed",
            Op::Pop { .. } => "pop",
            Op::Terminate { .. } => "terminate",
            Op::Skipped { .. } => "skipped",
            Op::Resched { .. } => "resched",
            Op::Replace { .. } => "replace",
            Op::PopEarly { .. } => "popearly",
        }
    }
    fn line(&self) -> String {
        match self {
            Op::Add { proven, nums } => format!("add {} {}", *proven as u8, list_str(nums.iter())),
            Op::Faults { fe, nums } => format!("faults {} {}", fe, list_str(nums.iter())),
            Op::DeclRec { nums } => format!("declrec {}", list_str(nums.iter())),
            Op::Recover => "recover".into(),
            Op::Activate => "activate".into(),
            Op::Missed { fe } => format!("missed {}", fe),
            Op::Pop { until } => format!("pop {}", until),
            Op::Terminate { epoch, nums } => format!("terminate {} {}", epoch, list_str(nums.iter())),
            Op::Skipped { fe, nums } => format!("skipped {} {}", fe, list_str(nums.iter())),
            Op::Resched { new_exp, nums, upd } => {
                format!("resched {} {} {}", new_exp, list_str(nums.iter()), *upd as u8)
            }
            Op::Replace { old, new } => {
                format!("replace {} {}", list_str(old.iter()), list_str(new.iter().map(info_str)))
            }
            Op::PopEarly { max } => format!("popearly {}", max),
        }
    }
}

struct Ds {
    store: MemoryBlockstore,
    pool: BTreeMap<u64, SectorOnChainInfo>,
    quant: QuantSpec,
    now: i64,
}

fn sectors_arr<'a>(store: &'a MemoryBlockstore, pool: &BTreeMap<u64, SectorOnChainInfo>) -> Sectors<'a, MemoryBlockstore> {
    let empty = Amt::<SectorOnChainInfo, _>::new_with_bit_width(store, 5).flush().unwrap();
    let mut s = Sectors::load(store, &empty).unwrap();
    s.store(pool.values().cloned().collect()).unwrap();
    s
}

/// pick a random subset of `from` with about `k` elements
fn subset(r: &mut Rng, from: &[u64], k: u64) -> Vec<u64> {
    if from.is_empty() {
        return vec![];
    }
    let mut out = BTreeSet::new();
    for _ in 0..k {
        out.insert(*r.pick(from));
    }
    out.into_iter().collect()
}

fn gen_fault_exp(r: &mut Rng, d: &Ds, j: &Proj) -> i64 {
    match r.below(10) {
        0 => d.now,
        1 => d.now + 1,
        2 if !j.queue.is_empty() => r.pick(&j.queue).0 + r.range(-1, 1),
        3 => d.now + r.range(0, 400),
        4 if r.chance(1, 6) => -1,
        _ => d.now + *r.pick(&[5i64, 20, 40, 40, 40, 100]),
    }
}

fn gen_op(r: &mut Rng, d: &Ds, j: &Proj) -> Op {
    let all: Vec<u64> = d.pool.keys().copied().collect();
    let s: Vec<u64> = j.s.iter().copied().collect();
    let live: Vec<u64> = j.s.difference(&j.t).copied().collect();
    let faulty: Vec<u64> = j.f.iter().copied().collect();
    let active: Vec<u64> = live.iter().copied().filter(|x| !j.f.contains(x) && !j.u.contains(x)).collect();
    let fresh: Vec<u64> = all.iter().copied().filter(|x| !j.s.contains(x)).collect();
    let clean = r.chance(3, 5);
    // perturbation: a sector that is not in the partition / already terminated / unknown to the table
    let stray = |r: &mut Rng, v: &mut Vec<u64>| {
        if clean {
            return;
        }
        match r.below(8) {
            0 if !fresh.is_empty() => v.push(*r.pick(&fresh)),
            1 if !j.t.is_empty() => v.push(*r.pick(&j.t.iter().copied().collect::<Vec<_>>())),
            2 => v.push(1000 + r.below(3)),
            3 if !s.is_empty() => v.push(*r.pick(&s)),
            _ => {}
        }
        v.sort();
        v.dedup();
    };
    let k = r.below(100);
    if k < 16 || j.s.is_empty() {
        let kk = r.below(4) + 1;
        let mut nums = subset(r, if fresh.is_empty() { &all } else { &fresh }, kk);
        if !clean && r.chance(1, 4) && !s.is_empty() {
            nums.push(*r.pick(&s)); // already present: rejected
            nums.sort();
            nums.dedup();
        }
        return Op::Add { proven: r.chance(1, 3), nums };
    }
    if k < 30 {
        let kk = r.below(4) + 1;
        let mut nums = subset(r, if live.is_empty() { &s } else { &live }, kk);
        stray(r, &mut nums);
        return Op::Faults { fe: gen_fault_exp(r, d, j), nums };
    }
    if k < 40 {
        let kk = r.below(3) + 1;
        let use_s = faulty.is_empty() || r.chance(1, 5);
        let mut nums = subset(r, if use_s { &s } else { &faulty }, kk);
        stray(r, &mut nums);
        return Op::DeclRec { nums };
    }
    if k < 48 {
        return Op::Recover;
    }
    if k < 58 {
        return Op::Activate;
    }
    if k < 63 {
        return Op::Missed { fe: gen_fault_exp(r, d, j) };
    }
    if k < 72 {
        let until = match r.below(6) {
            0 if !j.queue.is_empty() => r.pick(&j.queue).0 + r.range(-1, 1),
            1 => d.now + r.range(0, 60),
            _ => d.now,
        };
        return Op::Pop { until };
    }
    if k < 80 {
        let kk = r.below(3) + 1;
        let mut nums = subset(r, if live.is_empty() { &s } else { &live }, kk);
        stray(r, &mut nums);
        let epoch = if !clean && r.chance(1, 10) { -1 } else { d.now };
        return Op::Terminate { epoch, nums };
    }
    if k < 86 {
        let kk = r.below(3) + 1;
        let mut nums = subset(r, &s, kk);
        stray(r, &mut nums);
        if r.chance(1, 10) {
            nums.clear();
        }
        return Op::Skipped { fe: gen_fault_exp(r, d, j), nums };
    }
    if k < 91 {
        let kk = r.below(3) + 1;
        let mut nums = subset(r, if active.is_empty() { &s } else { &active }, kk);
        stray(r, &mut nums);
        let new_exp = d.now + r.range(1, 600);
        return Op::Resched { new_exp, nums, upd: r.chance(3, 4) };
    }
    if k < 96 {
        // replica-update style: the same sector numbers with new power / pledge / fee / expiration
        let kk = r.below(2) + 1;
        let use_s = active.is_empty() || (!clean && r.chance(1, 3));
        let old = subset(r, if use_s { &s } else { &active }, kk);
        let new: Vec<SectorOnChainInfo> = old
            .iter()
            .filter_map(|n| d.pool.get(n))
            .map(|i| {
                let exp = if r.chance(1, 2) { i.expiration } else { d.now + r.range(1, 600) };
                mk_info(i.sector_number, exp, r.below(11), r.below(2000), r.below(50))
            })
            .collect();
        return Op::Replace { old, new };
    }
    Op::PopEarly { max: *r.pick(&[0u64, 1, 2, 3, 100]) }
}

/// Execute one op on the real partition.  Ok(ret string) / Err(class).  The caller restores the
/// partition on error (the actor runs these inside a transaction).
fn exec(d: &mut Ds, p: &mut Partition, op: &Op) -> Result<String, String> {
    let policy = Policy::default();
    let store = &d.store;
    let quant = d.quant;
    let e2s = |e: anyhow::Error| format!("{:#}", e).chars().take(120).collect::<String>();
    match op {
        Op::Add { proven, nums } => {
            let infos: Vec<SectorOnChainInfo> = nums.iter().map(|n| d.pool[n].clone()).collect();
            let (power, fee) = p.add_sectors(store, *proven, &infos, SIZE, quant).map_err(e2s)?;
            Ok(format!("added {} {}", pow_str(&power), fee.atto()))
        }
        Op::Faults { fe, nums } => {
            let sectors = sectors_arr(store, &d.pool);
            let (nf, delta, nfp) = p.record_faults(store, &sectors, &bf(nums), *fe, SIZE, quant).map_err(e2s)?;
            Ok(format!("faults {} {} {}", bf_str(&nf), pow_str(&delta), pow_str(&nfp)))
        }
        Op::DeclRec { nums } => {
            let sectors = sectors_arr(store, &d.pool);
            p.declare_faults_recovered(&sectors, SIZE, &bf(nums)).map_err(e2s)?;
            Ok(String::new())
        }
        Op::Recover => {
            let sectors = sectors_arr(store, &d.pool);
            let power = p.recover_faults(store, &sectors, SIZE, quant).map_err(e2s)?;
            Ok(format!("power {}", pow_str(&power)))
        }
        Op::Activate => Ok(format!("power {}", pow_str(&p.activate_unproven()))),
        Op::Missed { fe } => {
            let (delta, pen, nf) = p.record_missed_post(store, *fe, quant).map_err(e2s)?;
            Ok(format!("missed {} {} {}", pow_str(&delta), pow_str(&pen), pow_str(&nf)))
        }
        Op::Pop { until } => {
            let es = p.pop_expired_sectors(store, *until, quant).map_err(e2s)?;
            Ok(format!("expset {}", es_str(&es)))
        }
        Op::Terminate { epoch, nums } => {
            let sectors = sectors_arr(store, &d.pool);
            let (es, rup) =
                p.terminate_sectors(&policy, store, &sectors, *epoch, &bf(nums), SIZE, quant).map_err(e2s)?;
            Ok(format!("terminated {} {}", es_str(&es), pow_str(&rup)))
        }
        Op::Skipped { fe, nums } => {
            let sectors = sectors_arr(store, &d.pool);
            let (delta, nf, rp, any) =
                p.record_skipped_faults(store, &sectors, SIZE, quant, *fe, &bf(nums)).map_err(e2s)?;
            Ok(format!("skipped {} {} {} {}", pow_str(&delta), pow_str(&nf), pow_str(&rp), any as u8))
        }
        Op::Resched { new_exp, nums, upd } => {
            let sectors = sectors_arr(store, &d.pool);
            let infos =
                p.reschedule_expirations(store, &sectors, *new_exp, &bf(nums), SIZE, quant).map_err(e2s)?;
            let ns: BTreeSet<u64> = infos.iter().map(|i| i.sector_number).collect();
            if *upd {
                for n in ns.iter() {
                    let i = d.pool.get_mut(n).unwrap();
                    i.expiration = *new_exp;
                    i.power_base_epoch = *new_exp - DUR;
                }
            }
            Ok(format!("rescheduled {}", list_str(ns.iter())))
        }
        Op::Replace { old, new } => {
            let olds: Vec<SectorOnChainInfo> = old.iter().map(|n| d.pool[n].clone()).collect();
            let (pw, pl, fee) = p.replace_sectors(store, &olds, new, SIZE, quant).map_err(e2s)?;
            for i in new {
                d.pool.insert(i.sector_number, i.clone());
            }
            Ok(format!("replaced {} {} {}", pow_str(&pw), pl.atto(), fee.atto()))
        }
        Op::PopEarly { max } => {
            let (res, more) = p.pop_early_terminations(store, *max).map_err(e2s)?;
            let ents: Vec<String> = res.sectors.iter().map(|(e, b)| format!("{}@{}", e, bf_str(b))).collect();
            Ok(format!(
                "early {} {} {}",
                if ents.is_empty() { "-".to_string() } else { ents.join(";") },
                res.sectors_processed,
                more as u8
            ))
        }
    }
}

fn quantize_up(q: &QuantSpec, e: i64) -> i64 {
    // independent re-statement: the least x >= e with x ≡ offset (mod unit)
    let m = (e - q.offset).rem_euclid(q.unit);
    if m == 0 { e } else { e + (q.unit - m) }
}

fn sum_pow<'a>(pool: &BTreeMap<u64, SectorOnChainInfo>, it: impl Iterator<Item = &'a u64>) -> (BigInt, BigInt) {
    let mut raw = BigInt::zero();
    let mut qa = BigInt::zero();
    for n in it {
        if let Some(i) = pool.get(n) {
            raw += raw_of(i);
            qa += qa_of(i);
        }
    }
    (raw, qa)
}

/// Independent oracle for C04 at the data-structure level: recompute every relation and memo
/// from the bitfields and the sector infos.  `relocated`: sectors whose queue position was moved by
/// `reschedule_expirations` without the table being updated (their declared expiration is stale).
fn oracle_c04(d: &Ds, j: &Proj, relocated: &Set) -> Option<(String, String)> {
    let live: Set = j.s.difference(&j.t).copied().collect();
    if !j.t.is_subset(&j.s) {
        return Some(("partition-terminated-not-subset-of-sectors".into(), format!("T={:?} S={:?}", j.t, j.s)));
    }
    if !j.f.is_subset(&live) {
        return Some(("partition-faults-not-subset-of-live".into(), format!("F={:?} live={:?}", j.f, live)));
    }
    if !j.r.is_subset(&j.f) {
        return Some(("partition-recoveries-not-subset-of-faults".into(), format!("R={:?} F={:?}", j.r, j.f)));
    }
    if !j.u.is_subset(&live) || j.u.intersection(&j.f).next().is_some() {
        return Some(("partition-unproven-not-live-nonfaulty".into(), format!("U={:?} F={:?} live={:?}", j.u, j.f, live)));
    }
    for n in j.s.iter() {
        if !d.pool.contains_key(n) {
            return Some(("partition-sector-without-info".into(), format!("{}", n)));
        }
    }
    let chk = |name: &str, memo: &(BigInt, BigInt), set: &Set| -> Option<(String, String)> {
        let want = sum_pow(&d.pool, set.iter());
        if *memo != want {
            Some((
                format!("partition-{}-power-mismatch", name),
                format!("memo={}:{} recomputed={}:{} over {:?}", memo.0, memo.1, want.0, want.1, set),
            ))
        } else {
            None
        }
    };
    if let Some(v) = chk("live", &j.live, &live) {
        return Some(v);
    }
    if let Some(v) = chk("unproven", &j.unproven, &j.u) {
        return Some(v);
    }
    if let Some(v) = chk("faulty", &j.faulty, &j.f) {
        return Some(v);
    }
    if let Some(v) = chk("recovering", &j.recovering, &j.r) {
        return Some(v);
    }
    // expiration queue
    let mut seen = Set::new();
    let mut prev: Option<i64> = None;
    for (e, es) in j.queue.iter() {
        if let Some(p) = prev {
            if *e <= p {
                return Some(("expq-keys-not-ascending".into(), format!("{} after {}", e, p)));
            }
        }
        prev = Some(*e);
        if quantize_up(&d.quant, *e) != *e {
            return Some(("expq-key-not-quantized".into(), format!("{}", e)));
        }
        let on = set_of(&es.on_time_sectors);
        let early = set_of(&es.early_sectors);
        if on.is_empty() && early.is_empty() {
            return Some(("expq-empty-entry".into(), format!("{}", e)));
        }
        for n in on.iter().chain(early.iter()) {
            if !seen.insert(*n) {
                return Some(("expq-sector-scheduled-twice".into(), format!("sector {} (again at {})", n, e)));
            }
            if !live.contains(n) {
                return Some(("expq-sector-not-live".into(), format!("sector {} at {}", n, e)));
            }
        }
        if !early.is_subset(&j.f) {
            return Some(("expq-early-sector-not-faulty".into(), format!("at {}: early={:?} F={:?}", e, early, j.f)));
        }
        for n in on.iter() {
            let i = &d.pool[n];
            let qe = quantize_up(&d.quant, i.expiration);
            if !relocated.contains(n) && qe != *e {
                return Some(("expq-on-time-sector-at-wrong-epoch".into(), format!("sector {} exp {} (q {}) sits at {}", n, i.expiration, qe, e)));
            }
        }
        for n in early.iter() {
            let i = &d.pool[n];
            if !relocated.contains(n) && *e >= quantize_up(&d.quant, i.expiration) {
                return Some(("expq-early-sector-not-early".into(), format!("sector {} exp {} sits early at {}", n, i.expiration, e)));
            }
        }
        let pledge: BigInt = on.iter().map(|n| d.pool[n].initial_pledge.atto().clone()).sum();
        if es.on_time_pledge.atto() != &pledge {
            return Some(("expq-entry-pledge-mismatch".into(), format!("at {}: memo={} recomputed={}", e, es.on_time_pledge.atto(), pledge)));
        }
        let act = sum_pow(&d.pool, on.iter().filter(|n| !j.f.contains(n)));
        if pp(&es.active_power) != act {
            return Some(("expq-entry-active-power-mismatch".into(), format!("at {}: memo={} recomputed={}:{}", e, pow_str(&es.active_power), act.0, act.1)));
        }
        let fl = sum_pow(&d.pool, on.iter().filter(|n| j.f.contains(n)).chain(early.iter()));
        if pp(&es.faulty_power) != fl {
            return Some(("expq-entry-faulty-power-mismatch".into(), format!("at {}: memo={} recomputed={}:{}", e, pow_str(&es.faulty_power), fl.0, fl.1)));
        }
        let fee: BigInt = on.iter().chain(early.iter()).map(|n| d.pool[n].daily_fee.atto().clone()).sum();
        if es.fee_deduction.atto() != &fee {
            return Some(("expq-entry-fee-mismatch".into(), format!("at {}: memo={} recomputed={}", e, es.fee_deduction.atto(), fee)));
        }
    }
    if seen != live {
        let missing: Vec<&u64> = live.difference(&seen).collect();
        return Some(("expq-live-sector-not-scheduled".into(), format!("{:?}", missing)));
    }
    // early-termination queue: only terminated sectors, each at most once
    let mut seen_e = Set::new();
    for (e, s) in j.early.iter() {
        for n in s {
            if !j.t.contains(n) {
                return Some(("early-queue-sector-not-terminated".into(), format!("sector {} at {}", n, e)));
            }
            if !seen_e.insert(*n) {
                return Some(("early-queue-sector-twice".into(), format!("sector {}", n)));
            }
        }
    }
    None
}

/// does `Partition::validate_state` hold of a state that satisfies the recomputation oracle?
/// (the theorem `validate_state_never_fires`, observed on the implementation)
fn validate_holds(p: &Partition) -> bool {
    p.validate_state().is_ok()
}

pub fn run_ds(cfg: &RunCfg, rep: &mut Report, prop: &str) {
    let (nseq, maxlen) = if cfg.thorough() { (6000u64, 150i64) } else { (400, 60) };
    let nseq = nseq * cfg.budget;
    let mut lean = if cfg.use_lean { Some(LeanDriver::spawn("partition").expect("lean driver")) } else { None };
    let mut seen = HashSet::new();
    let seqs: Vec<u64> = match cfg.only_seq {
        Some(k) if k < 1_000_000 => vec![k],
        Some(_) => vec![],
        None => (0..nseq).collect(),
    };
    'seqs: for seq in seqs {
        let mut r = seq_rng(cfg.seed, seq);
        // pool of sectors with varied power / pledge / fee / expirations
        let npool = r.range(6, 16) as usize;
        let mut nums = BTreeSet::new();
        while nums.len() < npool {
            nums.insert(r.below(40));
        }
        let unit = *r.pick(&[1i64, 2, 4, 5, 10, 10, 30, 60]);
        let offset = match r.below(8) {
            0 => 0,
            1 => unit,
            2 if r.chance(1, 4) => -r.range(1, unit.max(2)),
            _ => r.range(0, 3 * unit),
        };
        let horizon = *r.pick(&[60i64, 200, 600]);
        let mut pool = BTreeMap::new();
        for n in nums {
            // clustered expirations so that several sectors share a queue entry
            let exp = match r.below(4) {
                0 => 100 + r.range(0, 3) * unit,
                _ => r.range(30, 30 + horizon),
            };
            pool.insert(n, mk_info(n, exp, r.below(11), r.below(3000), r.below(60)));
        }
        let mut d = Ds { store: MemoryBlockstore::new(), pool, quant: QuantSpec { unit, offset }, now: r.range(0, 40) };
        let mut p = Partition::new(&d.store).unwrap();
        let mut lines: Vec<String> = vec![];
        lines.push(format!("pool {}", list_str(d.pool.values().map(info_str))));
        lines.push(format!("quant {} {}", unit, offset));
        lines.push("new".into());
        let mut agree = true;
        if let Some(l) = lean.as_mut() {
            for ln in lines.iter() {
                let _ = l.ask(ln).unwrap();
            }
        }
        rep.sequences += 1;
        let len = r.range(8, maxlen);
        let mut nontrivial_kinds = BTreeSet::new();
        let mut relocated = Set::new();
        let mut delta_sum = (BigInt::zero(), BigInt::zero());
        for step in 0..len {
            if r.chance(1, 4) {
                d.now += r.range(1, 30);
                lines.push(format!("# now {}", d.now));
            }
            let before = project(&d.store, &p, d.quant);
            let op = gen_op(&mut r, &d, &before);
            let line = op.line();
            lines.push(line.clone());
            rep.ops += 1;
            rep.op(op.name());
            let hdr = vec![
                format!("property {} seed {} seq {} (re-run: ba_harness {} --seed {} --only-seq {})", prop, cfg.seed, seq, prop.to_lowercase(), cfg.seed, seq),
                format!("failing step {}: {}", step, line),
            ];
            let saved = p.clone();
            let pool_saved = d.pool.clone();
            let res = catch_unwind(AssertUnwindSafe(|| exec(&mut d, &mut p, &op)));
            let res = match res {
                Ok(x) => x,
                Err(pn) => {
                    let msg = pn.downcast_ref::<String>().cloned().or_else(|| pn.downcast_ref::<&str>().map(|s| s.to_string())).unwrap_or_default();
                    let path = write_replay(prop, &format!("{}-{}", cfg.seed, seq), &hdr, &lines);
                    rep.violations.push(Violation { kind: "panic".into(), detail: msg, replay: path });
                    continue 'seqs;
                }
            };
            let ok = res.is_ok();
            if !ok {
                p = saved; // transaction rollback
                d.pool = pool_saved;
                let e = res.as_ref().err().unwrap();
                let cls: String = e.split(|c: char| c == ':' || c == '{' || c == '[').next().unwrap_or("").trim().chars().take(48).collect();
                rep.err(&format!("{}:{}", op.name(), cls));
            } else {
                rep.ops_ok += 1;
            }
            let after = project(&d.store, &p, d.quant);
            // ---------------- oracle (independent of the model)
            if ok {
                if let Op::Resched { upd: false, .. } = &op {
                    if let Ok(s) = &res {
                        if let Some(ns) = s.strip_prefix("rescheduled ") {
                            if ns != "-" {
                                for n in ns.split(',') {
                                    relocated.insert(n.parse().unwrap());
                                }
                            }
                        }
                    }
                }
                if let Op::Resched { upd: true, .. } | Op::Replace { .. } = &op {
                    if let Ok(s) = &res {
                        let part = s.split(' ').nth(1).unwrap_or("-");
                        if let Op::Resched { .. } = &op {
                            if part != "-" {
                                for n in part.split(',') {
                                    relocated.remove(&n.parse::<u64>().unwrap());
                                }
                            }
                        }
                    }
                    if let Op::Replace { old, .. } = &op {
                        for n in old {
                            relocated.remove(n);
                        }
                    }
                }
                if let Some((kind, detail)) = oracle_c04(&d, &after, &relocated) {
                    let path = write_replay(prop, &format!("{}-{}", cfg.seed, seq), &hdr, &lines);
                    rep.violations.push(Violation { kind, detail, replay: path });
                    continue 'seqs;
                }
                if !validate_holds(&p) {
                    let path = write_replay(prop, &format!("{}-{}", cfg.seed, seq), &hdr, &lines);
                    rep.violations.push(Violation { kind: "validate-state-fires-on-consistent-state".into(), detail: String::new(), replay: path });
                    continue 'seqs;
                }
                // C02: the returned power deltas telescope to the recomputed active power
                let s = res.as_ref().unwrap();
                let w: Vec<&str> = s.split(' ').collect();
                let parse_pp = |x: &str| -> (BigInt, BigInt) {
                    let mut it = x.split(':');
                    (it.next().unwrap().parse().unwrap(), it.next().unwrap().parse().unwrap())
                };
                let dlt: (BigInt, BigInt) = match &op {
                    Op::Add { proven: true, .. } => parse_pp(w[1]),
                    Op::Faults { .. } => parse_pp(w[2]),
                    Op::Recover | Op::Activate => parse_pp(w[1]),
                    Op::Missed { .. } => parse_pp(w[1]),
                    Op::Skipped { .. } => parse_pp(w[1]),
                    Op::Replace { .. } => parse_pp(w[1]),
                    Op::Pop { .. } | Op::Terminate { .. } => {
                        // -(active power of the returned expiration set)
                        let es: Vec<&str> = w[1].split('/').collect();
                        let a = parse_pp(es[3]);
                        (-a.0, -a.1)
                    }
                    _ => (BigInt::zero(), BigInt::zero()),
                };
                delta_sum.0 += dlt.0;
                delta_sum.1 += dlt.1;
                let act: Set = after.s.iter().copied().filter(|n| !after.t.contains(n) && !after.f.contains(n) && !after.u.contains(n)).collect();
                let want = sum_pow(&d.pool, act.iter());
                if delta_sum != want {
                    let path = write_replay(prop, &format!("{}-{}", cfg.seed, seq), &hdr, &lines);
                    rep.violations.push(Violation {
                        kind: "power-deltas-do-not-telescope".into(),
                        detail: format!("sum of returned deltas {}:{} != recomputed active power {}:{} over {:?}", delta_sum.0, delta_sum.1, want.0, want.1, act),
                        replay: path,
                    });
                    continue 'seqs;
                }
                if show(&before) != show(&after) {
                    nontrivial_kinds.insert(op.name());
                }
            } else if show(&before) != show(&after) {
                let path = write_replay(prop, &format!("{}-{}", cfg.seed, seq), &hdr, &lines);
                rep.violations.push(Violation { kind: "harness-rollback-failed".into(), detail: String::new(), replay: path });
                continue 'seqs;
            }
            // ---------------- correspondence with the Lean model
            if let Some(l) = lean.as_mut() {
                let m = l.ask(&line).unwrap();
                let i = match &res {
                    Ok(s) if s.is_empty() => format!("ok | {}", show(&after)),
                    Ok(s) => format!("ok {} | {}", s, show(&after)),
                    Err(_) => format!("err | {}", show(&after)),
                };
                let m_norm = if m.starts_with("err ") {
                    format!("err | {}", m.splitn(2, " | ").nth(1).unwrap_or(""))
                } else {
                    m.clone()
                };
                if m_norm != i {
                    agree = false;
                    let path = write_replay(prop, &format!("corr-{}-{}", cfg.seed, seq), &hdr, &lines);
                    rep.disagreements.push(Disagreement { seq, step: step as u64, op: line.clone(), impl_out: i, model_out: m, replay: path });
                    continue 'seqs;
                }
            }
        }
        if agree && lean.is_some() {
            rep.traces_validated += 1;
        }
        // non-trivial: at least three different kinds of state-changing operations succeeded
        if nontrivial_kinds.len() >= 3 && seen.insert(hash_lines(&lines)) {
            rep.distinct_nontrivial += 1;
        }
        if rep.samples.len() < 3 && nontrivial_kinds.len() >= 5 {
            rep.samples.push(json!({"seq": seq, "ops": lines.iter().take(14).collect::<Vec<_>>()}));
        }
    }
}

/// `State::allocate_sector_numbers` on a real miner `State`: the allocated bitfield only grows and
/// DenyCollisions rejects any intersection (C04 "every sector number is allocated at most once").
pub fn run_alloc(cfg: &RunCfg, rep: &mut Report, prop: &str) {
    use fil_actor_miner::{CollisionPolicy, State};
    use fvm_ipld_encoding::CborStore;
    let nseq = if cfg.thorough() { 2000u64 } else { 150 } * cfg.budget;
    let mut lean = if cfg.use_lean { Some(LeanDriver::spawn("partition").expect("lean driver")) } else { None };
    let seqs: Vec<u64> = match cfg.only_seq {
        Some(k) if (2_000_000..3_000_000).contains(&k) => vec![k - 2_000_000],
        Some(_) => vec![],
        None => (0..nseq).collect(),
    };
    let policy = Policy::default();
    'seqs: for seq in seqs {
        let mut r = seq_rng(cfg.seed ^ 0xA110C, seq);
        let store = MemoryBlockstore::new();
        let mut st = State::new(&policy, &store, cid::Cid::default(), 0, 0).unwrap();
        let mut lines = vec!["allocnew".to_string()];
        if let Some(l) = lean.as_mut() {
            l.ask("allocnew").unwrap();
        }
        rep.sequences += 1;
        let mut agree = true;
        let mut ever: Set = Set::new();
        let len = r.range(4, 30);
        for step in 0..len {
            let cur: BitField = store.get_cbor(&st.allocated_sectors).unwrap().unwrap();
            let cur_set = set_of(&cur);
            let cur_v: Vec<u64> = cur_set.iter().copied().collect();
            // valid-biased: mostly fresh numbers; sometimes one already allocated / all allocated
            let mut nums: Vec<u64> = (0..r.below(4) + 1).map(|_| r.below(60)).collect();
            let mode = r.below(10);
            if mode < 5 {
                nums.retain(|n| !cur_set.contains(n));
            } else if mode < 7 && !cur_v.is_empty() {
                nums.push(*r.pick(&cur_v));
            } else if mode == 7 && !cur_v.is_empty() {
                nums = vec![*r.pick(&cur_v)];
            }
            nums.sort();
            nums.dedup();
            let deny = r.chance(3, 4);
            let line = format!("alloc {} {}", deny as u8, list_str(nums.iter()));
            lines.push(line.clone());
            rep.ops += 1;
            rep.op("alloc");
            let saved = st.clone();
            let res = st.allocate_sector_numbers(
                &store,
                &bf(&nums),
                if deny { CollisionPolicy::DenyCollisions } else { CollisionPolicy::AllowCollisions },
            );
            if res.is_err() {
                st = saved;
                rep.err("alloc:collision");
            } else {
                rep.ops_ok += 1;
            }
            let after: BitField = store.get_cbor(&st.allocated_sectors).unwrap().unwrap();
            let after_set = set_of(&after);
            let hdr = vec![
                format!("property {} seed {} seq {} (re-run: ba_harness {} --seed {} --only-seq {})", prop, cfg.seed, 2_000_000 + seq, prop.to_lowercase(), cfg.seed, 2_000_000 + seq),
                format!("failing step {}: {}", step, line),
            ];
            // oracle
            let collides = nums.iter().any(|n| cur_set.contains(n));
            let viol = if !cur_set.is_subset(&after_set) {
                Some(("allocated-sectors-shrunk", format!("{:?} -> {:?}", cur_set, after_set)))
            } else if res.is_ok() && deny && collides {
                Some(("sector-number-allocated-twice", format!("{:?} accepted with DenyCollisions while {:?} allocated", nums, cur_set)))
            } else if res.is_ok() && !nums.iter().all(|n| after_set.contains(n)) {
                Some(("allocation-not-recorded", format!("{:?} not all in {:?}", nums, after_set)))
            } else if res.is_err() && after_set != cur_set {
                Some(("failed-allocation-changed-state", String::new()))
            } else if res.is_err() && !(deny && collides) {
                Some(("allocation-refused-without-collision", format!("{:?} vs {:?}", nums, cur_set)))
            } else {
                None
            };
            ever.extend(after_set.iter().copied());
            if let Some((kind, detail)) = viol {
                let path = write_replay(prop, &format!("{}-a{}", cfg.seed, seq), &hdr, &lines);
                rep.violations.push(Violation { kind: kind.into(), detail, replay: path });
                continue 'seqs;
            }
            if let Some(l) = lean.as_mut() {
                let m = l.ask(&line).unwrap();
                let i = format!("{} | {}", if res.is_ok() { "ok" } else { "err" }, list_str(after_set.iter()));
                let m_norm = if m.starts_with("err ") { format!("err | {}", m.splitn(2, " | ").nth(1).unwrap_or("")) } else { m.clone() };
                if m_norm != i {
                    agree = false;
                    let path = write_replay(prop, &format!("corr-{}-a{}", cfg.seed, seq), &hdr, &lines);
                    rep.disagreements.push(Disagreement { seq: 2_000_000 + seq, step: step as u64, op: line, impl_out: i, model_out: m, replay: path });
                    continue 'seqs;
                }
            }
        }
        if agree && lean.is_some() {
            rep.traces_validated += 1;
        }
    }
}

/// Run the actor-level sequences (sectors_actor) and merge what concerns `prop` into `rep`.
/// Actor-level sequences are numbered 3_000_000+K inside c02/c04.
fn merge_actor_level(cfg: &RunCfg, rep: &mut Report, prop: &str) {
    match cfg.only_seq {
        Some(k) if !(3_000_000..4_000_000).contains(&k) => return,
        _ => {}
    }
    let mut sub = Report::new(prop, cfg.seed, &cfg.tier);
    super::sectors_actor::run_into(cfg, &mut sub);
    rep.sequences += sub.sequences;
    rep.ops += sub.ops;
    rep.ops_ok += sub.ops_ok;
    rep.distinct_nontrivial += sub.distinct_nontrivial;
    for (k, v) in sub.op_hist {
        *rep.op_hist.entry(format!("actor:{}", k)).or_insert(0) += v;
    }
    for (k, v) in sub.err_hist {
        *rep.err_hist.entry(format!("actor:{}", k)).or_insert(0) += v;
    }
    for (k, v) in sub.branch_hist {
        *rep.branch_hist.entry(format!("actor:{}", k)).or_insert(0) += v;
    }
    let tag = format!("/{}-", prop);
    for v in sub.violations {
        // the actor-level oracle labels each problem with the property it belongs to (replay file name)
        if v.replay.contains(&tag) {
            rep.violations.push(v);
        }
    }
    for n in sub.notes {
        if !rep.notes.contains(&n) {
            rep.notes.push(n);
        }
    }
    for s in sub.samples.into_iter().take(1) {
        rep.samples.push(s);
    }
    rep.nontrivial_rule.push_str(" | actor level: ");
    rep.nontrivial_rule.push_str(&sub.nontrivial_rule);
}

pub fn run_c04(cfg: &RunCfg) -> Report {
    let mut rep = Report::new("C04", cfg.seed, &cfg.tier);
    rep.nontrivial_rule = "a DS-level sequence is non-trivial when at least three different kinds of partition operations succeeded and changed the state; distinct = distinct hash of the op lines".into();
    run_ds(cfg, &mut rep, "C04");
    run_alloc(cfg, &mut rep, "C04");
    merge_actor_level(cfg, &mut rep, "C04");
    rep
}

pub fn run_c02(cfg: &RunCfg) -> Report {
    let mut rep = Report::new("C02", cfg.seed, &cfg.tier);
    rep.nontrivial_rule = "a DS-level sequence is non-trivial when at least three different kinds of partition operations succeeded and changed the state; distinct = distinct hash of the op lines".into();
    run_ds(cfg, &mut rep, "C02");
    // the power-actor half: claims / totals under the consensus-minimum rule (sequence ids 1_000_000+)
    if cfg.only_seq.map(|k| (1_000_000..2_000_000).contains(&k)).unwrap_or(true) {
        super::power_ds::run_into(cfg, &mut rep);
    }
    merge_actor_level(cfg, &mut rep, "C02");
    rep
}
