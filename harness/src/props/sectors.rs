//! C04 / C02 — sector bookkeeping (stub, under construction)
use super::RunCfg;
use crate::report::Report;

pub fn run_c04(cfg: &RunCfg) -> Report {
    Report::new("C04", cfg.seed, &cfg.tier)
}
pub fn run_c02(cfg: &RunCfg) -> Report {
    Report::new("C02", cfg.seed, &cfg.tier)
}
