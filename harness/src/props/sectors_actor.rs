//! C02/C04 actor level — real miners in the vvm, oracle after every message: per-miner Σ power of
//! proven/non-faulty/live sectors recomputed from the partitions vs the power actor's claim,
//! network totals vs Σ claims under the minimum rule.  (stub, filled in by the actor-level work item)
use super::RunCfg;
use crate::report::Report;

pub fn run_into(_cfg: &RunCfg, _rep: &mut Report) {}

pub fn run(cfg: &RunCfg) -> Report {
    let mut rep = Report::new("C02", cfg.seed, &cfg.tier);
    run_into(cfg, &mut rep);
    rep
}
