//! C02/C04 actor level — real miner + power actors in the vvm, an independent oracle after every
//! message and after every cron tick.
//!
//! * C02: per miner, Σ power of the sectors that are in a partition and neither terminated, faulty
//!   nor unproven (recomputed sector by sector from the raw partitions and the sectors AMT) must
//!   equal the power actor's claim; the network totals must equal the Σ of the claims under the
//!   consensus-minimum rule.
//! * C04: per partition the sector sets form a consistent partition, every memoised power / pledge /
//!   fee / count (partition, expiration-queue entry, deadline) equals what is recomputed from the
//!   individual sectors, every live sector is in exactly one partition and one expiration entry,
//!   the allocated-sector bitfield only grows.
//!
//! Nothing here goes through the Lean model or the repo's own invariant checkers (those are run as
//! a secondary signal only and end up in `notes`).
//!
//! Time: cron is ticked at the epoch being left and at the last epoch of every deadline of every
//! miner in between (the miner's deadline cron only fires there); intermediate epochs are skipped.
//!
//! Conventions:
//! * sequence `K` (0-based) is generated from `seq_rng(seed, K)`; `ba_harness c02actor --seed S
//!   --only-seq K` re-runs exactly that sequence (`BA_SHOW_STEPS=1` prints its step log to stderr).
//!   Replays: `$BA_REPLAY_DIR/C02-actor-S-K.ops` (claim / totals kinds) and `C04-actor-S-K.ops`
//!   (bookkeeping kinds): header + one line per step; the sequence itself is re-generated from the seed.
//! * sequences with `K % 12 == 5` are "big": five 64 GiB miners onboard 160..163 sectors each
//!   (10 TiB = the consensus minimum) so that claims cross the minimum and the number of miners at or
//!   above it crosses the 4-miner threshold of the total-power rule.  All others: 1–2 miners, ≤ 8 sectors.
//! * known finding F1 (creation deposit locked in the miner but missing from the power actor's
//!   total_pledge_collateral): in a network this small the first penalty/vesting paid out of those
//!   locked funds would make the total negative, abort the miner's deadline cron and make the power
//!   actor delete the claim (a C02-relevant consequence).  The harness therefore adds the deposit to
//!   the total right after `CreateMiner` (what a repair of F1 would do) — except in sequences with
//!   `K % 8 == 7` (or with `BA_NO_F1_COMP=1`), where the consequence is detected from the cron trace,
//!   recorded in `notes`/`branch_hist` with a witness file and NOT counted as a violation
//!   (`BA_F1_AS_VIOLATION=1` turns it into one).  Pledge totals are not checked here.
use super::{RunCfg, hash_lines, seq_rng};
use crate::report::{Report, Violation, write_replay};
use crate::rng::Rng;
use crate::vvm::{TEST_FAUCET_ADDR, TEST_VM_RAND_ARRAY};
use crate::world::{Applied, World, exit_class};
use fil_actor_cron::Method as CronMethod;
use fil_actor_miner::{
    CompactPartitionsParams, DeadlineInfo, DeclareFaultsParams, DeclareFaultsRecoveredParams,
    ExpirationExtension2, ExpirationQueue, ExtendSectorExpiration2Params, FaultDeclaration,
    Method as MinerMethod, PRECOMMIT_CONFIG, Partition, PoStPartition, PreCommitMap,
    PreCommitSectorBatchParams2, ProveCommitSectors3Params, RecoveryDeclaration,
    SectorActivationManifest, SectorOnChainInfo, SectorPreCommitInfo, Sectors, State as MinerState,
    SubmitWindowedPoStParams, TerminateSectorsParams, TerminationDeclaration, deadline_is_mutable,
    max_prove_commit_duration, new_deadline_info_from_offset_and_epoch, qa_power_for_sector,
};
use fil_actor_power::{CreateMinerParams, CreateMinerReturn, Method as PowerMethod, State as PowerState};
use fil_actors_runtime::runtime::Policy;
use fil_actors_runtime::test_utils::make_sealed_cid;
use fil_actors_runtime::{CRON_ACTOR_ADDR, STORAGE_POWER_ACTOR_ADDR, SYSTEM_ACTOR_ADDR};
use fvm_ipld_bitfield::BitField;
use fvm_ipld_encoding::{BytesDe, CborStore, RawBytes};
use fvm_shared::METHOD_SEND;
use fvm_shared::address::Address;
use fvm_shared::bigint::BigInt;
use fvm_shared::clock::ChainEpoch;
use fvm_shared::econ::TokenAmount;
use fvm_shared::randomness::Randomness;
use fvm_shared::sector::{PoStProof, RegisteredPoStProof, RegisteredSealProof, SectorSize};
use num_traits::{Signed, Zero};
use serde::Serialize;
use serde_json::json;
use std::collections::{BTreeMap, BTreeSet, HashSet};
use std::panic::{AssertUnwindSafe, catch_unwind};
use std::rc::Rc;
use std::time::Instant;
use vm_api::VM;
use vm_api::trace::InvocationTrace;

/// the consensus minimum as the property states it: 10 TiB of raw power, 4 miners
const SPEC_MIN_POWER: i64 = 10 << 40;
const SPEC_MIN_MINERS: i64 = 4;
/// cap on sectors per miner (each proving period costs 48 cron ticks per miner)
const MAX_SECTORS: u64 = 8;

type Pw = (BigInt, BigInt);

fn pw_zero() -> Pw {
    (BigInt::zero(), BigInt::zero())
}
fn pw_add(a: &mut Pw, b: &Pw) {
    a.0 += &b.0;
    a.1 += &b.1;
}
fn bf(bits: &[u64]) -> BitField {
    BitField::try_from_bits(bits.iter().copied()).unwrap()
}
fn set_of(b: &BitField) -> BTreeSet<u64> {
    b.bounded_iter(1 << 20).map(|it| it.collect()).unwrap_or_default()
}
fn show_set(s: &BTreeSet<u64>) -> String {
    format!("{:?}", s.iter().collect::<Vec<_>>())
}

struct Miner {
    id: Address,
    owner: Address,
    seal: RegisteredSealProof,
    post: RegisteredPoStProof,
    next_sno: u64,
    /// allocated sector numbers at the previous oracle run
    alloc_prev: BTreeSet<u64>,
    claim_nonzero: bool,
    claim_changes: u64,
    claim_last: Option<BigInt>,
    /// (state head, scan of that head) of the last problem-free scan
    cache: Option<(cid::Cid, Rc<Snap>)>,
}

#[derive(Clone, Default)]
struct PartSnap {
    dl: u64,
    idx: u64,
    sectors: BTreeSet<u64>,
    terminated: BTreeSet<u64>,
    faults: BTreeSet<u64>,
    recoveries: BTreeSet<u64>,
    unproven: BTreeSet<u64>,
}

impl PartSnap {
    fn live(&self) -> BTreeSet<u64> {
        self.sectors.difference(&self.terminated).copied().collect()
    }
    fn active(&self) -> BTreeSet<u64> {
        self.live().into_iter().filter(|n| !self.faults.contains(n) && !self.unproven.contains(n)).collect()
    }
}

#[derive(Default)]
struct Snap {
    pps: ChainEpoch,
    parts: Vec<PartSnap>,
    infos: BTreeMap<u64, SectorOnChainInfo>,
    /// pre-committed, not yet proven: sector number → pre-commit epoch
    precommits: BTreeMap<u64, ChainEpoch>,
    posted: BTreeMap<u64, BTreeSet<u64>>,
    active: Pw,
    breakdown: String,
}

struct Prob {
    prop: &'static str,
    kind: String,
    detail: String,
}

enum Stop {
    /// a violation was recorded
    Violation,
    /// a known issue made the rest of the sequence meaningless (recorded in notes)
    Known,
}

struct Ctx<'a> {
    cfg: &'a RunCfg,
    rep: &'a mut Report,
    seq: u64,
    policy: Policy,
    miners: Vec<Miner>,
    lines: Vec<String>,
    ticks: u64,
    oracle_runs: u64,
    scans: u64,
    last_above: i64,
    f1_as_violation: bool,
}

fn note(rep: &mut Report, s: String) {
    if rep.notes.len() < 40 && !rep.notes.contains(&s) {
        rep.notes.push(s);
    }
}

/// digits squeezed out so that messages differing only in numbers are recorded once
fn squeeze(s: &str) -> String {
    let mut out = String::new();
    let mut in_num = false;
    for c in s.chars() {
        if c.is_ascii_digit() {
            if !in_num {
                out.push('#');
            }
            in_num = true;
        } else {
            in_num = false;
            out.push(c);
        }
    }
    out
}

impl<'a> Ctx<'a> {
    fn dline(&self, w: &World, mi: usize, epoch: ChainEpoch) -> DeadlineInfo {
        let st: MinerState = vm_api::util::get_state(&w.vm, &self.miners[mi].id).unwrap();
        new_deadline_info_from_offset_and_epoch(&self.policy, st.proving_period_start, epoch)
    }

    fn violation(&mut self, probs: Vec<Prob>, what: &str) -> Stop {
        let mut by_prop: BTreeMap<&'static str, String> = BTreeMap::new();
        for p in probs.iter() {
            by_prop.entry(p.prop).or_default();
        }
        for (prop, path) in by_prop.iter_mut() {
            let hdr = vec![
                format!(
                    "property {} (actor level) seed {} seq {} (re-run: ba_harness c02actor --seed {} --only-seq {}; inside c02/c04 the actor-level sequences are numbered 3000000+K)",
                    prop, self.cfg.seed, 3_000_000 + self.seq, self.cfg.seed, self.seq
                ),
                format!("failing point: {}", what),
                format!(
                    "problems: {}",
                    probs.iter().filter(|p| p.prop == *prop).map(|p| p.kind.clone()).collect::<Vec<_>>().join(", ")
                ),
            ];
            *path = write_replay(prop, &format!("actor-{}-{}", self.cfg.seed, self.seq), &hdr, &self.lines);
        }
        let mut seen = HashSet::new();
        for p in probs {
            if seen.len() >= 4 || !seen.insert(p.kind.clone()) {
                continue;
            }
            self.rep.violations.push(Violation {
                kind: p.kind,
                detail: format!("seq {} at [{}]: {}", self.seq, what, p.detail),
                replay: by_prop[p.prop].clone(),
            });
        }
        Stop::Violation
    }

    /// one scripted message (counted as an op); panics are violations
    fn send<S: Serialize>(
        &mut self,
        w: &World,
        kind: &str,
        from: &Address,
        to: &Address,
        value: &TokenAmount,
        method: u64,
        params: Option<S>,
    ) -> Result<(Applied, Vec<InvocationTrace>), Stop> {
        let r = w.apply(from, to, value, method, params);
        let trace = w.take_trace();
        self.rep.ops += 1;
        self.rep.op(kind);
        if r.ok() {
            self.rep.ops_ok += 1;
        } else {
            self.rep.err(&format!("{}:{}", kind, exit_class(r.code)));
        }
        if r.panicked {
            let what = format!("{} panicked", kind);
            self.lines.push(format!("  !! {} panicked: {}", kind, r.message));
            return Err(self.violation(
                vec![Prob { prop: "C02", kind: "panic".into(), detail: r.message.clone() }],
                &what,
            ));
        }
        Ok((r, trace))
    }

    /// end-of-epoch cron at the current epoch, then the oracle
    fn tick(&mut self, w: &World) -> Result<(), Stop> {
        let r = w.apply(
            &SYSTEM_ACTOR_ADDR,
            &CRON_ACTOR_ADDR,
            &TokenAmount::zero(),
            CronMethod::EpochTick as u64,
            None::<RawBytes>,
        );
        let trace = w.take_trace();
        self.ticks += 1;
        self.rep.op("cron-tick");
        let epoch = w.vm.epoch();
        if !r.ok() {
            self.rep.err(&format!("cron-tick:{}", exit_class(r.code)));
            self.lines.push(format!("  !! cron tick @{} failed: {} {}", epoch, r.code, r.message));
            let what = format!("cron tick @{}", epoch);
            return Err(self.violation(
                vec![Prob {
                    prop: "C02",
                    kind: if r.panicked { "panic".into() } else { "cron-tick-failed".into() },
                    detail: format!("{} {}", r.code, r.message),
                }],
                &what,
            ));
        }
        // a miner whose deferred cron callback aborts loses its claim (power actor: "remove power and
        // leave miner frozen").  Find such callbacks in the trace.
        let mut failed: Vec<(Address, bool)> = vec![];
        fn walk(t: &InvocationTrace, out: &mut Vec<(Address, bool)>) {
            if t.method == MinerMethod::OnDeferredCronEvent as u64
                && t.from == STORAGE_POWER_ACTOR_ADDR.id().unwrap()
                && !t.exit_code.is_success()
            {
                let pledge = t.subinvocations.iter().any(|s| {
                    s.to == STORAGE_POWER_ACTOR_ADDR
                        && s.method == PowerMethod::UpdatePledgeTotal as u64
                        && !s.exit_code.is_success()
                });
                out.push((t.to, pledge));
            }
            for s in t.subinvocations.iter() {
                walk(s, out);
            }
        }
        for t in trace.iter() {
            walk(t, &mut failed);
        }
        if let Some((maddr, pledge)) = failed.first().cloned() {
            self.rep.err("cron-tick:miner-callback-failed");
            self.lines.push(format!(
                "  !! cron tick @{}: OnDeferredCronEvent of {} aborted ({}); the power actor deletes its claim",
                epoch,
                maddr,
                if pledge { "UpdatePledgeTotal refused: negative total pledge" } else { "other reason" }
            ));
            if pledge && !self.f1_as_violation {
                // consequence of the known finding F1 (creation deposit vests out of a pledge total
                // it was never added to): not reported as a C02 violation, but recorded with a witness
                self.rep.branch("known-F1-cron-abort-claim-deleted");
                let hdr = vec![
                    format!(
                        "KNOWN F1 consequence (not counted as violation) seed {} seq {} (re-run: ba_harness c02actor --seed {} --only-seq {})",
                        self.cfg.seed, 3_000_000 + self.seq, self.cfg.seed, self.seq
                    ),
                    format!("miner {} cron callback aborted at epoch {} because UpdatePledgeTotal would make total_pledge_collateral negative; power actor deleted the claim while the miner still has active sectors", maddr, epoch),
                ];
                let path = write_replay("C02", &format!("actor-knownF1-{}-{}", self.cfg.seed, self.seq), &hdr, &self.lines);
                if !self.rep.notes.iter().any(|n| n.starts_with("known F1 consequence")) {
                    note(
                        self.rep,
                        format!(
                            "known F1 consequence (uncompensated sequences only; count in branch_hist.known-F1-cron-abort-claim-deleted): a miner's deadline cron aborted on UpdatePledgeTotal (negative total pledge) and the power actor deleted its claim although it had active sectors; first witness {}",
                            path
                        ),
                    );
                }
                return Err(Stop::Known);
            }
            let what = format!("cron tick @{}", epoch);
            return Err(self.violation(
                vec![Prob {
                    prop: "C02",
                    kind: if pledge { "miner-cron-aborted-negative-pledge-claim-deleted".into() } else { "miner-cron-aborted-claim-deleted".into() },
                    detail: format!("miner {} OnDeferredCronEvent aborted at epoch {}", maddr, epoch),
                }],
                &what,
            ));
        }
        let what = format!("cron tick @{}", epoch);
        self.check(w, &what).map(|_| ())
    }

    /// move to `target`, ticking cron at the epoch left and at every deadline end on the way
    fn advance(&mut self, w: &World, target: ChainEpoch) -> Result<(), Stop> {
        let mut cur = w.vm.epoch();
        if target <= cur {
            return Ok(());
        }
        loop {
            self.tick(w)?;
            let mut nxt = ChainEpoch::MAX;
            for mi in 0..self.miners.len() {
                nxt = nxt.min(self.dline(w, mi, cur + 1).last());
            }
            if nxt < target {
                cur = nxt;
                w.vm.set_epoch(cur);
            } else {
                break;
            }
        }
        w.vm.set_epoch(target);
        Ok(())
    }

    /// The oracle.  Reads raw state only.
    fn check(&mut self, w: &World, what: &str) -> Result<Vec<Rc<Snap>>, Stop> {
        self.oracle_runs += 1;
        let mut probs: Vec<Prob> = vec![];
        let mut snaps: Vec<Rc<Snap>> = vec![];
        let store = w.vm.store.as_ref();
        let pst: PowerState = vm_api::util::get_state(&w.vm, &STORAGE_POWER_ACTOR_ADDR).unwrap();
        let mut claims: Vec<Option<Pw>> = vec![];
        for mi in 0..self.miners.len() {
            // the miner's state is content addressed: an unchanged head that was scanned without
            // problems need not be scanned again
            let head = w.vm.actor(&self.miners[mi].id).map(|a| a.state);
            let cached = match (&self.miners[mi].cache, &head) {
                (Some((c, s)), Some(h)) if c == h => Some(s.clone()),
                _ => None,
            };
            let s = match cached {
                Some(s) => s,
                None => {
                    let before = probs.len();
                    let s = Rc::new(scan_miner(w, &self.policy, &mut self.miners[mi], &mut probs));
                    self.scans += 1;
                    self.miners[mi].cache = if probs.len() == before { head.map(|h| (h, s.clone())) } else { None };
                    s
                }
            };
            // C02, per miner: the claim against the recomputed active power
            let id = self.miners[mi].id;
            let claim: Option<Pw> = pst.get_claim(store, &id).ok().flatten().map(|c| (c.raw_byte_power, c.quality_adj_power));
            match &claim {
                None => probs.push(Prob {
                    prop: "C02",
                    kind: "claim-missing".into(),
                    detail: format!("miner {}: no claim in the power actor; active power raw={} qa={}", id, s.active.0, s.active.1),
                }),
                Some(c) => {
                    if *c != s.active {
                        probs.push(Prob {
                            prop: "C02",
                            kind: "claim-ne-active-power".into(),
                            detail: format!(
                                "miner {}: claim raw={} qa={} but Σ over proven, non-faulty, non-terminated sectors raw={} qa={}; {}",
                                id, c.0, c.1, s.active.0, s.active.1, s.breakdown
                            ),
                        });
                    }
                }
            }
            claims.push(claim);
            snaps.push(s);
        }
        let n_above = check_network(w, &self.miners, &mut probs);
        if n_above != self.last_above {
            self.rep.branch(&format!("miners-at-or-above-minimum:{}->{}", self.last_above, n_above));
            self.last_above = n_above;
        }
        // history for the non-triviality rule
        for (mi, c) in claims.iter().enumerate() {
            let m = &mut self.miners[mi];
            let raw = c.as_ref().map(|c| c.0.clone()).unwrap_or_default();
            if !raw.is_zero() {
                m.claim_nonzero = true;
            }
            if m.claim_last.as_ref() != Some(&raw) {
                if m.claim_last.is_some() {
                    m.claim_changes += 1;
                }
                m.claim_last = Some(raw);
            }
        }
        if !probs.is_empty() {
            for p in probs.iter().take(6) {
                self.lines.push(format!("  !! {} {}: {}", p.prop, p.kind, p.detail));
            }
            return Err(self.violation(probs, what));
        }
        Ok(snaps)
    }

    /// the repo's own checker as a secondary signal (notes only)
    fn secondary(&mut self, w: &World) {
        for mi in 0..self.miners.len() {
            let id = self.miners[mi].id;
            let policy = self.policy.clone();
            let r = catch_unwind(AssertUnwindSafe(|| {
                let st: MinerState = vm_api::util::get_state(&w.vm, &id).unwrap();
                let bal = w.vm.balance(&id);
                let (_, acc) = fil_actor_miner::testing::check_state_invariants(&policy, &st, w.vm.store.as_ref(), &bal);
                acc.messages()
            }));
            match r {
                Ok(msgs) => {
                    for m in msgs {
                        let k = format!("repo-checker(miner): {}", squeeze(&m));
                        if !self.rep.notes.contains(&k) {
                            self.rep.branch("repo-checker-message");
                            note(self.rep, k);
                        }
                    }
                }
                Err(_) => note(self.rep, "repo-checker(miner) panicked".into()),
            }
        }
    }
}

/// Read one miner's raw state, evaluate C04 on it and C02's per-miner half against the claim.
fn scan_miner(w: &World, policy: &Policy, m: &mut Miner, probs: &mut Vec<Prob>) -> Snap {
    let store = w.vm.store.as_ref();
    let tag = format!("miner {}", m.id);
    let mut snap = Snap::default();
    let st: MinerState = match vm_api::util::get_state(&w.vm, &m.id) {
        Some(s) => s,
        None => {
            probs.push(Prob { prop: "C04", kind: "miner-state-unreadable".into(), detail: tag });
            return snap;
        }
    };
    snap.pps = st.proving_period_start;
    let size: SectorSize = m.seal.sector_size().unwrap();
    let raw_of = BigInt::from(size as u64);
    macro_rules! bad {
        ($prop:expr, $kind:expr, $($arg:tt)*) => {
            probs.push(Prob { prop: $prop, kind: $kind.to_string(), detail: format!("{}: {}", tag, format!($($arg)*)) })
        };
    }
    // sectors AMT
    match Sectors::load(store, &st.sectors) {
        Ok(sectors) => {
            let r = sectors.amt.for_each(|n, s| {
                snap.infos.insert(n, s.clone());
                Ok(())
            });
            if r.is_err() {
                bad!("C04", "sectors-amt-unreadable", "iteration failed");
            }
        }
        Err(e) => bad!("C04", "sectors-amt-unreadable", "{}", e),
    }
    for (n, s) in snap.infos.iter() {
        if s.sector_number != *n {
            bad!("C04", "sector-key-ne-number", "key {} holds sector {}", n, s.sector_number);
        }
    }
    let power_of = |n: &u64| -> Option<Pw> { snap.infos.get(n).map(|s| (raw_of.clone(), qa_power_for_sector(size, s))) };
    let sum_power = |set: &BTreeSet<u64>| -> (Pw, Vec<u64>) {
        let mut t = pw_zero();
        let mut missing = vec![];
        for n in set {
            match power_of(n) {
                Some(p) => pw_add(&mut t, &p),
                None => missing.push(*n),
            }
        }
        (t, missing)
    };
    // pre-commits
    if let Ok(pcs) = PreCommitMap::load(store, &st.pre_committed_sectors, PRECOMMIT_CONFIG, "precommits") {
        let mut pc = BTreeMap::new();
        let _ = pcs.for_each(|n, p| {
            pc.insert(n, p.pre_commit_epoch);
            Ok(())
        });
        snap.precommits = pc;
    }
    // deadlines → partitions
    let mut seen_in: BTreeMap<u64, Vec<(u64, u64)>> = BTreeMap::new();
    let mut breakdown: Vec<String> = vec![];
    let dls = match st.load_deadlines(store) {
        Ok(d) => d,
        Err(e) => {
            bad!("C04", "deadlines-unreadable", "{}", e);
            return snap;
        }
    };
    let mut dl_list = vec![];
    if dls.for_each(store, |i, d| {
        dl_list.push((i, d));
        Ok(())
    })
    .is_err()
    {
        bad!("C04", "deadlines-unreadable", "iteration failed");
    }
    if dl_list.len() as u64 != 48 {
        bad!("C04", "deadline-count-wrong", "{} deadlines", dl_list.len());
    }
    for (di, dl) in dl_list.iter() {
        let di = *di;
        let quant = st.quant_spec_for_deadline(policy, di);
        let mut parts: Vec<(u64, Partition)> = vec![];
        match dl.partitions_amt(store) {
            Ok(amt) => {
                if amt
                    .for_each(|pi, p| {
                        parts.push((pi, p.clone()));
                        Ok(())
                    })
                    .is_err()
                {
                    bad!("C04", "partitions-unreadable", "deadline {}", di);
                }
            }
            Err(e) => bad!("C04", "partitions-unreadable", "deadline {}: {}", di, e),
        }
        snap.posted.insert(di, set_of(&dl.partitions_posted));
        // deadline-level expiration queue (epoch -> partitions): every epoch at which a partition's own
        // queue has an entry must list that partition here, otherwise the deadline cron never visits it
        let dl_queue: BTreeMap<ChainEpoch, BTreeSet<u64>> = {
            let mut m = BTreeMap::new();
            if let Ok(q) = fil_actor_miner::BitFieldQueue::new(store, &dl.expirations_epochs, quant) {
                let _ = q.amt.for_each(|e, bf| {
                    m.insert(e as ChainEpoch, set_of(bf));
                    Ok(())
                });
            } else {
                bad!("C04", "deadline-expq-unreadable", "deadline {}", di);
            }
            m
        };
        for (pi, p) in parts.iter() {
            if let Ok(q) = ExpirationQueue::new(store, &p.expirations_epochs, quant) {
                let mut epochs = vec![];
                let _ = q.amt.for_each(|e, _| {
                    epochs.push(e as ChainEpoch);
                    Ok(())
                });
                for e in epochs {
                    if !dl_queue.get(&e).map(|s| s.contains(pi)).unwrap_or(false) {
                        bad!("C04", "deadline-expq-missing-partition", "deadline {}: partition {} has sectors expiring at {} but the deadline's expiration queue does not list it there", di, pi, e);
                    }
                }
            }
        }
        let mut dl_live: u64 = 0;
        let mut dl_total: u64 = 0;
        let mut dl_faulty = pw_zero();
        let mut dl_livepw = pw_zero();
        let mut dl_fee = TokenAmount::zero();
        for (k, (pi, p)) in parts.iter().enumerate() {
            let pi = *pi;
            let at = format!("deadline {} partition {}", di, pi);
            if pi != k as u64 {
                bad!("C04", "partition-index-gap", "{}: expected index {}", at, k);
            }
            let ps = PartSnap {
                dl: di,
                idx: pi,
                sectors: set_of(&p.sectors),
                terminated: set_of(&p.terminated),
                faults: set_of(&p.faults),
                recoveries: set_of(&p.recoveries),
                unproven: set_of(&p.unproven),
            };
            let live = ps.live();
            for n in ps.sectors.iter() {
                seen_in.entry(*n).or_default().push((di, pi));
            }
            // the sets
            let mut set_bad = vec![];
            if !ps.terminated.is_subset(&ps.sectors) {
                set_bad.push("terminated ⊄ sectors");
            }
            if !ps.faults.is_subset(&live) {
                set_bad.push("faults ⊄ sectors∖terminated");
            }
            if !ps.recoveries.is_subset(&ps.faults) {
                set_bad.push("recoveries ⊄ faults");
            }
            if !ps.unproven.is_subset(&live) || ps.unproven.intersection(&ps.faults).next().is_some() {
                set_bad.push("unproven ⊄ sectors∖terminated∖faults");
            }
            if !set_bad.is_empty() {
                bad!(
                    "C04", "partition-sets-inconsistent",
                    "{}: {} (sectors={} terminated={} faults={} recoveries={} unproven={})",
                    at, set_bad.join("; "), show_set(&ps.sectors), show_set(&ps.terminated),
                    show_set(&ps.faults), show_set(&ps.recoveries), show_set(&ps.unproven)
                );
            }
            // memoised powers
            let (live_pw, missing) = sum_power(&live);
            if !missing.is_empty() {
                bad!("C04", "live-sector-missing-info", "{}: live sectors {:?} are not in the sectors AMT", at, missing);
            }
            let live_faults: BTreeSet<u64> = ps.faults.intersection(&live).copied().collect();
            let live_unproven: BTreeSet<u64> = ps.unproven.intersection(&live).copied().collect();
            let live_recov: BTreeSet<u64> = ps.recoveries.intersection(&live).copied().collect();
            let (faulty_pw, _) = sum_power(&live_faults);
            let (unproven_pw, _) = sum_power(&live_unproven);
            let (recov_pw, _) = sum_power(&live_recov);
            let cmp = |name: &str, memo: &fil_actor_miner::PowerPair, calc: &Pw, probs: &mut Vec<Prob>| {
                if memo.raw != calc.0 || memo.qa != calc.1 {
                    probs.push(Prob {
                        prop: "C04",
                        kind: format!("partition-{}-power-mismatch", name),
                        detail: format!(
                            "{}: {}: recorded {}_power raw={} qa={} but Σ over the sectors gives raw={} qa={}",
                            tag, at, name, memo.raw, memo.qa, calc.0, calc.1
                        ),
                    });
                }
            };
            cmp("live", &p.live_power, &live_pw, probs);
            cmp("unproven", &p.unproven_power, &unproven_pw, probs);
            cmp("faulty", &p.faulty_power, &faulty_pw, probs);
            cmp("recovering", &p.recovering_power, &recov_pw, probs);
            // expiration queue
            match ExpirationQueue::new(store, &p.expirations_epochs, quant) {
                Ok(q) => {
                    let mut entries = vec![];
                    if q.amt
                        .for_each(|e, es| {
                            entries.push((e as ChainEpoch, es.clone()));
                            Ok(())
                        })
                        .is_err()
                    {
                        bad!("C04", "expq-unreadable", "{}", at);
                    }
                    let mut where_: BTreeMap<u64, u32> = BTreeMap::new();
                    for (e, es) in entries.iter() {
                        let on_time = set_of(&es.on_time_sectors);
                        let early = set_of(&es.early_sectors);
                        let eat = format!("{} expiration entry {}", at, e);
                        if quant.quantize_up(*e) != *e {
                            bad!("C04", "expq-entry-epoch-wrong", "{}: key is not a deadline-end epoch", eat);
                        }
                        for n in on_time.iter().chain(early.iter()) {
                            *where_.entry(*n).or_default() += 1;
                            if ps.terminated.contains(n) {
                                bad!("C04", "expq-terminated-sector", "{}: terminated sector {} still queued", eat, n);
                            } else if !live.contains(n) {
                                bad!("C04", "expq-sector-not-live", "{}: sector {} is not a live sector of the partition", eat, n);
                            }
                        }
                        if !early.is_subset(&ps.faults) {
                            bad!("C04", "expq-early-not-faulty", "{}: early={} faults={}", eat, show_set(&early), show_set(&ps.faults));
                        }
                        let mut pledge = TokenAmount::zero();
                        let mut fee = TokenAmount::zero();
                        let mut act = pw_zero();
                        let mut flt = pw_zero();
                        for n in on_time.iter() {
                            if let Some(s) = snap.infos.get(n) {
                                pledge += &s.initial_pledge;
                                fee += &s.daily_fee;
                                let p = power_of(n).unwrap();
                                if ps.faults.contains(n) {
                                    pw_add(&mut flt, &p);
                                } else {
                                    pw_add(&mut act, &p);
                                }
                                if quant.quantize_up(s.expiration) != *e {
                                    bad!("C04", "expq-entry-epoch-wrong", "{}: on-time sector {} expires at {} (deadline end {})", eat, n, s.expiration, quant.quantize_up(s.expiration));
                                }
                            }
                        }
                        for n in early.iter() {
                            if let Some(s) = snap.infos.get(n) {
                                fee += &s.daily_fee;
                                pw_add(&mut flt, &power_of(n).unwrap());
                                if quant.quantize_up(s.expiration) <= *e {
                                    bad!("C04", "expq-entry-epoch-wrong", "{}: early sector {} is not early (expires {})", eat, n, s.expiration);
                                }
                            }
                        }
                        if es.on_time_pledge != pledge {
                            bad!("C04", "expq-entry-pledge-mismatch", "{}: recorded on_time_pledge {} but Σ pledge(on_time={}) = {}", eat, es.on_time_pledge.atto(), show_set(&on_time), pledge.atto());
                        }
                        if es.active_power.raw != act.0 || es.active_power.qa != act.1 {
                            bad!("C04", "expq-entry-active-power-mismatch", "{}: recorded raw={} qa={} but Σ power(on_time∖faults) = raw={} qa={}", eat, es.active_power.raw, es.active_power.qa, act.0, act.1);
                        }
                        if es.faulty_power.raw != flt.0 || es.faulty_power.qa != flt.1 {
                            bad!("C04", "expq-entry-faulty-power-mismatch", "{}: recorded raw={} qa={} but Σ power((on_time∩faults)∪early) = raw={} qa={}", eat, es.faulty_power.raw, es.faulty_power.qa, flt.0, flt.1);
                        }
                        if es.fee_deduction != fee {
                            bad!("C04", "expq-entry-fee-mismatch", "{}: recorded fee_deduction {} but Σ daily_fee = {}", eat, es.fee_deduction.atto(), fee.atto());
                        }
                    }
                    for n in live.iter() {
                        match where_.get(n).copied().unwrap_or(0) {
                            1 => {}
                            0 => bad!("C04", "expq-live-sector-missing", "{}: live sector {} is in no expiration entry", at, n),
                            k => bad!("C04", "expq-sector-twice", "{}: live sector {} is in {} expiration slots", at, n, k),
                        }
                    }
                }
                Err(e) => bad!("C04", "expq-unreadable", "{}: {}", at, e),
            }
            // deadline accumulators
            dl_live += live.len() as u64;
            dl_total += ps.sectors.len() as u64;
            pw_add(&mut dl_faulty, &faulty_pw);
            pw_add(&mut dl_livepw, &live_pw);
            for n in live.iter() {
                if let Some(s) = snap.infos.get(n) {
                    dl_fee += &s.daily_fee;
                }
            }
            // C02: active power of the partition
            let active = ps.active();
            let (act_pw, _) = sum_power(&active);
            pw_add(&mut snap.active, &act_pw);
            if !ps.sectors.is_empty() {
                breakdown.push(format!(
                    "dl{}/p{}: sectors={} terminated={} faults={} unproven={} → active={} raw={} qa={}",
                    di, pi, show_set(&ps.sectors), show_set(&ps.terminated), show_set(&ps.faults),
                    show_set(&ps.unproven), show_set(&active), act_pw.0, act_pw.1
                ));
            }
            snap.parts.push(ps);
        }
        if dl.live_sectors != dl_live {
            bad!("C04", "deadline-live-sectors-mismatch", "deadline {}: recorded {} but Σ|sectors∖terminated| = {}", di, dl.live_sectors, dl_live);
        }
        if dl.total_sectors != dl_total {
            bad!("C04", "deadline-total-sectors-mismatch", "deadline {}: recorded {} but Σ|sectors| = {}", di, dl.total_sectors, dl_total);
        }
        if dl.faulty_power.raw != dl_faulty.0 || dl.faulty_power.qa != dl_faulty.1 {
            bad!("C04", "deadline-faulty-power-mismatch", "deadline {}: recorded raw={} qa={} but Σ over faulty sectors raw={} qa={}", di, dl.faulty_power.raw, dl.faulty_power.qa, dl_faulty.0, dl_faulty.1);
        }
        if dl.live_power.raw != dl_livepw.0 || dl.live_power.qa != dl_livepw.1 {
            bad!("C04", "deadline-live-power-mismatch", "deadline {}: recorded raw={} qa={} but Σ over live sectors raw={} qa={}", di, dl.live_power.raw, dl.live_power.qa, dl_livepw.0, dl_livepw.1);
        }
        if dl.daily_fee != dl_fee {
            bad!("C04", "deadline-daily-fee-mismatch", "deadline {}: recorded {} but Σ daily_fee(live) = {}", di, dl.daily_fee.atto(), dl_fee.atto());
        }
    }
    // every sector of the AMT sits in exactly one partition (live or awaiting removal)
    for n in snap.infos.keys() {
        match seen_in.get(n).map(|v| v.len()).unwrap_or(0) {
            1 => {}
            0 => bad!("C04", "sector-in-no-partition", "sector {} is in the sectors AMT but in no partition", n),
            _ => bad!("C04", "sector-in-two-partitions", "sector {} is in partitions {:?}", n, seen_in[n]),
        }
    }
    for (n, v) in seen_in.iter() {
        if v.len() > 1 && !snap.infos.contains_key(n) {
            bad!("C04", "sector-in-two-partitions", "sector number {} is in partitions {:?}", n, v);
        }
    }
    // allocated sector numbers
    match store.get_cbor::<BitField>(&st.allocated_sectors) {
        Ok(Some(a)) => {
            let alloc = set_of(&a);
            let mut seen: BTreeSet<u64> = snap.infos.keys().copied().collect();
            seen.extend(seen_in.keys().copied());
            seen.extend(snap.precommits.keys().copied());
            let miss: Vec<u64> = seen.difference(&alloc).copied().collect();
            if !miss.is_empty() {
                bad!("C04", "allocated-missing-sector", "sector numbers {:?} are in use but not marked allocated", miss);
            }
            let lost: Vec<u64> = m.alloc_prev.difference(&alloc).copied().collect();
            if !lost.is_empty() {
                bad!("C04", "allocated-shrunk", "sector numbers {:?} were allocated before and are not any more", lost);
            }
            m.alloc_prev = alloc;
        }
        _ => bad!("C04", "allocated-unreadable", "bitfield"),
    }
    snap.breakdown = breakdown.join(" | ");
    snap
}

/// C02, network half: totals vs Σ claims under the consensus-minimum rule.
fn check_network(w: &World, miners: &[Miner], probs: &mut Vec<Prob>) -> i64 {
    let store = w.vm.store.as_ref();
    let pst: PowerState = vm_api::util::get_state(&w.vm, &STORAGE_POWER_ACTOR_ADDR).unwrap();
    let mut all = pw_zero();
    let mut above = pw_zero();
    let mut n_above: i64 = 0;
    let mut n_claims: i64 = 0;
    let min = BigInt::from(SPEC_MIN_POWER);
    let mut unknown = vec![];
    match pst.load_claims(store) {
        Ok(claims) => {
            let _ = claims.for_each(|a, c| {
                n_claims += 1;
                let p = (c.raw_byte_power.clone(), c.quality_adj_power.clone());
                pw_add(&mut all, &p);
                if c.raw_byte_power >= min {
                    n_above += 1;
                    pw_add(&mut above, &p);
                }
                if c.raw_byte_power.is_negative() || c.quality_adj_power.is_negative() {
                    unknown.push(format!("negative claim of {}", a));
                }
                if !miners.iter().any(|m| m.id == a) {
                    unknown.push(format!("claim of non-miner {}", a));
                }
                Ok(())
            });
        }
        Err(e) => probs.push(Prob { prop: "C02", kind: "claims-unreadable".into(), detail: format!("{}", e) }),
    }
    for u in unknown {
        probs.push(Prob { prop: "C02", kind: "claim-invalid".into(), detail: u });
    }
    if pst.total_bytes_committed != all.0 || pst.total_qa_bytes_committed != all.1 {
        probs.push(Prob {
            prop: "C02",
            kind: "power-committed-mismatch".into(),
            detail: format!(
                "total_bytes_committed={} total_qa_bytes_committed={} but Σ claims raw={} qa={}",
                pst.total_bytes_committed, pst.total_qa_bytes_committed, all.0, all.1
            ),
        });
    }
    if pst.total_raw_byte_power != above.0 || pst.total_quality_adj_power != above.1 {
        probs.push(Prob {
            prop: "C02",
            kind: "power-total-mismatch".into(),
            detail: format!(
                "total_raw_byte_power={} total_quality_adj_power={} but Σ claims at/above the minimum raw={} qa={}",
                pst.total_raw_byte_power, pst.total_quality_adj_power, above.0, above.1
            ),
        });
    }
    if pst.miner_above_min_power_count != n_above {
        probs.push(Prob {
            prop: "C02",
            kind: "power-above-min-count-mismatch".into(),
            detail: format!("miner_above_min_power_count={} but {} claims are at/above the minimum", pst.miner_above_min_power_count, n_above),
        });
    }
    if pst.miner_count != n_claims {
        probs.push(Prob {
            prop: "C02",
            kind: "power-miner-count-mismatch".into(),
            detail: format!("miner_count={} but there are {} claims", pst.miner_count, n_claims),
        });
    }
    let expect = if n_above < SPEC_MIN_MINERS { all } else { above };
    let cur = pst.current_total_power();
    if cur.0 != expect.0 || cur.1 != expect.1 {
        probs.push(Prob {
            prop: "C02",
            kind: "power-current-total-mismatch".into(),
            detail: format!("current_total_power()=({}, {}) but the minimum rule gives ({}, {})", cur.0, cur.1, expect.0, expect.1),
        });
    }
    n_above
}

fn pick_subset(r: &mut Rng, xs: &[u64], max: usize) -> Vec<u64> {
    if xs.is_empty() {
        return vec![];
    }
    let k = (r.below(max.min(xs.len()) as u64) + 1) as usize;
    let mut pool = xs.to_vec();
    let mut out = vec![];
    for _ in 0..k {
        let i = r.below(pool.len() as u64) as usize;
        out.push(pool.swap_remove(i));
    }
    out.sort();
    out
}

/// epochs until deadline `dl` of a miner is open next (0 when it is open now)
fn next_open_of(policy: &Policy, pps: ChainEpoch, dl: u64, epoch: ChainEpoch) -> DeadlineInfo {
    let cur = new_deadline_info_from_offset_and_epoch(policy, pps, epoch);
    let mut start = cur.period_start + dl as i64 * policy.wpost_challenge_window;
    if start + policy.wpost_challenge_window <= epoch {
        start += policy.wpost_proving_period;
    }
    // the info of that window (evaluated at its first epoch, or now when it is already open)
    new_deadline_info_from_offset_and_epoch(policy, pps, start.max(epoch))
}

/// One stretch of time in which every partition holding provable sectors is proven in its window
/// (of every miner); with `heal`, faults are declared recovered as soon as their deadline allows.
fn post_period(ctx: &mut Ctx, w: &World, end: ChainEpoch, heal: bool) -> Result<(), Stop> {
    let policy = ctx.policy.clone();
    let (mut sent, mut okc) = (0, 0);
    loop {
        let now = w.vm.epoch();
        if now >= end {
            break;
        }
        let mut cur = ctx.check(&w, "post-period")?;
        if heal {
            let mut declared = false;
            for j in 0..cur.len() {
                let ps = new_deadline_info_from_offset_and_epoch(&policy, cur[j].pps, now).period_start;
                let decls: Vec<RecoveryDeclaration> = cur[j]
                    .parts
                    .iter()
                    .filter(|q| q.faults.iter().any(|n| !q.recoveries.contains(n)) && deadline_is_mutable(&policy, ps, q.dl, now))
                    .map(|q| RecoveryDeclaration { deadline: q.dl, partition: q.idx, sectors: bf(&q.faults.iter().filter(|n| !q.recoveries.contains(n)).copied().collect::<Vec<_>>()) })
                    .collect();
                if !decls.is_empty() {
                    let (jid, jowner) = (ctx.miners[j].id, ctx.miners[j].owner);
                    let desc: Vec<String> = decls.iter().map(|d| format!("dl{}/p{}", d.deadline, d.partition)).collect();
                    let (a, _) = ctx.send(&w, "declare-recovered", &jowner, &jid, &TokenAmount::zero(), MinerMethod::DeclareFaultsRecovered as u64, Some(DeclareFaultsRecoveredParams { recoveries: decls }))?;
                    ctx.lines.push(format!("   recover m{} {} @{} -> {}", j, desc.join(","), now, outcome(&a)));
                    declared = true;
                }
            }
            if declared {
                cur = ctx.check(&w, "post-period recovery declaration")?;
            }
        }
        // the next deadline (of any miner) holding sectors a PoSt can prove
        let mut best: Option<(ChainEpoch, usize, u64, u64, DeadlineInfo)> = None;
        for (j, sj) in cur.iter().enumerate() {
            for q in sj.parts.iter().filter(|q| q.live().iter().any(|n| !q.faults.contains(n) || q.recoveries.contains(n))) {
                let mut inf = next_open_of(&policy, sj.pps, q.dl, now);
                if inf.open <= now && sj.posted.get(&q.dl).map(|b| b.contains(&q.idx)).unwrap_or(false) {
                    inf = new_deadline_info_from_offset_and_epoch(&policy, sj.pps, inf.open + policy.wpost_proving_period);
                }
                let at = inf.open.max(now);
                if best.as_ref().map(|b| at < b.0).unwrap_or(true) {
                    best = Some((at, j, q.dl, q.idx, inf));
                }
            }
        }
        match best {
            Some((at, j, dl, pidx, _)) if at < end => {
                ctx.advance(&w, at)?;
                let now_info = ctx.dline(&w, j, w.vm.epoch());
                let (jid, jowner, jpost) = (ctx.miners[j].id, ctx.miners[j].owner, ctx.miners[j].post);
                let params = SubmitWindowedPoStParams {
                    deadline: dl,
                    partitions: vec![PoStPartition { index: pidx, skipped: BitField::new() }],
                    proofs: vec![PoStProof { post_proof: jpost, proof_bytes: vec![] }],
                    chain_commit_epoch: now_info.challenge,
                    chain_commit_rand: Randomness(TEST_VM_RAND_ARRAY.into()),
                };
                let (a, _) = ctx.send(&w, "post", &jowner, &jid, &TokenAmount::zero(), MinerMethod::SubmitWindowedPoSt as u64, Some(params))?;
                sent += 1;
                if a.ok() {
                    okc += 1;
                }
                ctx.lines.push(format!("   PoSt m{} dl {} p {} @{} -> {}", j, dl, pidx, w.vm.epoch(), outcome(&a)));
                if !a.ok() {
                    // do not spin on a partition that cannot be proven (e.g. all faulty)
                    let skip_to = (now_info.close).min(end);
                    ctx.advance(&w, skip_to)?;
                }
            }
            _ => {
                ctx.advance(&w, end)?;
            }
        }
    }
    ctx.lines.push(format!("   … {} PoSts sent, {} accepted, now @{}", sent, okc, w.vm.epoch()));
    Ok(())
}

fn run_sequence(cfg: &RunCfg, rep: &mut Report, seq: u64, max_steps: u64) -> (bool, Vec<String>) {
    let mut r = seq_rng(cfg.seed, seq);
    // "tiny" sequences: 2 KiB sectors, whose Window PoSt partitions hold two sectors, so that a
    // deadline soon has several partitions (deadline-level queues and memos over more than one partition)
    let tiny = seq % 4 == 1;
    let w = if tiny { World::new_small_sectors(false) } else { World::new(false) };
    let policy = w.vm.policy.clone();
    let mut ctx = Ctx {
        cfg,
        rep,
        seq,
        policy: policy.clone(),
        miners: vec![],
        lines: vec![],
        ticks: 0,
        oracle_runs: 0,
        scans: 0,
        last_above: 0,
        f1_as_violation: std::env::var("BA_F1_AS_VIOLATION").map(|v| v == "1").unwrap_or(false),
    };
    // "big" sequences: five 64 GiB miners that each onboard a little over the consensus minimum
    // (160 sectors = 10 TiB), so that claims cross the minimum and the number of miners above it
    // crosses the 4-miner threshold of the total-power rule
    let big = seq % 12 == 5;
    let n_miners = if big { 5 } else if tiny { 1 } else if r.chance(2, 5) { 2 } else { 1 };
    let cap: u64 = if big || tiny { 168 } else { MAX_SECTORS };
    // one sequence in eight runs without the F1 compensation so that the known consequence stays visible
    let compensate_f1 = std::env::var("BA_NO_F1_COMP").map(|v| v != "1").unwrap_or(true) && seq % 8 != 7;
    let accts = w.create_accounts(n_miners, 7000 + seq, &TokenAmount::from_whole(1_000_000));
    let start_epoch = r.range(0, 3000);
    w.vm.set_epoch(start_epoch);
    ctx.lines.push(format!("# seed {} seq {}: {} miner(s), start epoch {}", cfg.seed, seq, n_miners, start_epoch));
    let res: Result<(), Stop> = (|| {
        for i in 0..n_miners as usize {
            let seal = if tiny { RegisteredSealProof::StackedDRG2KiBV1P1 } else if big || r.chance(1, 3) { RegisteredSealProof::StackedDRG64GiBV1P1 } else { RegisteredSealProof::StackedDRG32GiBV1P1 };
            let post = seal.registered_window_post_proof().unwrap();
            let owner = accts[i].0;
            let params = CreateMinerParams {
                owner,
                worker: owner,
                window_post_proof_type: post,
                peer: b"miner".to_vec(),
                multiaddrs: vec![BytesDe(b"multiaddr".to_vec())],
            };
            let (a, _) = ctx.send(&w, "create-miner", &owner, &STORAGE_POWER_ACTOR_ADDR, &TokenAmount::from_whole(5000), PowerMethod::CreateMiner as u64, Some(params))?;
            assert!(a.ok(), "CreateMiner failed: {:?}", a);
            let ret: CreateMinerReturn = a.ret.unwrap().deserialize().unwrap();
            let top = w.apply(&TEST_FAUCET_ADDR, &ret.id_address, &TokenAmount::from_whole(50_000_000), METHOD_SEND, None::<RawBytes>);
            assert!(top.ok());
            w.take_trace();
            // Known finding F1: the creation deposit is locked in the miner but never added to the
            // power actor's total_pledge_collateral.  In a network this small the first penalty or
            // vesting taken from those locked funds would drive the total negative, abort the miner's
            // deadline cron and make the power actor delete the claim.  Unless the sequence is run
            // uncompensated, do what the repair of F1 would do: add the deposit to the total.
            let mst: MinerState = vm_api::util::get_state(&w.vm, &ret.id_address).unwrap();
            let deposit = mst.locked_funds.clone();
            if compensate_f1 {
                vm_api::util::mutate_state(&w.vm, &STORAGE_POWER_ACTOR_ADDR, |st: &mut PowerState| {
                    st.total_pledge_collateral += &deposit;
                });
            }
            ctx.lines.push(format!(
                "m{} = {} ({:?}) owner {} creation deposit {}{}",
                i, ret.id_address, seal, owner, deposit,
                if compensate_f1 { " (added to power.total_pledge_collateral by the harness: F1 compensation)" } else { " (F1 NOT compensated)" }
            ));
            ctx.miners.push(Miner {
                id: ret.id_address,
                owner,
                seal,
                post,
                next_sno: r.below(500),
                alloc_prev: BTreeSet::new(),
                claim_nonzero: false,
                claim_changes: 0,
                claim_last: None,
                cache: None,
            });
        }
        let mut snaps = ctx.check(&w, "after creation")?;
        if big || tiny {
            // scripted onboarding (tiny: ~160 two-sector-partition sectors, i.e. two partitions per deadline): one pre-commit batch and one prove-commit per miner, then PoSt
            // every deadline for a bit more than a proving period
            let mut counts = vec![];
            for mi in 0..ctx.miners.len() {
                let epoch = w.vm.epoch();
                let (id, owner, seal, base) = (ctx.miners[mi].id, ctx.miners[mi].owner, ctx.miners[mi].seal, ctx.miners[mi].next_sno);
                let count = 160 + r.below(4);
                let exp = epoch + policy.min_sector_expiration + max_prove_commit_duration(&policy, seal).unwrap() + r.range(0, 60) * 2880;
                let sectors: Vec<SectorPreCommitInfo> = (0..count)
                    .map(|i| SectorPreCommitInfo {
                        seal_proof: seal,
                        sector_number: base + i,
                        sealed_cid: make_sealed_cid(format!("sn: {}", base + i).as_bytes()),
                        seal_rand_epoch: epoch - 1,
                        deal_ids: vec![],
                        expiration: exp,
                        unsealed_cid: fil_actor_miner::CompactCommD::empty(),
                    })
                    .collect();
                let (a, _) = ctx.send(&w, "precommit", &owner, &id, &TokenAmount::zero(), MinerMethod::PreCommitSectorBatch2 as u64, Some(PreCommitSectorBatchParams2 { sectors }))?;
                ctx.lines.push(format!("setup @{} m{} precommit sectors {}..{} exp {} -> {}", epoch, mi, base, base + count - 1, exp, outcome(&a)));
                ctx.miners[mi].next_sno = base + count;
                counts.push((base, count));
                ctx.check(&w, "setup precommit")?;
            }
            let to = w.vm.epoch() + policy.pre_commit_challenge_delay + 1 + r.range(0, 50);
            ctx.advance(&w, to)?;
            for mi in 0..ctx.miners.len() {
                let (id, owner) = (ctx.miners[mi].id, ctx.miners[mi].owner);
                let (base, count) = counts[mi];
                let nums: Vec<u64> = (base..base + count).collect();
                let params = ProveCommitSectors3Params {
                    sector_activations: nums.iter().map(|n| SectorActivationManifest { sector_number: *n, pieces: vec![] }).collect(),
                    sector_proofs: nums.iter().map(|n| RawBytes::new(vec![*n as u8; 4])).collect(),
                    aggregate_proof: RawBytes::default(),
                    aggregate_proof_type: None,
                    require_activation_success: true,
                    require_notification_success: false,
                };
                let (a, _) = ctx.send(&w, "prove-commit", &owner, &id, &TokenAmount::zero(), MinerMethod::ProveCommitSectors3 as u64, Some(params))?;
                ctx.lines.push(format!("setup @{} m{} prove {} sectors -> {}", w.vm.epoch(), mi, count, outcome(&a)));
                ctx.check(&w, "setup prove-commit")?;
            }
            let end = w.vm.epoch() + policy.wpost_proving_period + r.range(0, 10) * policy.wpost_challenge_window;
            ctx.lines.push(format!("setup @{}: PoSt everything until {}", w.vm.epoch(), end));
            post_period(&mut ctx, &w, end, true)?;
            snaps = ctx.check(&w, "after setup")?;
        }
        let steps = r.range(15, max_steps as i64) as u64;
        for step in 0..steps {
            let epoch = w.vm.epoch();
            let mi = r.below(ctx.miners.len() as u64) as usize;
            let (id, owner, seal, post) = {
                let m = &ctx.miners[mi];
                (m.id, m.owner, m.seal, m.post)
            };
            let s = &snaps[mi];
            let n_sectors = (s.infos.len() + s.precommits.len()) as u64;
            let with_sectors: Vec<&PartSnap> = s.parts.iter().filter(|p| !p.live().is_empty()).collect();
            let with_faults: Vec<&PartSnap> = s.parts.iter().filter(|p| !p.faults.is_empty()).collect();
            let with_healthy: Vec<&PartSnap> = s.parts.iter().filter(|p| p.live().iter().any(|n| !p.faults.contains(n))).collect();
            let with_term: Vec<&PartSnap> = s.parts.iter().filter(|p| !p.terminated.is_empty()).collect();
            let provable_any = s.parts.iter().any(|p| p.live().iter().any(|n| !p.faults.contains(n) || p.recoveries.contains(n)));
            let mutable = |p: &&PartSnap| deadline_is_mutable(&policy, new_deadline_info_from_offset_and_epoch(&policy, s.pps, epoch).period_start, p.dl, epoch);
            // weights of the step kinds in the current state
            let wts: Vec<(&str, u64)> = vec![
                ("precommit", if n_sectors >= cap { 1 } else if s.infos.is_empty() && s.precommits.is_empty() { 60 } else { 14 }),
                ("prove", if s.precommits.is_empty() { 1 } else { 40 }),
                ("post", if with_sectors.is_empty() { 0 } else if provable_any { 26 } else { 3 }),
                ("post-period", if with_sectors.is_empty() { 0 } else { 8 }),
                ("miss", if with_sectors.is_empty() { 0 } else { 5 }),
                ("fault", if with_healthy.is_empty() { 1 } else { 10 }),
                ("recover", if with_faults.is_empty() { 1 } else if provable_any { 14 } else { 30 }),
                ("terminate", if with_sectors.is_empty() { 1 } else { 5 }),
                ("extend", if with_sectors.is_empty() { 1 } else if tiny { 30 } else { 5 }),
                ("compact", if with_term.is_empty() { 1 } else { 5 }),
                ("advance", 10),
            ];
            let total: u64 = wts.iter().map(|x| x.1).sum();
            let mut k = r.below(total);
            let mut kind = "advance";
            for (name, wt) in wts.iter() {
                if k < *wt {
                    kind = name;
                    break;
                }
                k -= wt;
            }
            let hdr = format!("step {} @{} m{} {}", step, epoch, mi, kind);
            // pick a partition for the partition-directed steps, preferring mutable deadlines
            let choose = |r: &mut Rng, cands: &Vec<&PartSnap>| -> Option<PartSnap> {
                if cands.is_empty() {
                    return None;
                }
                let good: Vec<&&PartSnap> = cands.iter().filter(|p| mutable(p)).collect();
                if !good.is_empty() && r.chance(4, 5) {
                    Some((**r.pick(&good)).clone())
                } else {
                    Some((*r.pick(cands)).clone())
                }
            };
            match kind {
                "precommit" => {
                    let count = r.range(1, 4.min((cap.saturating_sub(n_sectors)).max(1) as i64)) as u64;
                    let flaw = if r.chance(1, 8) { r.below(3) + 1 } else { 0 };
                    let base = if flaw == 1 && !ctx.miners[mi].alloc_prev.is_empty() {
                        *ctx.miners[mi].alloc_prev.iter().next().unwrap() // re-used sector number
                    } else {
                        ctx.miners[mi].next_sno
                    };
                    let mut exp = epoch + policy.min_sector_expiration + max_prove_commit_duration(&policy, seal).unwrap() + r.range(0, 60) * 2880;
                    if flaw == 2 {
                        exp = epoch + policy.min_sector_expiration - 2880; // too short
                    }
                    let sectors: Vec<SectorPreCommitInfo> = (0..count)
                        .map(|i| SectorPreCommitInfo {
                            seal_proof: if flaw == 3 { RegisteredSealProof::StackedDRG2KiBV1P1 } else { seal },
                            sector_number: base + i,
                            sealed_cid: make_sealed_cid(format!("sn: {}", base + i).as_bytes()),
                            seal_rand_epoch: epoch - 1,
                            deal_ids: vec![],
                            expiration: exp,
                            unsealed_cid: fil_actor_miner::CompactCommD::empty(),
                        })
                        .collect();
                    let (a, _) = ctx.send(&w, "precommit", &owner, &id, &TokenAmount::zero(), MinerMethod::PreCommitSectorBatch2 as u64, Some(PreCommitSectorBatchParams2 { sectors }))?;
                    if a.ok() {
                        ctx.miners[mi].next_sno = base + count;
                    }
                    ctx.lines.push(format!("{} sectors {}..{} exp {} flaw {} -> {}", hdr, base, base + count - 1, exp, flaw, outcome(&a)));
                }
                "prove" => {
                    let delay = policy.pre_commit_challenge_delay;
                    let mut pend: Vec<(u64, ChainEpoch)> = s.precommits.iter().map(|(a, b)| (*a, *b)).collect();
                    pend.sort();
                    let early = r.chance(1, 10);
                    if !pend.is_empty() && !early {
                        let ready_at = pend.iter().map(|p| p.1).max().unwrap() + delay + 1;
                        if ready_at > epoch {
                            let to = ready_at + r.range(0, 2) * r.range(0, 200);
                            ctx.lines.push(format!("{}: advance to {} (challenge delay)", hdr, to));
                            ctx.advance(&w, to)?;
                        }
                    }
                    let nums: Vec<u64> = if pend.is_empty() {
                        vec![ctx.miners[mi].next_sno + 7] // not pre-committed
                    } else {
                        pick_subset(&mut r, &pend.iter().map(|p| p.0).collect::<Vec<_>>(), 4)
                    };
                    let params = ProveCommitSectors3Params {
                        sector_activations: nums.iter().map(|n| SectorActivationManifest { sector_number: *n, pieces: vec![] }).collect(),
                        sector_proofs: nums.iter().map(|n| RawBytes::new(vec![*n as u8; 4])).collect(),
                        aggregate_proof: RawBytes::default(),
                        aggregate_proof_type: None,
                        require_activation_success: !r.chance(1, 5),
                        require_notification_success: false,
                    };
                    let (a, _) = ctx.send(&w, "prove-commit", &owner, &id, &TokenAmount::zero(), MinerMethod::ProveCommitSectors3 as u64, Some(params))?;
                    let pst: PowerState = vm_api::util::get_state(&w.vm, &STORAGE_POWER_ACTOR_ADDR).unwrap();
                    ctx.lines.push(format!("{} @{} sectors {:?} -> {} (network pledge total now {})", hdr, w.vm.epoch(), nums, outcome(&a), pst.total_pledge_collateral));
                }
                "post" | "miss" => {
                    // prefer partitions where a PoSt does something: recoveries, unproven, active sectors
                    let mut pool: Vec<&PartSnap> = vec![];
                    for q in with_sectors.iter() {
                        let wt = if !q.recoveries.is_empty() { 6 } else if !q.unproven.is_empty() { 6 } else if !q.active().is_empty() { 3 } else { 0 };
                        for _ in 0..wt {
                            pool.push(q);
                        }
                    }
                    if pool.is_empty() || r.chance(1, 12) {
                        pool = with_sectors.clone();
                    }
                    let p = (*r.pick(&pool)).clone();
                    let mut info = next_open_of(&policy, s.pps, p.dl, epoch);
                    // already posted in the window that is open now: usually go for the next one
                    if info.open <= epoch && s.posted.get(&p.dl).map(|b| b.contains(&p.idx)).unwrap_or(false) && r.chance(4, 5) {
                        info = new_deadline_info_from_offset_and_epoch(&policy, s.pps, info.open + policy.wpost_proving_period);
                    }
                    if kind == "miss" {
                        ctx.lines.push(format!("{} dl {} : advance to {} without PoSt", hdr, p.dl, info.close));
                        ctx.advance(&w, info.close)?;
                    } else {
                        let flaw = if r.chance(1, 10) { r.below(3) + 1 } else { 0 };
                        let at = match if flaw == 1 { 9 } else { r.below(6) } {
                            0 => info.open,
                            1 => info.close - 1,
                            2 => info.open + 1,
                            9 => info.close, // one epoch late
                            _ => r.range(info.open, info.close - 1),
                        }
                        .max(epoch);
                        ctx.advance(&w, at)?;
                        let now = ctx.dline(&w, mi, w.vm.epoch());
                        // what is in the partition now (cron may have changed it on the way)
                        let snaps_now = ctx.check(&w, "before PoSt")?;
                        let pn = snaps_now[mi].parts.iter().find(|q| q.dl == p.dl && q.idx == p.idx).cloned().unwrap_or_default();
                        let provable: Vec<u64> = pn.live().into_iter().filter(|n| !pn.faults.contains(n) || pn.recoveries.contains(n)).collect();
                        let skipped = if r.chance(1, 4) { pick_subset(&mut r, &provable, 3) } else { vec![] };
                        let params = SubmitWindowedPoStParams {
                            deadline: if flaw == 2 { (p.dl + 1) % 48 } else { p.dl },
                            partitions: vec![PoStPartition { index: if flaw == 3 { p.idx + 1 } else { p.idx }, skipped: bf(&skipped) }],
                            proofs: vec![PoStProof { post_proof: post, proof_bytes: vec![] }],
                            chain_commit_epoch: now.challenge,
                            chain_commit_rand: Randomness(TEST_VM_RAND_ARRAY.into()),
                        };
                        let (a, _) = ctx.send(&w, "post", &owner, &id, &TokenAmount::zero(), MinerMethod::SubmitWindowedPoSt as u64, Some(params))?;
                        ctx.lines.push(format!("{} dl {} p {} @{} (window {}..{}) skipped {:?} flaw {} -> {}", hdr, p.dl, p.idx, w.vm.epoch(), info.open, info.close, skipped, flaw, outcome(&a)));
                    }
                }
                "post-period" => {
                    // one proving period in which every partition with provable sectors is proven
                    let end = epoch + policy.wpost_proving_period;
                    let heal = r.chance(3, 5);
                    ctx.lines.push(format!("{}: PoSt everything until {}{}", hdr, end, if heal { ", declaring every fault recovered as soon as its deadline allows" } else { "" }));
                    post_period(&mut ctx, &w, end, heal)?;
                }
                "fault" | "recover" | "terminate" | "extend" => {
                    let cands = match kind {
                        "fault" => &with_healthy,
                        "recover" => &with_faults,
                        _ => &with_sectors,
                    };
                    let p = choose(&mut r, cands);
                    if let Some(p) = &p {
                        // these are refused close to (and inside) the deadline's challenge window: usually wait
                        // until the window has closed
                        if !mutable(&p) && r.chance(4, 5) {
                            let inf = next_open_of(&policy, s.pps, p.dl, epoch);
                            let to = inf.close + r.range(0, 3) * r.range(0, 300);
                            ctx.lines.push(format!("{}: deadline {} is immutable now, advance to {}", hdr, p.dl, to));
                            ctx.advance(&w, to)?;
                        }
                    }
                    let (dl, pidx, nums): (u64, u64, Vec<u64>) = match (&p, kind) {
                        (None, _) => (r.below(48), 0, vec![ctx.miners[mi].next_sno + 3]),
                        (Some(p), "fault") => {
                            let pool: Vec<u64> = if r.chance(5, 6) { p.live().into_iter().filter(|n| !p.faults.contains(n)).collect() } else { p.sectors.iter().copied().collect() };
                            (p.dl, p.idx, pick_subset(&mut r, &pool, if big { 6 } else { 3 }))
                        }
                        (Some(p), "recover") => {
                            let pool: Vec<u64> = if r.chance(5, 6) { p.faults.iter().copied().collect() } else { p.live().into_iter().collect() };
                            (p.dl, p.idx, pick_subset(&mut r, &pool, 3))
                        }
                        (Some(p), "extend") => {
                            let act: Vec<u64> = p.active().into_iter().collect();
                            let pool: Vec<u64> = if !act.is_empty() && r.chance(5, 6) { act } else { p.live().into_iter().collect() };
                            (p.dl, p.idx, pick_subset(&mut r, &pool, 3))
                        }
                        (Some(p), _) => {
                            let pool: Vec<u64> = if r.chance(7, 8) { p.live().into_iter().collect() } else { p.sectors.iter().copied().collect() };
                            (p.dl, p.idx, pick_subset(&mut r, &pool, if kind == "terminate" { 2 } else { 3 }))
                        }
                    };
                    let dl_used = if r.chance(1, 12) { (dl + 1) % 48 } else { dl };
                    let a = match kind {
                        "fault" => ctx.send(&w, "declare-faults", &owner, &id, &TokenAmount::zero(), MinerMethod::DeclareFaults as u64,
                            Some(DeclareFaultsParams { faults: vec![FaultDeclaration { deadline: dl_used, partition: pidx, sectors: bf(&nums) }] }))?.0,
                        "recover" => ctx.send(&w, "declare-recovered", &owner, &id, &TokenAmount::zero(), MinerMethod::DeclareFaultsRecovered as u64,
                            Some(DeclareFaultsRecoveredParams { recoveries: vec![RecoveryDeclaration { deadline: dl_used, partition: pidx, sectors: bf(&nums) }] }))?.0,
                        "terminate" => ctx.send(&w, "terminate", &owner, &id, &TokenAmount::zero(), MinerMethod::TerminateSectors as u64,
                            Some(TerminateSectorsParams { terminations: vec![TerminationDeclaration { deadline: dl_used, partition: pidx, sectors: bf(&nums) }] }))?.0,
                        _ => {
                            let old = nums.iter().filter_map(|n| s.infos.get(n)).map(|i| i.expiration).max().unwrap_or(epoch + policy.min_sector_expiration);
                            let new_exp = match if tiny && r.chance(4, 5) { 7 } else { r.below(8) } {
                                0 => old - 2880,                                          // shorter: refused
                                1 => epoch + policy.max_sector_expiration_extension + 1, // too far
                                2 => old,
                                _ => old + r.range(1, 200) * 2880 + r.range(0, 2879),
                            };
                            let mut extensions = vec![ExpirationExtension2 { deadline: dl_used, partition: pidx, sectors: bf(&nums), sectors_with_claims: vec![], new_expiration: new_exp }];
                            // one message, several declarations: other partitions of the same deadline,
                            // mostly with the same new expiration
                            for q in s.parts.iter().filter(|q| q.dl == dl_used && q.idx != pidx) {
                                if extensions.len() >= 3 || !r.chance(2, 3) { continue; }
                                let act2: Vec<u64> = q.active().into_iter().collect();
                                if act2.is_empty() { continue; }
                                let e2 = if r.chance(3, 4) { new_exp } else { new_exp + 2880 };
                                extensions.push(ExpirationExtension2 { deadline: dl_used, partition: q.idx, sectors: bf(&pick_subset(&mut r, &act2, 2)), sectors_with_claims: vec![], new_expiration: e2 });
                            }
                            let ndecl = extensions.len();
                            let a = ctx.send(&w, "extend", &owner, &id, &TokenAmount::zero(), MinerMethod::ExtendSectorExpiration2 as u64,
                                Some(ExtendSectorExpiration2Params { extensions }))?.0;
                            ctx.lines.push(format!("   new expiration {} ({} declaration(s))", new_exp, ndecl));
                            a
                        }
                    };
                    ctx.lines.push(format!("{} dl {} p {} sectors {:?} -> {}", hdr, dl_used, pidx, nums, outcome(&a)));
                }
                "compact" => {
                    let p = if with_term.is_empty() { choose(&mut r, &with_sectors) } else { choose(&mut r, &with_term) };
                    let dl = p.as_ref().map(|p| p.dl).unwrap_or_else(|| r.below(48));
                    let ps = new_deadline_info_from_offset_and_epoch(&policy, s.pps, epoch).period_start;
                    if !fil_actor_miner::deadline_available_for_compaction(&policy, ps, dl, epoch) && r.chance(3, 4) {
                        // allowed only from the end of the dispute window after the deadline's last
                        // challenge window until one window before it opens again
                        let inf = next_open_of(&policy, s.pps, dl, epoch);
                        let to = if inf.open <= epoch { inf.close } else { inf.close - policy.wpost_proving_period }.max(epoch - policy.wpost_proving_period)
                            + policy.wpost_dispute_window
                            + r.range(0, 700);
                        let to = if to <= epoch { to + policy.wpost_proving_period } else { to };
                        ctx.lines.push(format!("{}: deadline {} cannot be compacted now, advance to {}", hdr, dl, to));
                        ctx.advance(&w, to)?;
                    }
                    let (a, _) = ctx.send(&w, "compact", &owner, &id, &TokenAmount::zero(), MinerMethod::CompactPartitions as u64,
                        Some(CompactPartitionsParams { deadline: dl, partitions: bf(&[p.as_ref().map(|p| p.idx).unwrap_or(0)]) }))?;
                    ctx.lines.push(format!("{} dl {} -> {}", hdr, dl, outcome(&a)));
                }
                _ => {
                    let info = ctx.dline(&w, mi, epoch);
                    let to = match r.below(7) {
                        0 => info.close,                                 // just after the boundary
                        1 => if info.last() > epoch { info.last() } else { info.close }, // just before it
                        2 => epoch + policy.wpost_proving_period,
                        3 => epoch + policy.wpost_challenge_window,
                        4 => epoch + 1,
                        5 => info.close + 1,
                        _ => epoch + r.range(2, 400),
                    };
                    ctx.lines.push(format!("{} -> epoch {}", hdr, to));
                    ctx.rep.ops += 1;
                    ctx.rep.ops_ok += 1;
                    ctx.rep.op("advance");
                    ctx.advance(&w, to)?;
                }
            }
            let what = format!("step {} ({})", step, kind);
            snaps = ctx.check(&w, &what)?;
            if step % 4 == 3 {
                ctx.secondary(&w);
            }
        }
        // let the dust settle: two deadline ends per miner, oracle at each
        let to = w.vm.epoch() + 2 * policy.wpost_challenge_window;
        ctx.advance(&w, to)?;
        ctx.check(&w, "end of sequence")?;
        ctx.secondary(&w);
        Ok(())
    })();
    let _ = res;
    for (i, m) in ctx.miners.iter().enumerate() {
        if let Some(st) = vm_api::util::get_state::<MinerState>(&w.vm, &m.id) {
            ctx.lines.push(format!(
                "# end @{}: m{} balance {} locked {} pledge {} fee_debt {} claim changes {}",
                w.vm.epoch(), i, w.vm.balance(&m.id), st.locked_funds, st.initial_pledge, st.fee_debt, m.claim_changes
            ));
        }
    }
    ctx.rep.branch_hist.entry("cron-ticks".into()).and_modify(|v| *v += ctx.ticks).or_insert(ctx.ticks);
    ctx.rep.branch_hist.entry("oracle-runs".into()).and_modify(|v| *v += ctx.oracle_runs).or_insert(ctx.oracle_runs);
    ctx.rep.branch_hist.entry("miner-state-scans".into()).and_modify(|v| *v += ctx.scans).or_insert(ctx.scans);
    let nontrivial = ctx.miners.iter().any(|m| m.claim_nonzero && m.claim_changes >= 2);
    (nontrivial, ctx.lines)
}

fn outcome(a: &Applied) -> String {
    if a.ok() {
        "ok".into()
    } else {
        let mut m = a.message.clone();
        m.truncate(400);
        format!("{} ({})", exit_class(a.code), m)
    }
}

pub fn run_into(cfg: &RunCfg, rep: &mut Report) {
    rep.nontrivial_rule = "a sequence is non-trivial when some miner's claim was non-zero at some oracle point and the claim's raw power changed at least twice; distinct = distinct hash of the step log".into();
    let (nseq, max_steps) = if cfg.thorough() { (320u64, 60u64) } else { (24, 40) };
    let nseq = nseq * cfg.budget.max(1);
    let seqs: Vec<u64> = match cfg.only_seq {
        Some(k) if k >= 3_000_000 => vec![k - 3_000_000],
        Some(k) => vec![k],
        None => (0..nseq).collect(),
    };
    let t0 = Instant::now();
    let mut seen = HashSet::new();
    for seq in seqs {
        rep.sequences += 1;
        let r = catch_unwind(AssertUnwindSafe(|| run_sequence(cfg, rep, seq, max_steps)));
        match r {
            Ok((nontrivial, lines)) => {
                if nontrivial && seen.insert(hash_lines(&lines)) {
                    rep.distinct_nontrivial += 1;
                    if rep.samples.len() < 3 {
                        rep.samples.push(json!({"seq": seq, "steps": lines.iter().take(14).collect::<Vec<_>>()}));
                    }
                }
                if cfg.only_seq.is_some() && std::env::var("BA_SHOW_STEPS").is_ok() {
                    for l in lines.iter() {
                        eprintln!("{}", l);
                    }
                }
            }
            Err(p) => {
                let msg = p.downcast_ref::<String>().cloned().or_else(|| p.downcast_ref::<&str>().map(|s| s.to_string())).unwrap_or_else(|| "panic".into());
                rep.err("harness-panic");
                note(rep, format!("sequence {} aborted by a harness panic: {}", seq, msg));
            }
        }
    }
    note(
        rep,
        format!(
            "actor-level C02/C04: {} sequences in {:.1}s; cron ticked at the epoch left and at every deadline end of every miner (not at every epoch); oracle after every message and every tick",
            rep.sequences,
            t0.elapsed().as_secs_f64()
        ),
    );
}

pub fn run(cfg: &RunCfg) -> Report {
    let mut rep = Report::new("C02", cfg.seed, &cfg.tier);
    run_into(cfg, &mut rep);
    rep
}
