//! C06 / C07 / C08 — storage market: escrow = obligations, schedule-independent payments, deal
//! lifecycle.  Real market actor (with real miner actors as providers, account clients) in the vvm
//! ⇄ Lean `BA.Market` model, plus independent oracles (one subset per property id).
use super::{RunCfg, hash_lines, seq_rng};
use crate::lean::LeanDriver;
use crate::report::{Disagreement, Report, Violation, write_replay};
use crate::rng::Rng;
use crate::vvm::TEST_FAUCET_ADDR;
use crate::world::{Applied, World, exit_class};
use cid::Cid;
use fil_actor_market::balance_table::BalanceTable;
use fil_actor_market::ext::miner::{
    PieceChange, SectorChanges, SectorContentChangedParams, SectorContentChangedReturn,
};
use fil_actor_market::{
    BatchActivateDealsParams, BatchActivateDealsResult, ClientDealProposal, DealProposal, Label,
    Method as MarketMethod, OnMinerSectorsTerminateParams, PublishStorageDealsParams,
    PublishStorageDealsReturn, SectorDeals, SettleDealPaymentsParams, SettleDealPaymentsReturn,
    State as MState, WithdrawBalanceParams, WithdrawBalanceReturn,
};
use fil_actor_miner::{ChangeWorkerAddressParams, Method as MinerMethod};
use fil_actor_power::{CreateMinerParams, CreateMinerReturn, Method as PowerMethod};
use fil_actors_integration_tests::util::{create_miner_deposit_for_test, deal_cid_for_testing};
use fil_actors_runtime::cbor::serialize;
use fil_actors_runtime::runtime::Policy;
use fil_actors_runtime::test_utils::make_piece_cid;
use fil_actors_runtime::{
    BURNT_FUNDS_ACTOR_ADDR, CRON_ACTOR_ADDR, STORAGE_MARKET_ACTOR_ADDR, STORAGE_POWER_ACTOR_ADDR,
};
use fvm_ipld_bitfield::BitField;
use fvm_ipld_encoding::{BytesDe, RawBytes};
use fvm_shared::address::Address;
use fvm_shared::bigint::BigInt;
use fvm_shared::crypto::signature::{Signature, SignatureType};
use fvm_shared::econ::TokenAmount;
use fvm_shared::piece::PaddedPieceSize;
use fvm_shared::sector::{RegisteredPoStProof, RegisteredSealProof};
use fvm_shared::METHOD_SEND;
use num_traits::{Signed, Zero};
use serde_json::json;
use std::collections::{BTreeMap, BTreeSet, HashSet};
use vm_api::VM;
use vm_api::trace::InvocationTrace;
use vm_api::util::get_state;

/// the protocol's deal duration bounds (policy.rs: 180 and 1278 days of 2880 epochs)
const DUR_MIN: i64 = 180 * 2880;
const DUR_MAX: i64 = 1278 * 2880;
/// deal_updates_interval as the model reads it from the generated constants (cross-checked below)
const UPDATES_INTERVAL: i64 = 30 * 2880;
/// provider collateral used by well-formed deals (far above the computed minimum, asserted in setup)
const PC_BASE: i128 = 100_000_000_000_000_000;

fn atto(n: i128) -> TokenAmount {
    TokenAmount::from_atto(BigInt::from(n))
}
fn big(t: &TokenAmount) -> BigInt {
    t.atto().clone()
}

#[derive(Clone, Debug)]
struct Miner {
    id: Address,
    robust: Address,
    owner: Address,
    worker: Address,
    control: Option<Address>,
}

struct Env {
    w: World,
    /// (id address, key address)
    clients: Vec<(Address, Address)>,
    miners: Vec<Miner>,
    stranger: Address,
    burnt0: TokenAmount,
}

impl Env {
    fn miner_of(&self, a: &Address) -> Option<&Miner> {
        self.miners.iter().find(|m| m.id == *a)
    }
}

fn setup() -> Env {
    let w = World::new(false);
    let accts = w.create_accounts(9, 777, &TokenAmount::from_whole(1_000_000));
    let clients = vec![accts[0], accts[1], accts[2]];
    let stranger = accts[8].0;
    let mut miners = vec![];
    for (owner, worker, control) in
        [(accts[3], accts[4], Some(accts[5])), (accts[6], accts[6], None::<(Address, Address)>)]
    {
        let deposit = create_miner_deposit_for_test(&w.vm);
        let params = CreateMinerParams {
            owner: owner.0,
            worker: worker.1,
            window_post_proof_type: RegisteredPoStProof::StackedDRGWindow32GiBV1P1,
            peer: b"miner".to_vec(),
            multiaddrs: vec![BytesDe(b"multiaddr".to_vec())],
        };
        // a plain CreateMiner message from the owner (the creation deposit stays in place)
        let r = w.apply(&owner.0, &STORAGE_POWER_ACTOR_ADDR, &deposit, PowerMethod::CreateMiner as u64, Some(params));
        assert!(r.ok(), "CreateMiner failed: {:?}", r);
        let ret: CreateMinerReturn = r.ret.unwrap().deserialize().unwrap();
        if let Some(c) = control {
            let p = ChangeWorkerAddressParams { new_worker: worker.0, new_control_addresses: vec![c.0] };
            let r = w.apply(&owner.0, &ret.id_address, &TokenAmount::zero(), MinerMethod::ChangeWorkerAddress as u64, Some(p));
            assert!(r.ok(), "ChangeWorkerAddress failed: {:?}", r);
        }
        miners.push(Miner {
            id: ret.id_address,
            robust: ret.robust_address,
            owner: owner.0,
            worker: worker.0,
            control: control.map(|c| c.0),
        });
    }
    let burnt0 = w.balance(&BURNT_FUNDS_ACTOR_ADDR);
    w.take_trace();
    Env { w, clients, miners, stranger, burnt0 }
}

/// lower bound of the provider collateral as the market computes it right now
fn min_provider_collateral(env: &Env) -> TokenAmount {
    let pst: fil_actor_power::State = get_state(&env.w.vm, &STORAGE_POWER_ACTOR_ADDR).unwrap();
    let rst: fil_actor_reward::State = get_state(&env.w.vm, &fil_actors_runtime::REWARD_ACTOR_ADDR).unwrap();
    let (lo, _) = fil_actor_market::policy::deal_provider_collateral_bounds(
        &Policy::default(),
        PaddedPieceSize(2048),
        &pst.this_epoch_raw_byte_power,
        &rst.this_epoch_baseline_power,
        &env.w.vm.circulating_supply(),
    );
    lo
}

// ------------------------------------------------------------------ view of the real state

#[derive(Clone, Debug, PartialEq)]
struct DealView {
    client: u64,
    provider: u64,
    start: i64,
    end: i64,
    price: BigInt,
    cc: BigInt,
    pc: BigInt,
    tag: u64,
    /// (sector_start, last_updated, sector, slash_epoch)
    state: Option<(i64, i64, u64, i64)>,
    pending: bool,
    cid: Cid,
}

impl DealView {
    fn fee(&self) -> BigInt {
        &self.price * BigInt::from(self.end - self.start)
    }
    /// closed form of what the provider must have been credited so far
    fn paid_cf(&self) -> BigInt {
        match self.state {
            Some((_, lu, _, _)) if lu != -1 => {
                let upto = lu.max(self.start).min(self.end);
                &self.price * BigInt::from(upto - self.start)
            }
            _ => BigInt::zero(),
        }
    }
}

#[derive(Clone, Debug, Default)]
struct View {
    epoch: i64,
    next_id: u64,
    last_cron: i64,
    totals: [BigInt; 3],
    bal: BTreeMap<u64, (BigInt, BigInt)>,
    deals: BTreeMap<u64, DealView>,
    pend_count: u64,
    ops: Vec<(i64, u64)>,
    burnt: BigInt,
    market_balance: BigInt,
}

impl View {
    fn escrow(&self, a: u64) -> BigInt {
        self.bal.get(&a).map(|x| x.0.clone()).unwrap_or_default()
    }
    fn locked(&self, a: u64) -> BigInt {
        self.bal.get(&a).map(|x| x.1.clone()).unwrap_or_default()
    }
    fn avail(&self, a: u64) -> BigInt {
        self.escrow(a) - self.locked(a)
    }
}

fn tag_of(l: &Label) -> u64 {
    match l {
        Label::String(s) if s.starts_with('l') => s[1..].parse().unwrap_or(999),
        _ => 999,
    }
}

fn view(env: &Env) -> View {
    let st: MState = get_state(&env.w.vm, &STORAGE_MARKET_ACTOR_ADDR).unwrap();
    let store = env.w.vm.store.as_ref();
    let mut v = View {
        epoch: env.w.vm.epoch(),
        next_id: st.next_id,
        last_cron: st.last_cron,
        totals: [
            big(&st.total_client_locked_collateral),
            big(&st.total_provider_locked_collateral),
            big(&st.total_client_storage_fee),
        ],
        ..Default::default()
    };
    let pending = st.load_pending_deals(store).unwrap();
    v.pend_count = pending.collect_keys().unwrap().len() as u64;
    let states = st.load_deal_states(store).unwrap();
    let proposals = st.load_proposals(store).unwrap();
    proposals
        .for_each(|id, p| {
            let cid = deal_cid_for_testing(p);
            let state = states.get(id).unwrap().map(|s| (s.sector_start_epoch, s.last_updated_epoch, s.sector_number, s.slash_epoch));
            v.deals.insert(
                id,
                DealView {
                    client: p.client.id().unwrap(),
                    provider: p.provider.id().unwrap(),
                    start: p.start_epoch,
                    end: p.end_epoch,
                    price: big(&p.storage_price_per_epoch),
                    cc: big(&p.client_collateral),
                    pc: big(&p.provider_collateral),
                    tag: tag_of(&p.label),
                    state,
                    pending: pending.has(&cid).unwrap(),
                    cid,
                },
            );
            Ok(())
        })
        .unwrap();
    let esc = BalanceTable::from_root(store, &st.escrow_table, "escrow").unwrap();
    esc.0
        .for_each(|k: Address, t: &TokenAmount| {
            v.bal.entry(k.id().unwrap()).or_default().0 = big(t);
            Ok(())
        })
        .unwrap();
    let lck = BalanceTable::from_root(store, &st.locked_table, "locked").unwrap();
    lck.0
        .for_each(|k: Address, t: &TokenAmount| {
            v.bal.entry(k.id().unwrap()).or_default().1 = big(t);
            Ok(())
        })
        .unwrap();
    v.bal.retain(|_, x| !x.0.is_zero() || !x.1.is_zero());
    let ops = st.load_deal_ops(store).unwrap();
    let mut keys = vec![];
    ops.for_each(|k, _| {
        keys.push(k);
        Ok(())
    })
    .unwrap();
    for k in keys {
        ops.for_each_in(&k, |id| {
            v.ops.push((k, id));
            Ok(())
        })
        .unwrap();
    }
    v.ops.sort();
    v.burnt = big(&(env.w.balance(&BURNT_FUNDS_ACTOR_ADDR) - &env.burnt0));
    v.market_balance = big(&env.w.balance(&STORAGE_MARKET_ACTOR_ADDR));
    v
}

fn list(xs: Vec<String>) -> String {
    if xs.is_empty() { "-".to_string() } else { xs.join(",") }
}

/// the projection compared with the Lean driver (same format as `Driver.Market.showState`)
fn show(v: &View) -> String {
    let bal: Vec<String> = v.bal.iter().map(|(k, (e, l))| format!("{}:{}:{}", k, e, l)).collect();
    let deals: Vec<String> = v
        .deals
        .iter()
        .map(|(id, d)| {
            let st = match d.state {
                Some((ss, lu, sec, _)) => format!("{}:{}:{}", ss, lu, sec),
                None => "x:x:x".to_string(),
            };
            format!(
                "{}:{}:{}:{}:{}:{}:{}:{}:{}:{}:{}",
                id, d.client, d.provider, d.start, d.end, d.price, d.cc, d.pc, d.tag, st, d.pending as u8
            )
        })
        .collect();
    let ops: Vec<String> = v.ops.iter().map(|(e, id)| format!("{}:{}", e, id)).collect();
    format!(
        "e={} next={} lc={} tot={},{},{} bal={} deals={} pend={} ops={} burnt={}",
        v.epoch, v.next_id, v.last_cron, v.totals[0], v.totals[1], v.totals[2],
        list(bal), list(deals), v.pend_count, list(ops), v.burnt
    )
}

// ------------------------------------------------------------------ operations

#[derive(Clone, Debug)]
struct DealSpec {
    client: usize,       // index into clients; 3 = a miner as "client" (cannot authenticate)
    client_key_form: bool,
    provider: usize,
    provider_robust: bool,
    start: i64,
    end: i64,
    price: i128,
    cc: i128,
    pc: i128,
    label: u64,
    /// 0 good, 1 corrupted signature, 2 signature over another proposal
    sig: u8,
    /// 0 none, 1 label too long, 2 bad piece size, 3 piece cid of the wrong kind
    bad_static: u8,
}

#[derive(Clone, Debug)]
enum Op {
    Advance { to: i64 },
    Add { from: Address, target: Address, value: i128 },
    Withdraw { caller: Address, nominal: Address, amount: i128 },
    Publish { caller: Address, deals: Vec<DealSpec> },
    Activate { caller: Address, sectors: Vec<(u64, i64, Vec<u64>)> },
    /// pieces: (deal id, 0 good / 1 wrong cid / 2 wrong size / 3 bad payload)
    Scc { caller: Address, sectors: Vec<(u64, i64, Vec<(u64, u8)>)> },
    Settle { caller: Address, ids: Vec<u64> },
    Terminate { caller: Address, sectors: Vec<u64> },
    Cron { wrong_caller: bool },
}

fn op_name(op: &Op) -> &'static str {
    match op {
        Op::Advance { .. } => "advance",
        Op::Add { .. } => "add",
        Op::Withdraw { .. } => "withdraw",
        Op::Publish { .. } => "publish",
        Op::Activate { .. } => "activate",
        Op::Scc { .. } => "scc",
        Op::Settle { .. } => "settle",
        Op::Terminate { .. } => "terminate",
        Op::Cron { .. } => "cron",
    }
}

/// a party named in AddBalance / WithdrawBalance parameters is presented by its key (client) or robust
/// (miner) address in a third of the messages; the market resolves it, the model and the op line keep the id
fn param_form(env: &Env, a: &Address, salt: u64) -> Address {
    let Ok(idv) = a.id() else { return *a };
    if (idv + salt) % 3 != 0 { return *a; }
    if let Some(c) = env.clients.iter().find(|c| c.0 == *a) { return c.1; }
    if let Some(m) = env.miner_of(a) { return m.robust; }
    *a
}

fn build_proposal(env: &Env, d: &DealSpec) -> DealProposal {
    let client = if d.client < env.clients.len() {
        if d.client_key_form { env.clients[d.client].1 } else { env.clients[d.client].0 }
    } else {
        env.miners[1].id
    };
    let m = &env.miners[d.provider];
    let label = if d.bad_static == 1 { "x".repeat(257) } else { format!("l{}", d.label) };
    let piece_cid = if d.bad_static == 3 {
        // a CID that is not a piece commitment
        deal_cid_for_testing(&DealProposal {
            piece_cid: make_piece_cid(b"x"),
            piece_size: PaddedPieceSize(2048),
            verified_deal: false,
            client,
            provider: m.id,
            label: Label::String("x".into()),
            start_epoch: 0,
            end_epoch: 0,
            storage_price_per_epoch: TokenAmount::zero(),
            provider_collateral: TokenAmount::zero(),
            client_collateral: TokenAmount::zero(),
        })
    } else {
        make_piece_cid(format!("l{}", d.label).as_bytes())
    };
    DealProposal {
        piece_cid,
        piece_size: PaddedPieceSize(if d.bad_static == 2 { 2047 } else { 2048 }),
        verified_deal: false,
        client,
        provider: if d.provider_robust { m.robust } else { m.id },
        label: Label::String(label),
        start_epoch: d.start,
        end_epoch: d.end,
        storage_price_per_epoch: atto(d.price),
        provider_collateral: atto(d.pc),
        client_collateral: atto(d.cc),
    }
}

fn ids_line(ids: &[u64]) -> String {
    list(ids.iter().map(|x| x.to_string()).collect())
}

struct Built {
    line: String,
    from: Address,
    to: Address,
    value: TokenAmount,
    method: u64,
    params: Option<fvm_ipld_encoding::ipld_block::IpldBlock>,
}

fn blk<S: serde::Serialize>(p: &S) -> Option<fvm_ipld_encoding::ipld_block::IpldBlock> {
    fvm_ipld_encoding::ipld_block::IpldBlock::serialize_cbor(p).unwrap()
}

fn is_miner(env: &Env, a: &Address) -> bool {
    env.miner_of(a).is_some()
}

/// Turn an abstract op into (Lean line, real message).  `min_pc` = current lower bound of the
/// provider collateral (to derive the `boundsOk` environment flag of each deal).
fn build(env: &Env, op: &Op, epoch: i64, min_pc: &BigInt) -> Built {
    let market = STORAGE_MARKET_ACTOR_ADDR;
    match op {
        Op::Advance { to } => Built { line: format!("epoch {}", to), from: market, to: market, value: TokenAmount::zero(), method: 0, params: None },
        Op::Add { from, target, value } => {
            let resolves = env.w.vm.actor(target).is_some();
            let target_p = param_form(env, target, *value as u64);
            Built {
                line: format!("add {} {} {}", target.id().unwrap(), value, resolves as u8),
                from: *from,
                to: market,
                value: atto(*value),
                method: MarketMethod::AddBalance as u64,
                params: blk(&target_p),
            }
        }
        Op::Withdraw { caller, nominal, amount } => {
            let resolves = env.w.vm.actor(nominal).is_some();
            let (ism, o, wk) = match env.miner_of(nominal) {
                Some(m) => (1, m.owner.id().unwrap(), m.worker.id().unwrap()),
                None => (0, 0, 0),
            };
            Built {
                line: format!("withdraw {} {} {} {} {} {} {} 1", caller.id().unwrap(), nominal.id().unwrap(), amount, resolves as u8, ism, o, wk),
                from: *caller,
                to: market,
                value: TokenAmount::zero(),
                method: MarketMethod::WithdrawBalance as u64,
                params: blk(&WithdrawBalanceParams { provider_or_client: param_form(env, nominal, *amount as u64), amount: atto(*amount) }),
            }
        }
        Op::Publish { caller, deals } => {
            let mut cdeals = vec![];
            let mut parts = vec![];
            let first = &deals[0];
            let fm = &env.miners[first.provider];
            for d in deals {
                let p = build_proposal(env, d);
                let mut sig = serialize(&p, "deal proposal").unwrap().to_vec();
                match d.sig {
                    1 => { let n = sig.len(); sig[n - 1] ^= 0x5a; }
                    2 => { let mut q = p.clone(); q.end_epoch += 1; sig = serialize(&q, "deal proposal").unwrap().to_vec(); }
                    _ => {}
                }
                let sig_ok = d.sig == 0 && d.client < env.clients.len();
                let dur = d.end - d.start;
                let bounds_ok = d.bad_static == 0
                    && dur >= DUR_MIN && dur <= DUR_MAX
                    && BigInt::from(d.pc) >= *min_pc;
                // provider check of the code: ID form of the first deal's provider, or the first deal's raw form
                let pm = d.provider == first.provider && (!d.provider_robust || first.provider_robust);
                let client_id = if d.client < env.clients.len() { env.clients[d.client].0 } else { env.miners[1].id };
                parts.push(format!(
                    "{}:{}:{}:{}:{}:{}:{}:0:{}:{}:{}:1:{}",
                    client_id.id().unwrap(), env.miners[d.provider].id.id().unwrap(), d.start, d.end,
                    d.price, d.cc, d.pc, d.label, sig_ok as u8, bounds_ok as u8, pm as u8
                ));
                cdeals.push(ClientDealProposal {
                    proposal: p,
                    client_signature: Signature { sig_type: SignatureType::BLS, bytes: sig },
                });
            }
            let controls = *caller == fm.owner || *caller == fm.worker || Some(*caller) == fm.control;
            Built {
                line: format!("publish {} 1 1 {} 1 1 {}", fm.id.id().unwrap(), controls as u8, parts.join(",")),
                from: *caller,
                to: market,
                value: TokenAmount::zero(),
                method: MarketMethod::PublishStorageDeals as u64,
                params: blk(&PublishStorageDealsParams { deals: cdeals }),
            }
        }
        Op::Activate { caller, sectors } => {
            let parts: Vec<String> = sectors
                .iter()
                .map(|(n, e, ids)| {
                    format!("{}:{}:{}", n, e, if ids.is_empty() { "_".to_string() } else { ids.iter().map(|x| x.to_string()).collect::<Vec<_>>().join("+") })
                })
                .collect();
            let p = BatchActivateDealsParams {
                sectors: sectors
                    .iter()
                    .map(|(n, e, ids)| SectorDeals {
                        sector_number: *n,
                        sector_type: RegisteredSealProof::StackedDRG32GiBV1P1,
                        sector_expiry: *e,
                        deal_ids: ids.clone(),
                    })
                    .collect(),
                compute_cid: false,
            };
            Built {
                line: format!("activate {} {} {}", caller.id().unwrap(), is_miner(env, caller) as u8, list(parts)),
                from: *caller,
                to: market,
                value: TokenAmount::zero(),
                method: MarketMethod::BatchActivateDeals as u64,
                params: blk(&p),
            }
        }
        Op::Scc { caller, sectors } => {
            let v = view(env);
            let parts: Vec<String> = sectors
                .iter()
                .map(|(n, e, ps)| {
                    format!("{}:{}:{}", n, e, if ps.is_empty() { "_".to_string() } else {
                        ps.iter().map(|(id, k)| format!("{}~{}", id, (*k == 0) as u8)).collect::<Vec<_>>().join("+") })
                })
                .collect();
            let p = SectorContentChangedParams {
                sectors: sectors
                    .iter()
                    .map(|(n, e, ps)| SectorChanges {
                        sector: *n,
                        minimum_commitment_epoch: *e,
                        added: ps
                            .iter()
                            .map(|(id, k)| {
                                let tag = v.deals.get(id).map(|d| d.tag).unwrap_or(0);
                                PieceChange {
                                    data: make_piece_cid(format!("l{}", if *k == 1 { tag + 1000 } else { tag }).as_bytes()),
                                    size: PaddedPieceSize(if *k == 2 { 4096 } else { 2048 }),
                                    payload: if *k == 3 { RawBytes::new(vec![0xff, 0x00]) } else { serialize(id, "deal id").unwrap() },
                                }
                            })
                            .collect(),
                    })
                    .collect(),
            };
            Built {
                line: format!("scc {} {} {}", caller.id().unwrap(), is_miner(env, caller) as u8, list(parts)),
                from: *caller,
                to: market,
                value: TokenAmount::zero(),
                method: MarketMethod::SectorContentChangedExported as u64,
                params: blk(&p),
            }
        }
        Op::Settle { caller, ids } => Built {
            line: format!("settle {} 1", ids_line(ids)),
            from: *caller,
            to: market,
            value: TokenAmount::zero(),
            method: MarketMethod::SettleDealPaymentsExported as u64,
            params: blk(&SettleDealPaymentsParams { deal_ids: BitField::try_from_bits(ids.iter().cloned()).unwrap() }),
        },
        Op::Terminate { caller, sectors } => Built {
            line: format!("terminate {} {} {} 1", caller.id().unwrap(), is_miner(env, caller) as u8, ids_line(sectors)),
            from: *caller,
            to: market,
            value: TokenAmount::zero(),
            method: MarketMethod::OnMinerSectorsTerminate as u64,
            params: blk(&OnMinerSectorsTerminateParams { epoch, sectors: BitField::try_from_bits(sectors.iter().cloned()).unwrap() }),
        },
        Op::Cron { wrong_caller } => Built {
            line: format!("cron {} 1", !*wrong_caller as u8),
            from: if *wrong_caller { env.stranger } else { CRON_ACTOR_ADDR },
            to: market,
            value: TokenAmount::zero(),
            method: MarketMethod::CronTick as u64,
            params: None,
        },
    }
}

// ------------------------------------------------------------------ generator

#[derive(Default)]
struct GenCtx {
    planned: Option<(Address, Vec<DealSpec>)>,
    pool: Vec<DealSpec>,
    /// sequences that run the cron over the whole deal life (costly: one loop turn per epoch)
    cron_heavy: bool,
    /// scripted prelude "republished proposal" (0 = off): publish X, activate it, settle it before
    /// its start (its pending entry goes), publish the identical X again (deal B, never activated),
    /// terminate A's sector, pass the start epoch, settle B (time-out: slash and burn)
    script: u8,
    script_spec: Option<DealSpec>,
    script_a: Option<u64>,
    script_done: bool,
    script_tries: u8,
}

fn spec_req(d: &DealSpec) -> (BigInt, BigInt) {
    let fee = BigInt::from(d.price) * BigInt::from(d.end - d.start);
    (BigInt::from(d.cc) + fee, BigInt::from(d.pc))
}

fn gen_deal(r: &mut Rng, env: &Env, epoch: i64, provider: usize, ctx: &GenCtx) -> DealSpec {
    // half of the deals are clean, the others perturbed in one dimension
    let clean = r.chance(1, 2);
    if !clean && !ctx.pool.is_empty() && r.chance(1, 4) {
        // an identical proposal again (duplicate against pending / live deals)
        let mut d = r.pick(&ctx.pool).clone();
        if r.chance(1, 3) { d.client_key_form = !d.client_key_form; }
        return d;
    }
    let start = epoch + *r.pick(&[0i64, 1, 2, 5, 20, 300, 300, 2000]);
    let dur = DUR_MIN + *r.pick(&[0i64, 0, 1, 7, 1000]);
    let mut d = DealSpec {
        client: r.below(env.clients.len() as u64) as usize,
        client_key_form: r.chance(1, 6),
        provider,
        provider_robust: false,
        start,
        end: start + dur,
        price: *r.pick(&[0i128, 1, 1, 2, 3, 1000, 1_000_000]),
        cc: *r.pick(&[0i128, 0, 1, 5, 1000]),
        pc: PC_BASE + r.range(0, 3) as i128,
        label: r.below(3),
        sig: 0,
        bad_static: 0,
    };
    if !clean {
        match r.below(15) {
            0 => d.sig = 1,
            1 => d.sig = 2,
            2 => d.start = epoch - 1 - r.range(0, 3),
            3 => d.end = d.start + DUR_MIN - 1,
            4 => d.end = d.start + DUR_MAX + r.range(0, 1),
            5 => d.end = d.start - r.range(0, 2),
            6 => d.price = -1,
            7 => d.cc = -1,
            8 => d.pc = *r.pick(&[0i128, -1, 1000]),
            9 => d.bad_static = 1 + r.below(3) as u8,
            10 => d.provider = 1 - provider, // foreign provider inside the batch
            11 => d.provider_robust = true,
            12 => d.client = 3,              // a miner actor cannot authenticate
            13 => d.start = epoch,           // start exactly now: still valid
            _ => d.end = d.start + DUR_MAX,  // longest valid
        }
    }
    d
}

fn interesting_epochs(v: &View) -> Vec<i64> {
    let mut c = BTreeSet::new();
    for d in v.deals.values() {
        for e in [d.start - 1, d.start, d.start + 1, d.start + 2, d.start + (d.end - d.start) / 2, d.end - 1, d.end, d.end + 1, d.end + 5000] {
            c.insert(e);
        }
    }
    for (e, _) in &v.ops {
        c.insert(*e - 1);
        c.insert(*e);
        c.insert(*e + 1);
    }
    c.into_iter().filter(|e| *e > v.epoch).collect()
}

/// activation (BatchActivateDeals or SectorContentChanged); `prefer` = ids to activate for real
fn gen_activation(r: &mut Rng, env: &Env, v: &View, provider: usize, prefer: Option<Vec<u64>>) -> Op {
    let epoch = v.epoch;
    let m = &env.miners[provider];
    let mine: Vec<(&u64, &DealView)> = v.deals.iter().filter(|(_, d)| d.provider == m.id.id().unwrap()).collect();
    let fresh: Vec<u64> = mine.iter().filter(|(_, d)| d.state.is_none()).map(|(i, _)| **i).collect();
    let clean = prefer.is_some() && r.chance(3, 4);
    let caller = if !clean && r.chance(1, 12) { *r.pick(&[env.stranger, m.worker, env.miners[1 - provider].id]) } else { m.id };
    let nsec = if prefer.is_some() { 1 } else { *r.pick(&[1u64, 1, 1, 2]) };
    let mut sectors = vec![];
    let mut pieces = vec![];
    for _ in 0..nsec {
        let mut ids: Vec<u64> = prefer.clone().unwrap_or_default();
        let cnt = if prefer.is_some() { if clean { 0 } else { r.below(2) } } else { *r.pick(&[1u64, 1, 2, 3]) };
        for _ in 0..cnt {
            let id = match r.below(12) {
                0 => v.next_id + r.below(2),                                   // never published
                1 if !v.deals.is_empty() => *r.pick(&v.deals.keys().cloned().collect::<Vec<_>>()), // any live deal
                2 if v.next_id > 0 => r.below(v.next_id),                      // any id ever used
                3 if !ids.is_empty() => ids[0],                                // repeated id
                _ if !fresh.is_empty() => *r.pick(&fresh),
                _ => r.below(v.next_id + 1),
            };
            ids.push(id);
        }
        // a deal id repeated within the sector's list, not adjacent to its first occurrence
        if prefer.is_none() && r.chance(1, 5) && fresh.len() >= 2 {
            ids = vec![fresh[0], fresh[1], fresh[0]];
            if r.chance(1, 2) { ids.swap(0, 1); ids[2] = ids[0]; }
        } else if !clean && ids.len() >= 2 && r.chance(1, 6) {
            let d = ids[0];
            ids.push(d);
        }
        let max_end = ids.iter().filter_map(|i| v.deals.get(i)).map(|d| d.end).max().unwrap_or(epoch + DUR_MIN);
        let expiry = max_end + if clean { *r.pick(&[0i64, 100]) } else { *r.pick(&[0i64, 0, 1, 100, 100, 1000, -1, -1000]) };
        let sector = *r.pick(&[1u64, 2, 3]);
        pieces.push((sector, expiry, ids.iter().map(|i| (*i, if !clean && r.chance(1, 8) { 1 + r.below(3) as u8 } else { 0 })).collect::<Vec<_>>()));
        sectors.push((sector, expiry, ids));
    }
    if r.chance(1, 3) { Op::Scc { caller, sectors: pieces } } else { Op::Activate { caller, sectors } }
}

fn gen_op(r: &mut Rng, env: &Env, v: &View, ctx: &mut GenCtx) -> Op {
    let epoch = v.epoch;
    // a planned publish: fund the parties to a boundary first, then send it
    if let Some((caller, batch)) = ctx.planned.clone() {
        let mut need: BTreeMap<u64, BigInt> = BTreeMap::new();
        for d in &batch {
            let (c, p) = spec_req(d);
            let cid = if d.client < env.clients.len() { env.clients[d.client].0.id().unwrap() } else { env.miners[1].id.id().unwrap() };
            *need.entry(cid).or_default() += c;
            *need.entry(env.miners[batch[0].provider].id.id().unwrap()).or_default() += p;
        }
        for (a, n) in need {
            let short = &n - v.avail(a);
            if short.is_positive() && r.chance(4, 5) {
                let delta: i128 = *r.pick(&[0i128, 0, -1, 1, 1_000_000, 5 * PC_BASE, 5 * PC_BASE, 20 * PC_BASE]);
                let val = (short + BigInt::from(delta)).max(BigInt::from(1));
                let val: i128 = val.to_string().parse().unwrap_or(1);
                let target = Address::new_id(a);
                let from = if env.miner_of(&target).is_some() { env.miner_of(&target).unwrap().owner } else { target };
                return Op::Add { from, target, value: val };
            }
        }
        ctx.planned = None;
        for d in &batch { if ctx.pool.len() < 12 { ctx.pool.push(d.clone()); } }
        return Op::Publish { caller, deals: batch };
    }
    if ctx.script > 0 {
        let m = &env.miners[0];
        let mid = m.id.id().unwrap();
        match ctx.script {
            1 | 4 => {
                let x = ctx.script_spec.clone().unwrap_or_else(|| DealSpec {
                    client: 0, client_key_form: false, provider: 0, provider_robust: false,
                    start: epoch + 300, end: epoch + 300 + DUR_MIN, price: 1, cc: 5, pc: PC_BASE + 1,
                    label: 2, sig: 0, bad_static: 0,
                });
                ctx.script_spec = Some(x.clone());
                ctx.planned = Some((m.worker, vec![x]));
                ctx.script += 1;
                return gen_op(r, env, v, ctx);
            }
            2 | 5 => {
                let x = ctx.script_spec.clone().unwrap();
                let found = v.deals.iter().filter(|(i, d)| d.provider == mid && d.start == x.start && d.end == x.end && d.state.is_none() && Some(**i) != ctx.script_a).map(|(i, _)| *i).max();
                match (ctx.script, found) {
                    (2, Some(a)) => {
                        ctx.script_a = Some(a);
                        ctx.script = 3;
                        return Op::Activate { caller: m.id, sectors: vec![(4, x.end + 100, vec![a])] };
                    }
                    (5, Some(_)) => {
                        ctx.script = 6;
                        return Op::Terminate { caller: m.id, sectors: vec![4] };
                    }
                    _ => {
                        // the publish did not go through (funding boundary, injected failure): try again
                        ctx.script_tries += 1;
                        if ctx.script_tries > 6 { ctx.script = 0; } else { ctx.script -= 1; return gen_op(r, env, v, ctx); }
                    }
                }
            }
            3 => {
                ctx.script = 4;
                return Op::Settle { caller: env.stranger, ids: vec![ctx.script_a.unwrap()] };
            }
            6 => {
                ctx.script = 7;
                return Op::Advance { to: ctx.script_spec.as_ref().unwrap().start + 1 };
            }
            _ => {
                ctx.script = 0;
                let x = ctx.script_spec.clone().unwrap();
                let ids: Vec<u64> = v.deals.iter().filter(|(_, d)| d.provider == mid && d.start == x.start && d.end == x.end && d.state.is_none()).map(|(i, _)| *i).collect();
                if !ids.is_empty() { ctx.script_done = true; return Op::Settle { caller: env.stranger, ids }; }
            }
        }
    }
    let parties: Vec<Address> = env.clients.iter().map(|c| c.0).chain(env.miners.iter().map(|m| m.id)).collect();
    // degenerate batches: nothing to settle, no sectors, a sector without deals
    if r.chance(1, 40) {
        let m = &env.miners[r.below(2) as usize];
        return match r.below(4) {
            0 => Op::Settle { caller: env.stranger, ids: vec![] },
            1 => Op::Activate { caller: m.id, sectors: vec![] },
            2 => Op::Activate { caller: m.id, sectors: vec![(*r.pick(&[1u64, 2, 3]), epoch + DUR_MIN, vec![])] },
            _ => Op::Terminate { caller: m.id, sectors: vec![] },
        };
    }
    let k = r.below(100);
    if k < 20 {
        let provider = r.below(2) as usize;
        let m = &env.miners[provider];
        let n = *r.pick(&[1u64, 1, 2, 2, 3, 4]);
        let mut batch: Vec<DealSpec> = (0..n).map(|_| gen_deal(r, env, epoch, provider, ctx)).collect();
        if r.chance(1, 6) && !batch.is_empty() {
            // the same deal twice within one message
            let d = batch[0].clone();
            batch.push(d);
        }
        let caller = match r.below(12) {
            0 => env.stranger,
            1 => env.clients[0].0,
            2 | 3 => m.owner,
            4 => m.control.unwrap_or(m.worker),
            _ => m.worker,
        };
        ctx.planned = Some((caller, batch));
        return gen_op(r, env, v, ctx);
    }
    let fresh_now = v.deals.values().any(|d| d.state.is_none() && d.start >= epoch);
    if k < 38 || (k >= 62 && k < 78 && fresh_now && r.chance(1, 2)) {
        let provider = r.below(2) as usize;
        return gen_activation(r, env, v, provider, None);
    }
    if k < 56 {
        let mut ids: BTreeSet<u64> = BTreeSet::new();
        let n = *r.pick(&[1u64, 1, 2, 3, 5]);
        for _ in 0..n {
            let id = if !v.deals.is_empty() && r.chance(5, 6) { *r.pick(&v.deals.keys().cloned().collect::<Vec<_>>()) } else { r.below(v.next_id + 2) };
            ids.insert(id);
        }
        let caller = *r.pick(&[env.stranger, env.clients[0].0, env.miners[0].worker, env.miners[1].owner]);
        return Op::Settle { caller, ids: ids.into_iter().collect() };
    }
    if k < 62 {
        let provider = r.below(2) as usize;
        let m = &env.miners[provider];
        let caller = if r.chance(1, 10) { *r.pick(&[env.stranger, m.owner]) } else { m.id };
        let mut secs: BTreeSet<u64> = BTreeSet::new();
        for _ in 0..*r.pick(&[1u64, 1, 2]) { secs.insert(*r.pick(&[1u64, 2, 3, 4])); }
        return Op::Terminate { caller, sectors: secs.into_iter().collect() };
    }
    if k < 78 {
        let cands = interesting_epochs(v);
        let late: Vec<i64> = v.deals.values().flat_map(|d| [d.end - 1, d.end, d.end + 1, d.end + 90_000]).filter(|e| *e > epoch).collect();
        let to = if !late.is_empty() && r.chance(1, 5) {
            *r.pick(&late)
        } else if !cands.is_empty() && r.chance(5, 6) {
            let top = cands.len().min(4) as u64;
            if r.chance(1, 8) { *r.pick(&cands) } else { cands[r.below(top) as usize] }
        } else {
            epoch + *r.pick(&[1i64, 1, 2, 10, 1000])
        };
        return Op::Advance { to };
    }
    if k < 84 {
        if ctx.cron_heavy || epoch < 150_000 {
            return Op::Cron { wrong_caller: r.chance(1, 15) };
        }
        return Op::Advance { to: epoch + 1 };
    }
    if k < 93 {
        let nominal = if r.chance(1, 20) { Address::new_id(999_999) } else { *r.pick(&parties) };
        let caller = match (env.miner_of(&nominal), r.below(10)) {
            (Some(m), 0..=3) => m.owner,
            (Some(m), 4..=6) => m.worker,
            (Some(m), 7) => m.control.unwrap_or(env.stranger),
            (Some(m), 8) => m.id,
            (None, 0..=6) => nominal,
            _ => *r.pick(&[env.stranger, env.clients[1].0, env.miners[0].owner]),
        };
        let caller = if env.w.vm.actor(&caller).is_some() { caller } else { env.stranger };
        let avail: i128 = v.avail(nominal.id().unwrap()).to_string().parse().unwrap_or(0);
        let amount = match r.below(8) {
            0 => 0,
            1 => -1,
            2 => avail + 1,
            3 => avail - 1,
            4 => avail,
            5 => avail / 2,
            6 => 10 * PC_BASE,
            _ => r.range(1, 1000) as i128,
        };
        return Op::Withdraw { caller, nominal, amount };
    }
    let target = if r.chance(1, 15) { Address::new_id(999_999) } else { *r.pick(&parties) };
    let from = if r.chance(1, 2) && env.w.vm.actor(&target).is_some() && env.miner_of(&target).is_none() { target } else { env.stranger };
    let value = *r.pick(&[0i128, 1, 1000, 1_000_000, PC_BASE, 3 * PC_BASE]);
    Op::Add { from, target, value }
}

// ------------------------------------------------------------------ outputs of the implementation

fn find_send(t: &InvocationTrace, from: u64) -> Option<(Address, TokenAmount)> {
    for s in &t.subinvocations {
        if s.from == from && s.method == METHOD_SEND {
            return Some((s.to, s.value.clone()));
        }
    }
    None
}

fn impl_ret(op: &Op, res: &Applied, trace: Option<&InvocationTrace>) -> String {
    if !res.ok() {
        return "err".to_string();
    }
    match op {
        Op::Withdraw { .. } => {
            let ret: WithdrawBalanceReturn = res.ret.clone().unwrap().deserialize().unwrap();
            let to = trace.and_then(|t| find_send(t, STORAGE_MARKET_ACTOR_ADDR.id().unwrap())).map(|x| x.0.id().unwrap_or(0)).unwrap_or(0);
            format!("ok w={} to={}", ret.amount_withdrawn.atto(), to)
        }
        Op::Publish { .. } => {
            let ret: PublishStorageDealsReturn = res.ret.clone().unwrap().deserialize().unwrap();
            format!("ok ids={} valid={}", ids_line(&ret.ids), ids_line(&ret.valid_deals.iter().collect::<Vec<_>>()))
        }
        Op::Activate { .. } => {
            let ret: BatchActivateDealsResult = res.ret.clone().unwrap().deserialize().unwrap();
            format!("ok res={}", list(ret.activation_results.codes().iter().map(|c| (c.is_success() as u8).to_string()).collect()))
        }
        Op::Scc { .. } => {
            let ret: SectorContentChangedReturn = res.ret.clone().unwrap().deserialize().unwrap();
            format!("ok res={}", list(ret.sectors.iter().map(|s| if s.added.is_empty() { "_".to_string() } else { s.added.iter().map(|p| (p.accepted as u8).to_string()).collect::<Vec<_>>().join("+") }).collect()))
        }
        Op::Settle { .. } => {
            let ret: SettleDealPaymentsReturn = res.ret.clone().unwrap().deserialize().unwrap();
            let mut it = ret.settlements.iter();
            let parts: Vec<String> = ret.results.codes().iter().map(|c| {
                if c.is_success() { let s = it.next().unwrap(); format!("{}:{}", s.payment.atto(), s.completed as u8) } else { "f".to_string() }
            }).collect();
            format!("ok res={}", list(parts))
        }
        _ => "ok".to_string(),
    }
}

// ------------------------------------------------------------------ oracles

#[derive(Clone, Debug)]
struct ClosedDeal {
    client: u64,
    provider: u64,
    /// credited to the provider over the deal's life (closed form by kind of ending)
    paid: BigInt,
    burnt: BigInt,
}

#[derive(Default)]
struct Ledger {
    deposits: BTreeMap<u64, BigInt>,
    withdrawn: BTreeMap<u64, BigInt>,
    closed: BTreeMap<u64, ClosedDeal>,
    ever_ids: BTreeSet<u64>,
    ever_activated: BTreeSet<u64>,
}

type Viol = Option<(String, String)>;

fn viol(kind: &str, detail: String) -> Viol {
    Some((kind.to_string(), detail))
}

/// checks that hold for every property id: a failed message leaves the market untouched
fn oracle_common(ok: bool, before: &View, after: &View) -> Viol {
    if !ok && show(before) != show(after) {
        return viol("failed-message-changed-state", format!("{} -> {}", show(before), show(after)));
    }
    for d in after.deals.values() {
        if let Some((_, _, _, slash)) = d.state {
            if slash != -1 {
                return viol("stored-slash-epoch", format!("a stored deal state carries slash_epoch {}", slash));
            }
        }
    }
    None
}

/// C06: locked = obligations per party, totals = sums, locked <= escrow, withdrawals exact and
/// only by approved callers, no other decrease of an escrow than payments and slashing.
fn oracle_c06(env: &Env, op: &Op, res: &Applied, trace: Option<&InvocationTrace>, before: &View, after: &View,
              bal_before: &BTreeMap<Address, TokenAmount>) -> Viol {
    // per-party obligations recomputed from the proposals / states AMTs
    let mut obl: BTreeMap<u64, BigInt> = BTreeMap::new();
    let mut tot = [BigInt::zero(), BigInt::zero(), BigInt::zero()];
    for d in after.deals.values() {
        let remaining_fee = match d.state {
            Some((_, lu, _, _)) if lu != -1 => &d.price * BigInt::from(d.end - lu.max(d.start)),
            _ => d.fee(),
        };
        *obl.entry(d.client).or_default() += &d.cc + &remaining_fee;
        *obl.entry(d.provider).or_default() += &d.pc;
        tot[0] += &d.cc;
        tot[1] += &d.pc;
        tot[2] += &remaining_fee;
    }
    let parties: BTreeSet<u64> = obl.keys().cloned().chain(after.bal.keys().cloned()).collect();
    for p in &parties {
        let l = after.locked(*p);
        let o = obl.get(p).cloned().unwrap_or_default();
        if l != o {
            return viol("locked-ne-obligations", format!("party {} locked {} obligations {}", p, l, o));
        }
        if l > after.escrow(*p) {
            return viol("locked-exceeds-escrow", format!("party {} locked {} escrow {}", p, l, after.escrow(*p)));
        }
        if l.is_negative() || after.escrow(*p).is_negative() {
            return viol("negative-balance", format!("party {}", p));
        }
    }
    if tot != after.totals {
        return viol("totals-ne-sums", format!("state totals {:?} recomputed {:?}", after.totals, tot));
    }
    let esc_sum: BigInt = after.bal.values().map(|x| x.0.clone()).sum();
    if esc_sum != after.market_balance {
        return viol("market-balance-ne-escrow-sum", format!("escrow sum {} actor balance {}", esc_sum, after.market_balance));
    }
    if !res.ok() {
        return None;
    }
    if let Op::Withdraw { caller, nominal, amount } = op {
        let n = nominal.id().unwrap();
        let (approved, recipient): (Vec<Address>, Address) = match env.miner_of(nominal) {
            Some(m) => (vec![m.owner, m.worker], m.owner),
            None => (vec![*nominal], *nominal),
        };
        if !approved.contains(caller) {
            return viol("withdraw-by-unapproved-caller", format!("caller {} nominal {}", caller, nominal));
        }
        let expect = BigInt::from(*amount).min(before.avail(n)).max(BigInt::zero());
        let ret: WithdrawBalanceReturn = res.ret.clone().unwrap().deserialize().unwrap();
        if big(&ret.amount_withdrawn) != expect {
            return viol("withdraw-amount-wrong", format!("returned {} expected min(req {}, available {})", ret.amount_withdrawn.atto(), amount, before.avail(n)));
        }
        if before.escrow(n) - after.escrow(n) != expect {
            return viol("withdraw-escrow-delta-wrong", format!("escrow {} -> {} expected -{}", before.escrow(n), after.escrow(n), expect));
        }
        match trace.and_then(|t| find_send(t, STORAGE_MARKET_ACTOR_ADDR.id().unwrap())) {
            Some((to, val)) => {
                if to != recipient || big(&val) != expect {
                    return viol("withdraw-paid-to-wrong-party", format!("sent {} to {} expected {} to {}", val.atto(), to, expect, recipient));
                }
            }
            None => return viol("withdraw-without-send", String::new()),
        }
        let got = env.w.balance(&recipient) - bal_before.get(&recipient).cloned().unwrap_or_default();
        if big(&got) != expect {
            return viol("withdraw-recipient-delta-wrong", format!("recipient {} got {} expected {}", recipient, got.atto(), expect));
        }
        for (a, (e, _)) in &before.bal {
            if *a != n && after.escrow(*a) != *e {
                return viol("withdraw-touched-other-escrow", format!("party {}", a));
            }
        }
    } else {
        // an escrow only goes down for the client of a deal that was paid for, or for the provider of a
        // deal that was slashed (time-out / termination) in this very message
        for (a, (e, _)) in &before.bal {
            let now = after.escrow(*a);
            if now < *e {
                let mut allowed = BigInt::zero();
                for (id, d) in &before.deals {
                    let paid_after = match after.deals.get(id) {
                        Some(x) => x.paid_cf(),
                        None => d.fee(), // upper bound of what may have been paid when it ended
                    };
                    if d.client == *a { allowed += paid_after - d.paid_cf(); }
                    if d.provider == *a && !after.deals.contains_key(id) { allowed += &d.pc; }
                }
                if e - &now > allowed {
                    return viol("escrow-lowered-without-cause", format!("party {} escrow {} -> {} (explained: {})", a, e, now, allowed));
                }
            }
        }
    }
    None
}

/// C07: every party's escrow equals deposits − withdrawals + credits − debits − burns, all in closed
/// form of the deals' (start, end, last settled / ending epoch); settlement summaries match.
fn oracle_c07(op: &Op, res: &Applied, before: &View, after: &View, led: &Ledger) -> Viol {
    let parties: BTreeSet<u64> = after.bal.keys().cloned()
        .chain(led.deposits.keys().cloned())
        .chain(after.deals.values().flat_map(|d| [d.client, d.provider]))
        .chain(led.closed.values().flat_map(|d| [d.client, d.provider]))
        .collect();
    for p in parties {
        let mut e = led.deposits.get(&p).cloned().unwrap_or_default() - led.withdrawn.get(&p).cloned().unwrap_or_default();
        for d in after.deals.values() {
            if d.provider == p { e += d.paid_cf(); }
            if d.client == p { e -= d.paid_cf(); }
        }
        for d in led.closed.values() {
            if d.provider == p { e += &d.paid; e -= &d.burnt; }
            if d.client == p { e -= &d.paid; }
        }
        if e != after.escrow(p) {
            return viol("escrow-ne-closed-form", format!("party {}: escrow {} but deposits-withdrawals+credits-debits-burns = {}", p, after.escrow(p), e));
        }
    }
    // burnt funds: exactly the provider collateral of the deals that timed out / were terminated
    let burn_expected: BigInt = led.closed.values().map(|d| d.burnt.clone()).sum();
    if after.burnt != burn_expected {
        return viol("burn-ne-slashed-collateral", format!("burnt {} expected {}", after.burnt, burn_expected));
    }
    if res.ok() {
        if let Op::Settle { ids, .. } = op {
            let ret: SettleDealPaymentsReturn = res.ret.clone().unwrap().deserialize().unwrap();
            let mut it = ret.settlements.iter();
            for (id, c) in ids.iter().zip(ret.results.codes()) {
                if !c.is_success() { continue; }
                let s = it.next().unwrap();
                let Some(b) = before.deals.get(id) else {
                    return viol("settled-unknown-deal", format!("deal {}", id));
                };
                let (now_paid, gone) = match after.deals.get(id) {
                    Some(a) => (a.paid_cf(), false),
                    None => (b.fee(), true),
                };
                let upto = after.epoch.max(b.start).min(b.end);
                let cf = if b.state.is_some() { &b.price * BigInt::from(upto - b.start) } else { BigInt::zero() };
                if b.state.is_some() && now_paid != cf {
                    return viol("paid-ne-price-times-elapsed", format!("deal {} paid {} expected {}", id, now_paid, cf));
                }
                if big(&s.payment) != &now_paid - b.paid_cf() {
                    return viol("settlement-payment-wrong", format!("deal {} reported {} expected {}", id, s.payment.atto(), &now_paid - b.paid_cf()));
                }
                if s.completed != gone || (gone && after.epoch < b.end) {
                    return viol("settlement-completed-flag-wrong", format!("deal {} completed={} removed={} epoch={} end={}", id, s.completed, gone, after.epoch, b.end));
                }
            }
        }
    }
    None
}

/// C08: ids fresh and increasing, pending proposals unique, publication requires authentication
/// and cumulative unlocked funds, activation once / by the provider / in time / in a sector that
/// outlives the deal, time-out removal with burn and refund.
fn oracle_c08(env: &Env, op: &Op, res: &Applied, before: &View, after: &View, led: &Ledger, min_pc: &BigInt, notes: &mut Vec<String>) -> Viol {
    if after.next_id < before.next_id {
        return viol("next-id-decreased", format!("{} -> {}", before.next_id, after.next_id));
    }
    let new_ids: Vec<u64> = after.deals.keys().filter(|i| !before.deals.contains_key(i)).cloned().collect();
    for id in &new_ids {
        if led.ever_ids.contains(id) || *id < before.next_id || *id >= after.next_id {
            return viol("deal-id-reused", format!("id {} (next_id {} -> {})", id, before.next_id, after.next_id));
        }
        if !matches!(op, Op::Publish { .. }) {
            return viol("deal-appeared-outside-publish", format!("id {}", id));
        }
    }
    // unactivated proposals are pending, and no two of them are identical
    let mut seen: BTreeMap<Cid, u64> = BTreeMap::new();
    let mut live: BTreeMap<Cid, u64> = BTreeMap::new();
    for (id, d) in &after.deals {
        if d.state.is_none() {
            if !d.pending {
                return viol("unactivated-proposal-not-pending", format!("deal {}", id));
            }
            if let Some(o) = seen.insert(d.cid, *id) {
                return viol("identical-proposal-pending-twice", format!("deals {} and {}", o, id));
            }
        }
        if let Some(o) = live.insert(d.cid, *id) {
            let n = format!("identical proposal live under two deal ids (e.g. {} and {}): an early SettleDealPayments on the activated deal removed its pending entry, after which the same signed proposal was published again", o, id);
            if !notes.iter().any(|x| x.starts_with("identical proposal live")) { notes.push(n); }
        }
    }
    if res.ok() {
        if let Op::Publish { caller, deals } = op {
            let ret: PublishStorageDealsReturn = res.ret.clone().unwrap().deserialize().unwrap();
            if ret.ids != new_ids || ret.ids.len() as u64 != after.next_id - before.next_id || ret.ids.windows(2).any(|w| w[0] >= w[1]) {
                return viol("publish-ids-not-fresh-increasing", format!("returned {:?} new {:?}", ret.ids, new_ids));
            }
            let valid: Vec<u64> = ret.valid_deals.iter().collect();
            if valid.len() != ret.ids.len() {
                return viol("publish-valid-count-mismatch", String::new());
            }
            let fm = &env.miners[deals[0].provider];
            if !(*caller == fm.owner || *caller == fm.worker || Some(*caller) == fm.control) {
                return viol("publish-by-non-controlling-caller", format!("{}", caller));
            }
            let mut need: BTreeMap<u64, BigInt> = BTreeMap::new();
            let mut cids = BTreeSet::new();
            for (idx, id) in valid.iter().zip(&ret.ids) {
                let d = &deals[*idx as usize];
                let stored = &after.deals[id];
                if d.sig != 0 || d.client >= env.clients.len() {
                    return viol("unauthenticated-deal-published", format!("index {} id {}", idx, id));
                }
                let dur = d.end - d.start;
                if d.bad_static != 0 || dur < DUR_MIN || dur > DUR_MAX || d.start < before.epoch || d.price < 0 || d.cc < 0 || BigInt::from(d.pc) < *min_pc {
                    return viol("invalid-deal-published", format!("index {} id {}: {:?}", idx, id, d));
                }
                if d.provider != deals[0].provider || stored.provider != fm.id.id().unwrap() {
                    return viol("foreign-provider-deal-published", format!("index {} id {}", idx, id));
                }
                if before.deals.values().any(|b| b.cid == stored.cid && b.pending) || !cids.insert(stored.cid) {
                    return viol("duplicate-pending-proposal-published", format!("index {} id {}", idx, id));
                }
                if stored.state.is_some() || !stored.pending {
                    return viol("published-deal-not-pending", format!("id {}", id));
                }
                *need.entry(stored.client).or_default() += &stored.cc + stored.fee();
                *need.entry(stored.provider).or_default() += &stored.pc;
            }
            for (p, n) in need {
                if n > before.avail(p) {
                    return viol("published-beyond-unlocked-escrow", format!("party {} needed {} had {}", p, n, before.avail(p)));
                }
            }
        }
    }
    // activation: a sector whose deal list names one deal twice must not be activated (the deal
    // would be activated twice within the call, whatever the position of the repeat)
    if let (Op::Activate { sectors, .. }, true) = (op, res.ok()) {
        if let Some(ret) = res.ret.clone().and_then(|b| b.deserialize::<BatchActivateDealsResult>().ok()) {
            let codes = ret.activation_results.codes();
            for (i, sct) in sectors.iter().enumerate() {
                let distinct: BTreeSet<u64> = sct.2.iter().cloned().collect();
                if codes.get(i).map(|c| c.is_success()).unwrap_or(false) && distinct.len() != sct.2.len() {
                    return viol("deal-activated-twice-in-one-call", format!("sector {} activated with deal list {:?}", sct.0, sct.2));
                }
            }
        }
    }
    // activation: a deal state appears at most once, only through the provider's activation call
    for (id, d) in &after.deals {
        let was = before.deals.get(id).and_then(|b| b.state);
        if let (None, Some((ss, lu, sec, _))) = (was, d.state) {
            if led.ever_activated.contains(id) {
                return viol("deal-activated-twice", format!("deal {}", id));
            }
            let (caller, expiry) = match op {
                Op::Activate { caller, sectors } => (*caller, sectors.iter().filter(|s| s.2.contains(id) && s.0 == sec).map(|s| s.1).max()),
                Op::Scc { caller, sectors } => (*caller, sectors.iter().filter(|s| s.2.iter().any(|p| p.0 == *id) && s.0 == sec).map(|s| s.1).max()),
                _ => return viol("deal-state-appeared-outside-activation", format!("deal {}", id)),
            };
            if caller.id().unwrap() != d.provider {
                return viol("deal-activated-by-non-provider", format!("deal {} caller {}", id, caller));
            }
            if after.epoch > d.start {
                return viol("deal-activated-after-start", format!("deal {} epoch {} start {}", id, after.epoch, d.start));
            }
            match expiry {
                Some(e) if e >= d.end => {}
                x => return viol("deal-activated-in-shorter-sector", format!("deal {} end {} sector expiry {:?}", id, d.end, x)),
            }
            if ss != after.epoch || lu != -1 {
                return viol("fresh-deal-state-wrong", format!("deal {}", id));
            }
            if !before.deals.contains_key(id) {
                return viol("activated-unknown-deal", format!("deal {}", id));
            }
        }
        if let (Some(_), None) = (was, d.state) {
            return viol("deal-state-vanished", format!("deal {}", id));
        }
    }
    // time-out: an unactivated deal touched at or after its start is removed, collateral burnt, client freed
    for (id, b) in &before.deals {
        if b.state.is_some() { continue; }
        let touched = match op {
            Op::Settle { ids, .. } => res.ok() && ids.contains(id),
            _ => false,
        };
        let gone = !after.deals.contains_key(id);
        if gone {
            if after.epoch < b.start {
                return viol("proposal-removed-before-start", format!("deal {} epoch {} start {}", id, after.epoch, b.start));
            }
            if !matches!(op, Op::Settle { .. } | Op::Cron { .. }) {
                return viol("proposal-removed-by-unexpected-message", format!("deal {}", id));
            }
        } else if touched && after.epoch >= b.start {
            return viol("timed-out-proposal-not-removed", format!("deal {} epoch {} start {}", id, after.epoch, b.start));
        }
    }
    // burn and refund of the time-outs of this message
    let timed_out: Vec<&DealView> = before.deals.iter().filter(|(i, b)| b.state.is_none() && !after.deals.contains_key(i)).map(|(_, b)| b).collect();
    if !timed_out.is_empty() {
        let slashed: BigInt = before.deals.iter().filter(|(i, b)| !after.deals.contains_key(i) && (b.state.is_none() || matches!(op, Op::Terminate { .. }))).map(|(_, b)| b.pc.clone()).sum();
        if &after.burnt - &before.burnt != slashed {
            return viol("timeout-burn-wrong", format!("burnt {} expected {}", &after.burnt - &before.burnt, slashed));
        }
        for b in timed_out {
            if after.locked(b.client) > before.locked(b.client) - (&b.cc + b.fee()) {
                return viol("timeout-client-not-refunded", format!("client {}", b.client));
            }
        }
    }
    None
}

/// bookkeeping of the oracle's own ledger after a step (from observed state changes only)
fn ledger_update(op: &Op, res: &Applied, before: &View, after: &View, led: &mut Ledger) {
    for id in after.deals.keys() {
        led.ever_ids.insert(*id);
    }
    for (id, d) in &after.deals {
        if d.state.is_some() { led.ever_activated.insert(*id); }
    }
    if !res.ok() { return; }
    match op {
        Op::Add { target, value, .. } => {
            *led.deposits.entry(target.id().unwrap()).or_default() += BigInt::from(*value);
        }
        Op::Withdraw { nominal, .. } => {
            let ret: WithdrawBalanceReturn = res.ret.clone().unwrap().deserialize().unwrap();
            *led.withdrawn.entry(nominal.id().unwrap()).or_default() += big(&ret.amount_withdrawn);
        }
        _ => {}
    }
    for (id, b) in &before.deals {
        if after.deals.contains_key(id) { continue; }
        // how the deal ended, from what was observed: no state = time-out; state + terminate message =
        // early termination at this epoch; otherwise completion
        let (paid, burnt) = if b.state.is_none() {
            (BigInt::zero(), b.pc.clone())
        } else if matches!(op, Op::Terminate { .. }) {
            let upto = after.epoch.max(b.start).min(b.end);
            (&b.price * BigInt::from(upto - b.start), b.pc.clone())
        } else {
            (b.fee(), BigInt::zero())
        };
        led.closed.insert(*id, ClosedDeal { client: b.client, provider: b.provider, paid, burnt });
    }
}

// ------------------------------------------------------------------ run

pub fn run(cfg: &RunCfg, which: &str) -> Report {
    run_n(cfg, which, None)
}

/// `fixed_seqs`: number of sequences regardless of tier/budget (used by C01's market sub-campaign)
pub fn run_n(cfg: &RunCfg, which: &str, fixed_seqs: Option<u64>) -> Report {
    let prop = which.to_uppercase();
    let mut rep = Report::new(&prop, cfg.seed, &cfg.tier);
    rep.nontrivial_rule = "a sequence is non-trivial when at least one deal was published, one was activated and one payment, completion, termination or time-out changed an escrow or removed a deal; distinct = distinct hash of the op lines".into();
    rep.notes.push("verified deals are excluded (verified_deal = false everywhere): datacap side effects belong to C09".into());
    rep.notes.push("OnMinerSectorsTerminate is always sent with epoch = current epoch, as the only real caller (miner::request_terminate_deals) does".into());
    let (nseq, maxlen) = if cfg.thorough() { (600u64, 220u64) } else { (60, 90) };
    let nseq = fixed_seqs.unwrap_or(nseq * cfg.budget);
    let mut lean = if cfg.use_lean { Some(LeanDriver::spawn("market").expect("lean driver")) } else { None };
    let mut seen = HashSet::new();
    let seqs: Vec<u64> = match cfg.only_seq { Some(k) => vec![k], None => (0..nseq).collect() };
    assert_eq!(UPDATES_INTERVAL, Policy::default().deal_updates_interval);
    'seqs: for seq in seqs {
        let mut r = seq_rng(cfg.seed, seq);
        let env = setup();
        let min_pc = big(&min_provider_collateral(&env));
        assert!(BigInt::from(PC_BASE) >= &min_pc * 2, "PC_BASE below the provider collateral bound {}", min_pc);
        let mut ctx = GenCtx { cron_heavy: r.chance(1, 4), script: if seq % 5 == 2 { 1 } else { 0 }, ..Default::default() };
        let mut led = Ledger::default();
        let mut lines: Vec<String> = vec!["init".to_string()];
        let mut agree = true;
        if let Some(l) = lean.as_mut() {
            let m = l.ask("init").unwrap();
            let i = format!("ok | {}", show(&view(&env)));
            if m != i {
                agree = false;
                rep.disagreements.push(Disagreement { seq, step: 0, op: "init".into(), impl_out: i, model_out: m, replay: String::new() });
                continue 'seqs;
            }
        }
        rep.sequences += 1;
        let len = r.range(25, maxlen as i64) as u64;
        let (mut published, mut activated, mut moved) = (false, false, false);
        let mut step = 0u64;
        let mut queue: Vec<Op> = vec![];
        while step < len {
            step += 1;
            let before = view(&env);
            let op = if let Some(o) = queue.pop() { o } else { gen_op(&mut r, &env, &before, &mut ctx) };
            if ctx.script_done { ctx.script_done = false; rep.branch("script-republished-proposal-timeout"); }
            let epoch = before.epoch;
            let mut b = build(&env, &op, epoch, &min_pc);
            // fault plan: now and then the plain send of the market (burn / withdrawal payout) is made to fail
            let fault = matches!(op, Op::Settle { .. } | Op::Terminate { .. } | Op::Cron { .. } | Op::Withdraw { .. })
                && r.chance(1, 14);
            if fault {
                if let Some(prefix) = b.line.strip_suffix(" 1") {
                    b.line = format!("{} 0", prefix);
                }
                env.w.vm.fault_plan.borrow_mut().rules.push(crate::vvm::FaultRule {
                    from: Some(STORAGE_MARKET_ACTOR_ADDR.id().unwrap()),
                    method: Some(METHOD_SEND),
                    exit: 16,
                    ..Default::default()
                });
                rep.branch("fault-injected");
            }
            rep.op(op_name(&op));
            lines.push(b.line.clone());
            if std::env::var("BA_DEBUG_OPS").is_ok() { eprintln!("[{}] e={} script={} {:?}", step, epoch, ctx.script, op); }
            let replay_hdr = vec![
                format!("property {} seed {} seq {} (re-run: ba_harness {} --seed {} --only-seq {})", prop, cfg.seed, super::seq_label(seq), which, cfg.seed, super::seq_label(seq)),
                format!("failing step {}: {:?}", step, op),
            ];
            let bal_before: BTreeMap<Address, TokenAmount> = env.clients.iter().map(|c| c.0)
                .chain(env.miners.iter().flat_map(|m| [m.owner, m.worker, m.id]))
                .map(|a| (a, env.w.balance(&a))).collect();
            let res = match &op {
                Op::Advance { to } => {
                    if *to >= epoch { env.w.vm.set_epoch(*to); }
                    Applied { code: if *to >= epoch { fvm_shared::error::ExitCode::OK } else { fvm_shared::error::ExitCode::USR_ILLEGAL_ARGUMENT }, ret: None, message: String::new(), panicked: false }
                }
                _ => {
                    rep.ops += 1;
                    env.w.apply_raw(&b.from, &b.to, &b.value, b.method, b.params.clone())
                }
            };
            env.w.vm.fault_plan.borrow_mut().rules.clear();
            let traces = env.w.take_trace();
            let trace = traces.last();
            let after = view(&env);
            if res.ok() {
                if !matches!(op, Op::Advance { .. }) { rep.ops_ok += 1; }
            } else {
                rep.err(&format!("{}:{}", op_name(&op), exit_class(res.code)));
                if std::env::var("BA_DEBUG").is_ok() && exit_class(res.code) == "sys" {
                    eprintln!("sys error {} {:?}: {}", res.code, op, res.message);
                }
            }
            if res.panicked {
                let path = write_replay(&prop, &format!("{}-{}", cfg.seed, super::seq_label(seq)), &replay_hdr, &lines);
                rep.violations.push(Violation { kind: "panic".into(), detail: res.message.clone(), replay: path });
                continue 'seqs;
            }
            // ---- oracles (independent of the model)
            let mut notes = vec![];
            let mut v = oracle_common(res.ok(), &before, &after);
            if v.is_none() && which == "c08" {
                // uses the ledger as it was before this step (ids / activations seen so far)
                v = oracle_c08(&env, &op, &res, &before, &after, &led, &min_pc, &mut notes);
            }
            ledger_update(&op, &res, &before, &after, &mut led);
            if v.is_none() {
                v = match which {
                    "c06" | "c01" => oracle_c06(&env, &op, &res, trace, &before, &after, &bal_before),
                    "c07" => oracle_c07(&op, &res, &before, &after, &led),
                    _ => None,
                };
            }
            for n in notes { if !rep.notes.contains(&n) { rep.notes.push(n); } }
            if let Some((kind, detail)) = v {
                let path = write_replay(&prop, &format!("{}-{}", cfg.seed, super::seq_label(seq)), &replay_hdr, &lines);
                rep.violations.push(Violation { kind, detail, replay: path });
                continue 'seqs;
            }
            // ---- branch / progress bookkeeping
            if res.ok() {
                match &op {
                    Op::Publish { deals, .. } => {
                        published = true;
                        let new_ids: Vec<u64> = after.deals.keys().filter(|i| !before.deals.contains_key(i)).cloned().collect();
                        if !new_ids.is_empty() && ctx.script == 0 && r.chance(2, 3) {
                            let take = new_ids.into_iter().filter(|_| r.chance(3, 4)).collect::<Vec<_>>();
                            if !take.is_empty() {
                                queue.push(gen_activation(&mut r, &env, &after, deals[0].provider, Some(take)));
                            }
                        }
                    }
                    Op::Activate { .. } | Op::Scc { .. } => {
                        if after.deals.iter().any(|(i, d)| d.state.is_some() && before.deals.get(i).map(|b| b.state.is_none()).unwrap_or(false)) {
                            activated = true;
                            rep.branch("activated");
                        }
                    }
                    _ => {}
                }
                for (id, bd) in &before.deals {
                    match after.deals.get(id) {
                        None => {
                            moved = true;
                            rep.branch(if bd.state.is_none() { "timed-out" } else if matches!(op, Op::Terminate { .. }) { "terminated" } else if matches!(op, Op::Cron { .. }) { "completed-by-cron" } else { "completed-by-settle" });
                        }
                        Some(ad) => {
                            if ad.paid_cf() != bd.paid_cf() {
                                moved = true;
                                rep.branch(if matches!(op, Op::Cron { .. }) { "paid-by-cron" } else { "paid-by-settle" });
                            }
                        }
                    }
                }
            }
            // ---- correspondence with the Lean model
            if let Some(l) = lean.as_mut() {
                let m = l.ask(&b.line).unwrap();
                let i = format!("{} | {}", impl_ret(&op, &res, trace), show(&after));
                let m_norm = if m.starts_with("err ") {
                    format!("err | {}", m.splitn(2, " | ").nth(1).unwrap_or(""))
                } else { m.clone() };
                if m_norm != i {
                    agree = false;
                    let path = write_replay(&prop, &format!("corr-{}-{}", cfg.seed, super::seq_label(seq)), &replay_hdr, &lines);
                    rep.disagreements.push(Disagreement { seq, step, op: b.line.clone(), impl_out: i, model_out: m, replay: path });
                    continue 'seqs;
                }
            }
            // the cron runs at the end of an epoch: move on afterwards
            if matches!(op, Op::Cron { .. }) {
                queue.push(Op::Advance { to: epoch + 1 });
            }
        }
        if agree && lean.is_some() { rep.traces_validated += 1; }
        if std::env::var("BA_DUMP").is_ok() {
            let hdr = vec![format!("property {} seed {} seq {} (op lines as sent to the Lean driver)", prop, cfg.seed, super::seq_label(seq))];
            write_replay(&prop, &format!("dump-{}-{}", cfg.seed, seq), &hdr, &lines);
        }
        let nontrivial = published && activated && moved;
        if nontrivial && seen.insert(hash_lines(&lines)) { rep.distinct_nontrivial += 1; }
        if rep.samples.len() < 3 && nontrivial {
            rep.samples.push(json!({"seq": seq, "ops": lines.iter().take(14).collect::<Vec<_>>()}));
        }
    }
    let _ = TEST_FAUCET_ADDR;
    rep
}
