//! C11 — privileged methods are callable only by their designated callers.
//!
//! The exhaustive dynamic matrix: one prepared world containing an instance of every actor type;
//! for every (actor type, method number — every defined one plus the undefined
//! {1?, max+1, 2^24−1, 2^24, an unused FRC-42 hash} and 0 —, caller class) one top-level message on
//! the real actors in the vvm, from the caller class as `from`.  Observed per cell: exit code,
//! whether the failure is the runtime's caller-validation failure (the vvm's own message text),
//! whether it is `restrict_internal_api`'s rejection, and whether the state-tree root changed
//! (ignoring the sender's nonce).  Every cell is compared with
//!   (1) the independent oracle: the hand-written specification table (`c11_spec.rs`, copied from
//!       `lean/BA/Props/C11.lean` by tools/spec_c11_to_rust.py) evaluated on the caller's roles as
//!       read from the real actor states, and
//!   (2) the Lean dispatch model's verdict for that cell (driver `dispatch`, generated table).
//! After each cell the world is rolled back to the prepared root, so cells are independent and a
//! bad cell is its own replay.
use super::RunCfg;
use super::c11_spec::{FALLBACKS, SPEC, UNRESTRICTED};
use crate::lean::LeanDriver;
use crate::report::{Disagreement, Report, Violation, write_replay};
use crate::vvm::{TEST_FAUCET_ADDR, TEST_VERIFREG_ROOT_ADDR};
use crate::world::{Applied, World, exit_class};
use cid::Cid;
use fil_actors_runtime::runtime::builtins::Type;
use fil_actors_runtime::test_utils::{
    ACTOR_TYPES, ETHACCOUNT_ACTOR_CODE_ID, MULTISIG_ACTOR_CODE_ID, PAYCH_ACTOR_CODE_ID,
};
use fil_actors_runtime::{
    BURNT_FUNDS_ACTOR_ADDR, CRON_ACTOR_ADDR, DATACAP_TOKEN_ACTOR_ADDR, EAM_ACTOR_ADDR, EAM_ACTOR_ID,
    INIT_ACTOR_ADDR, REWARD_ACTOR_ADDR, STORAGE_MARKET_ACTOR_ADDR, STORAGE_POWER_ACTOR_ADDR,
    SYSTEM_ACTOR_ADDR, VERIFIED_REGISTRY_ACTOR_ADDR,
};
use fvm_ipld_bitfield::BitField;
use fvm_ipld_encoding::ipld_block::IpldBlock;
use fvm_ipld_encoding::{BytesDe, RawBytes};
use fvm_shared::address::{Address, Payload};
use fvm_shared::bigint::bigint_ser::BigIntDe;
use fvm_shared::econ::TokenAmount;
use fvm_shared::error::ExitCode;
use fvm_shared::sector::{RegisteredPoStProof, StoragePower};
use fvm_shared::{METHOD_SEND, MethodNum};
use num_traits::Zero;
use serde::Serialize;
use serde_json::json;
use std::collections::BTreeMap;
use vm_api::VM;

// ------------------------------------------------------------------ spec term language (Rust copy)

#[derive(Clone, Copy, Debug, PartialEq, Eq, PartialOrd, Ord)]
pub enum A {
    System, Init, Reward, Cron, Power, Market, Verifreg, Datacap, Eam, Burnt, Id0, Self_, Origin,
    Owner, Worker, Control, Beneficiary, PendingOwner, ChFrom, ChTo, RootKey, Governor, EscrowApproved,
}
impl A {
    fn name(self) -> &'static str {
        match self {
            A::System => "system", A::Init => "init", A::Reward => "reward", A::Cron => "cron",
            A::Power => "power", A::Market => "market", A::Verifreg => "verifreg", A::Datacap => "datacap",
            A::Eam => "eam", A::Burnt => "burnt", A::Id0 => "id0", A::Self_ => "self", A::Origin => "origin",
            A::Owner => "owner", A::Worker => "worker", A::Control => "control",
            A::Beneficiary => "beneficiary", A::PendingOwner => "pendingOwner", A::ChFrom => "chFrom",
            A::ChTo => "chTo", A::RootKey => "rootKey", A::Governor => "governor",
            A::EscrowApproved => "escrowApproved",
        }
    }
}

#[derive(Clone, Copy, Debug)]
pub enum T {
    Any,
    Is(&'static [A]),
    Type(&'static [&'static str]),
    Namespace(&'static [&'static str]),
    Alt(&'static T, &'static T),
}

impl T {
    fn kind(&self) -> &'static str {
        match self {
            T::Any => "any", T::Is(_) => "is", T::Type(_) => "type", T::Namespace(_) => "namespace",
            T::Alt(a, _) => a.kind(),
        }
    }
}

pub struct Row {
    pub actor: &'static str,
    pub name: &'static str,
    pub num: u64,
    pub enum_num: u64,
    pub term: T,
    pub first: bool,
    pub guard: &'static str,
}

/// what the runtime can observe about a caller (same record as the Lean model's `Caller`)
#[derive(Clone, Debug)]
struct CallerView {
    code: Option<&'static str>,
    atoms: Vec<A>,
    ns: Option<&'static str>,
}

fn denote(t: &T, c: &CallerView) -> bool {
    match t {
        T::Any => true,
        T::Is(l) => l.iter().any(|a| c.atoms.contains(a)),
        T::Type(l) => c.code.is_some_and(|k| l.contains(&k)),
        T::Namespace(l) => c.ns.is_some_and(|k| l.contains(&k)),
        T::Alt(a, b) => denote(a, c) || denote(b, c),
    }
}

const FIRST_EXPORTED: u64 = 1 << 24;
/// FRC-42 hash of "C11UnusedMethod" is not needed exactly: any number ≥ 2^24 that no actor defines
const UNUSED_EXPORTED: u64 = 4_000_000_007;

const ACTORS: [&str; 16] = [
    "account", "cron", "datacap", "eam", "ethaccount", "evm", "init", "market", "miner", "multisig",
    "paych", "placeholder", "power", "reward", "system", "verifreg",
];

fn type_name(t: &Type) -> &'static str {
    match t {
        Type::System => "system", Type::Init => "init", Type::Cron => "cron", Type::Account => "account",
        Type::Power => "power", Type::Miner => "miner", Type::Market => "market",
        Type::PaymentChannel => "paych", Type::Multisig => "multisig", Type::Reward => "reward",
        Type::VerifiedRegistry => "verifreg", Type::DataCap => "datacap", Type::Placeholder => "placeholder",
        Type::EVM => "evm", Type::EAM => "eam", Type::EthAccount => "ethaccount",
    }
}

// ------------------------------------------------------------------ the prepared world

struct Prepared {
    w: World,
    root: Cid,
    /// one instance per actor type
    targets: BTreeMap<&'static str, Address>,
    /// caller classes in matrix order: (class name, id address)
    callers: Vec<(String, Address)>,
    miner: Address,
    client: Address,
    stranger: Address,
    notes: Vec<String>,
}

fn fil(n: i64) -> TokenAmount {
    TokenAmount::from_whole(n)
}

fn must(r: Applied, what: &str) -> Applied {
    assert!(r.ok(), "C11 world preparation failed at {}: {:?}", what, r);
    r
}

fn create_miner(w: &World, owner: &Address, worker: &Address, notes: &mut Vec<String>) -> Address {
    let params = fil_actor_power::CreateMinerParams {
        owner: *owner,
        worker: *worker,
        window_post_proof_type: RegisteredPoStProof::StackedDRGWindow32GiBV1P1,
        peer: b"c11-peer".to_vec(),
        multiaddrs: vec![BytesDe(b"c11-maddr".to_vec())],
    };
    // plain CreateMiner to the power actor, with value to cover any creation deposit
    let mut r = w.apply(owner, &STORAGE_POWER_ACTOR_ADDR, &fil(0), fil_actor_power::Method::CreateMiner as u64, Some(params.clone()));
    if !r.ok() {
        notes.push(format!("CreateMiner with value 0 failed ({}: {}), retried with 100 FIL", r.code, r.message));
        r = w.apply(owner, &STORAGE_POWER_ACTOR_ADDR, &fil(100), fil_actor_power::Method::CreateMiner as u64, Some(params));
    }
    let r = must(r, "CreateMiner");
    let ret: fil_actor_power::CreateMinerReturn = r.ret.unwrap().deserialize().unwrap();
    ret.id_address
}

fn prepare() -> Prepared {
    let w = World::new(false);
    let mut notes = vec![];
    let acc = w.create_accounts(16, 1111, &fil(10_000));
    let id = |i: usize| acc[i].0;
    let (stranger, owner, worker, control, beneficiary, pending_owner) = (id(0), id(1), id(2), id(3), id(4), id(5));
    let (ch_from, ch_to, signer, signer2, verifier, client) = (id(6), id(7), id(8), id(9), id(10), id(11));
    let (target_account, owner2, creator) = (id(12), id(13), id(14));

    // miner (target) with distinct owner / worker / control / beneficiary / pending owner
    let miner = create_miner(&w, &owner, &worker, &mut notes);
    must(
        w.apply(&owner, &miner, &fil(0), fil_actor_miner::Method::ChangeWorkerAddress as u64,
            Some(fil_actor_miner::ChangeWorkerAddressParams { new_worker: worker, new_control_addresses: vec![control] })),
        "set control address",
    );
    let cb = fil_actor_miner::ChangeBeneficiaryParams { new_beneficiary: beneficiary, new_quota: fil(100), new_expiration: 1_000_000 };
    must(w.apply(&owner, &miner, &fil(0), fil_actor_miner::Method::ChangeBeneficiary as u64, Some(cb.clone())), "propose beneficiary");
    must(w.apply(&beneficiary, &miner, &fil(0), fil_actor_miner::Method::ChangeBeneficiary as u64, Some(cb)), "confirm beneficiary");
    must(
        w.apply(&owner, &miner, &fil(0), fil_actor_miner::Method::ChangeOwnerAddress as u64,
            Some(fil_actor_miner::ChangeOwnerAddressParams { new_owner: pending_owner })),
        "propose new owner",
    );
    must(w.apply(&owner, &miner, &fil(50), METHOD_SEND, None::<()>), "fund miner");
    // a second miner: the caller class "a miner"
    let miner2 = create_miner(&w, &owner2, &owner2, &mut notes);

    // multisig (2 signers, threshold 2, one pending transaction) via init Exec
    let ms_ctor = fil_actor_multisig::ConstructorParams { signers: vec![signer, signer2], num_approvals_threshold: 2, unlock_duration: 0, start_epoch: 0 };
    let r = must(
        w.apply(&signer, &INIT_ACTOR_ADDR, &fil(10), fil_actor_init::Method::Exec as u64,
            Some(fil_actor_init::ExecParams { code_cid: *MULTISIG_ACTOR_CODE_ID, constructor_params: RawBytes::serialize(&ms_ctor).unwrap() })),
        "create multisig",
    );
    let msig = r.ret.unwrap().deserialize::<fil_actor_init::ExecReturn>().unwrap().id_address;
    must(
        w.apply(&signer, &msig, &fil(0), fil_actor_multisig::Method::Propose as u64,
            Some(fil_actor_multisig::ProposeParams { to: stranger, value: fil(1), method: METHOD_SEND, params: RawBytes::default() })),
        "multisig pending proposal",
    );

    // payment channel via init Exec
    let pc_ctor = fil_actor_paych::ConstructorParams { from: ch_from, to: ch_to };
    let r = must(
        w.apply(&ch_from, &INIT_ACTOR_ADDR, &fil(10), fil_actor_init::Method::Exec as u64,
            Some(fil_actor_init::ExecParams { code_cid: *PAYCH_ACTOR_CODE_ID, constructor_params: RawBytes::serialize(&pc_ctor).unwrap() })),
        "create paych",
    );
    let paych = r.ret.unwrap().deserialize::<fil_actor_init::ExecReturn>().unwrap().id_address;

    // EVM contract via EAM CreateExternal (empty bytecode, as integration_tests' evm_test does)
    let r = must(
        w.apply(&creator, &EAM_ACTOR_ADDR, &fil(0), fil_actor_eam::Method::CreateExternal as u64,
            Some(fil_actor_eam::CreateExternalParams(vec![]))),
        "deploy EVM contract",
    );
    let evm = Address::new_id(r.ret.unwrap().deserialize::<fil_actor_eam::CreateExternalReturn>().unwrap().actor_id);

    // eth-account and placeholder: funds sent to f410 addresses create placeholders; one is promoted
    let eth1 = Address::new_delegated(EAM_ACTOR_ID, &[0xEE; 20]).unwrap();
    let eth2 = Address::new_delegated(EAM_ACTOR_ID, &[0xDD; 20]).unwrap();
    must(w.apply(&TEST_FAUCET_ADDR, &eth1, &fil(100), METHOD_SEND, None::<()>), "fund eth-account");
    must(w.apply(&TEST_FAUCET_ADDR, &eth2, &fil(100), METHOD_SEND, None::<()>), "fund placeholder");
    let ethaccount = w.vm.resolve_id_address(&eth1).unwrap();
    let placeholder = w.vm.resolve_id_address(&eth2).unwrap();
    // the caller class "placeholder" is a different actor (a sending placeholder is promoted to an eth-account)
    let eth3 = Address::new_delegated(EAM_ACTOR_ID, &[0xCC; 20]).unwrap();
    must(w.apply(&TEST_FAUCET_ADDR, &eth3, &fil(100), METHOD_SEND, None::<()>), "fund placeholder caller");
    let placeholder_caller = w.vm.resolve_id_address(&eth3).unwrap();
    let mut a = w.vm.actor(&ethaccount).unwrap();
    a.code = *ETHACCOUNT_ACTOR_CODE_ID;
    w.vm.set_actor(&ethaccount, a);

    // an actor whose code is not a built-in actor
    let foreign = Address::new_id(77_777);
    let foreign_code = w.vm.put_store(&"c11 foreign code".to_string());
    w.vm.set_actor(&foreign, vm_api::new_actor(foreign_code, fil_actors_runtime::runtime::EMPTY_ARR_CID, 0, fil(100), None));

    // verified registry: a verifier, a client with datacap; market escrow for the client and the miner
    must(
        w.apply(&TEST_VERIFREG_ROOT_ADDR, &VERIFIED_REGISTRY_ACTOR_ADDR, &fil(0), fil_actor_verifreg::Method::AddVerifier as u64,
            Some(fil_actor_verifreg::AddVerifierParams { address: verifier, allowance: StoragePower::from(1u64 << 50) })),
        "add verifier",
    );
    must(
        w.apply(&verifier, &VERIFIED_REGISTRY_ACTOR_ADDR, &fil(0), fil_actor_verifreg::Method::AddVerifiedClient as u64,
            Some(fil_actor_verifreg::AddVerifiedClientParams { address: client, allowance: StoragePower::from(1u64 << 40) })),
        "add verified client",
    );
    must(w.apply(&client, &STORAGE_MARKET_ACTOR_ADDR, &fil(10), fil_actor_market::Method::AddBalance as u64, Some(client)), "client escrow");
    must(w.apply(&owner, &STORAGE_MARKET_ACTOR_ADDR, &fil(10), fil_actor_market::Method::AddBalance as u64, Some(miner)), "miner escrow");

    let mut targets = BTreeMap::new();
    targets.insert("account", target_account);
    targets.insert("cron", CRON_ACTOR_ADDR);
    targets.insert("datacap", DATACAP_TOKEN_ACTOR_ADDR);
    targets.insert("eam", EAM_ACTOR_ADDR);
    targets.insert("ethaccount", ethaccount);
    targets.insert("evm", evm);
    targets.insert("init", INIT_ACTOR_ADDR);
    targets.insert("market", STORAGE_MARKET_ACTOR_ADDR);
    targets.insert("miner", miner);
    targets.insert("multisig", msig);
    targets.insert("paych", paych);
    targets.insert("placeholder", placeholder);
    targets.insert("power", STORAGE_POWER_ACTOR_ADDR);
    targets.insert("reward", REWARD_ACTOR_ADDR);
    targets.insert("system", SYSTEM_ACTOR_ADDR);
    targets.insert("verifreg", VERIFIED_REGISTRY_ACTOR_ADDR);

    let callers: Vec<(String, Address)> = vec![
        ("system", SYSTEM_ACTOR_ADDR), ("init", INIT_ACTOR_ADDR), ("reward", REWARD_ACTOR_ADDR),
        ("cron", CRON_ACTOR_ADDR), ("power", STORAGE_POWER_ACTOR_ADDR), ("market", STORAGE_MARKET_ACTOR_ADDR),
        ("verifreg", VERIFIED_REGISTRY_ACTOR_ADDR), ("datacap", DATACAP_TOKEN_ACTOR_ADDR), ("eam", EAM_ACTOR_ADDR),
        ("burnt", BURNT_FUNDS_ACTOR_ADDR), ("account", stranger), ("multisig", msig), ("miner", miner2),
        ("paych", paych), ("evm", evm), ("ethaccount", ethaccount), ("placeholder", placeholder_caller),
        ("foreign-code", foreign),
        ("miner-owner", owner), ("miner-worker", worker), ("miner-control", control),
        ("miner-beneficiary", beneficiary), ("miner-pending-owner", pending_owner),
        ("paych-from", ch_from), ("paych-to", ch_to), ("msig-signer", signer), ("msig-signer2", signer2),
        ("verifreg-root", TEST_VERIFREG_ROOT_ADDR), ("verifier", verifier), ("verified-client", client),
        ("target-miner", miner), ("target-account", target_account),
    ]
    .into_iter()
    .map(|(n, a)| (n.to_string(), a))
    .collect();
    // every caller must exist and keep a balance for value-less messages
    for (n, a) in &callers {
        assert!(w.vm.actor(a).is_some(), "caller class {} has no actor", n);
    }
    let root = w.vm.checkpoint();
    Prepared { w, root, targets, callers, miner, client, stranger, notes }
}

// ------------------------------------------------------------------ the caller as the runtime sees it

fn caller_view(p: &Prepared, target_actor: &str, target: &Address, caller: &Address, variant: &Variant) -> CallerView {
    let act = p.w.vm.actor(caller).unwrap();
    let code = ACTOR_TYPES.get(&act.code).map(type_name);
    let ns = match act.delegated_address.map(|d| *d.payload()) {
        Some(Payload::Delegated(d)) if d.namespace() == EAM_ACTOR_ID => Some("eam"),
        _ => None,
    };
    let mut atoms = vec![A::Origin]; // a top-level message: the caller is the origin
    match caller.id().unwrap() {
        0 => { atoms.push(A::System); atoms.push(A::Id0); }
        1 => atoms.push(A::Init),
        2 => atoms.push(A::Reward),
        3 => atoms.push(A::Cron),
        4 => atoms.push(A::Power),
        5 => atoms.push(A::Market),
        6 => atoms.push(A::Verifreg),
        7 => atoms.push(A::Datacap),
        10 => atoms.push(A::Eam),
        99 => atoms.push(A::Burnt),
        _ => {}
    }
    if caller == target {
        atoms.push(A::Self_);
    }
    // roles read from the receiver's real state
    match target_actor {
        "miner" => {
            let st: fil_actor_miner::State = get_state(p, target);
            let info = st.get_info(&*p.w.vm.store).unwrap();
            if info.owner == *caller { atoms.push(A::Owner); }
            if info.worker == *caller { atoms.push(A::Worker); }
            if info.control_addresses.contains(caller) { atoms.push(A::Control); }
            if info.beneficiary == *caller { atoms.push(A::Beneficiary); }
            if info.pending_owner_address == Some(*caller) { atoms.push(A::PendingOwner); }
        }
        "paych" => {
            let st: fil_actor_paych::State = get_state(p, target);
            if st.from == *caller { atoms.push(A::ChFrom); }
            if st.to == *caller { atoms.push(A::ChTo); }
        }
        "verifreg" => {
            let st: fil_actor_verifreg::State = get_state(p, target);
            if st.root_key == *caller { atoms.push(A::RootKey); }
        }
        "datacap" => {
            let st: fil_actor_datacap::State = get_state(p, target);
            if st.governor == *caller { atoms.push(A::Governor); }
        }
        "market" => {
            // escrow_address(params.provider_or_client): a miner party is represented by its owner and
            // worker, any other party by itself
            if let Some(party) = variant.escrow_party {
                let pa = p.w.vm.actor(&party).unwrap();
                if ACTOR_TYPES.get(&pa.code) == Some(&Type::Miner) {
                    let st: fil_actor_miner::State = get_state(p, &party);
                    let info = st.get_info(&*p.w.vm.store).unwrap();
                    if info.owner == *caller || info.worker == *caller { atoms.push(A::EscrowApproved); }
                } else if party == *caller {
                    atoms.push(A::EscrowApproved);
                }
            }
        }
        _ => {}
    }
    CallerView { code, atoms, ns }
}

fn get_state<S: serde::de::DeserializeOwned>(p: &Prepared, a: &Address) -> S {
    use fvm_ipld_encoding::CborStore;
    let act = p.w.vm.actor(a).unwrap();
    p.w.vm.store.get_cbor::<S>(&act.state).unwrap().unwrap()
}

// ------------------------------------------------------------------ parameters per method

#[derive(Clone, Default)]
struct Variant {
    tag: &'static str,
    params: Option<IpldBlock>,
    /// market WithdrawBalance: the party named in the parameters
    escrow_party: Option<Address>,
    /// false: no typed parameters were built for this (validate-any) method; callers get a
    /// serialization error after `restrict_internal_api` and before the handler
    built: bool,
}

fn ser<S: Serialize>(s: &S) -> Option<IpldBlock> {
    IpldBlock::serialize_cbor(s).unwrap()
}

fn v1(params: Option<IpldBlock>) -> Vec<Variant> {
    vec![Variant { tag: "", params, escrow_party: None, built: true }]
}

fn zero_estimate() -> fil_actors_runtime::reward::FilterEstimate {
    fil_actors_runtime::reward::FilterEstimate::default()
}

/// Parameters for (actor, method name): type-correct and cheap; enough to get past deserialisation
/// and, for the methods whose handler checks parameters before the caller, past those checks.
fn variants(p: &Prepared, actor: &str, name: &str) -> Vec<Variant> {
    let base = name.strip_suffix("Exported").unwrap_or(name);
    let stranger = p.stranger;
    let miner = p.miner;
    let none = || v1(None);
    match (actor, base) {
        // ---- account / ethaccount / system / cron
        ("account", "Constructor") => v1(ser(&stranger)),
        ("account", "PubkeyAddress") => none(),
        ("account", "AuthenticateMessage") => v1(ser(&fil_actor_account::types::AuthenticateMessageParams { signature: vec![1, 2], message: vec![1, 2] })),
        ("ethaccount", "Constructor") | ("system", "Constructor") => none(),
        ("cron", "Constructor") => v1(ser(&fil_actor_cron::ConstructorParams { entries: vec![] })),
        ("cron", "EpochTick") => none(),
        // ---- datacap
        ("datacap", "Constructor") => v1(ser(&VERIFIED_REGISTRY_ACTOR_ADDR)),
        ("datacap", "Mint") => v1(ser(&fil_actor_datacap::MintParams { to: stranger, amount: TokenAmount::from_whole(1), operators: vec![] })),
        ("datacap", "Destroy") => v1(ser(&fil_actor_datacap::DestroyParams { owner: p.client, amount: TokenAmount::from_whole(1) })),
        ("datacap", "Name") | ("datacap", "Symbol") | ("datacap", "Granularity") | ("datacap", "TotalSupply") => none(),
        ("datacap", "Balance") => v1(ser(&p.client)),
        ("datacap", "Transfer") => vec![
            Variant { tag: "to=governor", params: ser(&frc46_token::token::types::TransferParams { to: VERIFIED_REGISTRY_ACTOR_ADDR, amount: TokenAmount::zero(), operator_data: RawBytes::default() }), escrow_party: None, built: true },
            Variant { tag: "to=stranger", params: ser(&frc46_token::token::types::TransferParams { to: stranger, amount: TokenAmount::zero(), operator_data: RawBytes::default() }), escrow_party: None, built: true },
        ],
        ("datacap", "TransferFrom") => v1(ser(&frc46_token::token::types::TransferFromParams { from: p.client, to: VERIFIED_REGISTRY_ACTOR_ADDR, amount: TokenAmount::zero(), operator_data: RawBytes::default() })),
        ("datacap", "IncreaseAllowance") => v1(ser(&frc46_token::token::types::IncreaseAllowanceParams { operator: stranger, increase: TokenAmount::from_whole(1) })),
        ("datacap", "DecreaseAllowance") => v1(ser(&frc46_token::token::types::DecreaseAllowanceParams { operator: stranger, decrease: TokenAmount::from_whole(1) })),
        ("datacap", "RevokeAllowance") => v1(ser(&frc46_token::token::types::RevokeAllowanceParams { operator: stranger })),
        ("datacap", "Burn") => v1(ser(&frc46_token::token::types::BurnParams { amount: TokenAmount::zero() })),
        ("datacap", "BurnFrom") => v1(ser(&frc46_token::token::types::BurnFromParams { owner: p.client, amount: TokenAmount::zero() })),
        ("datacap", "Allowance") => v1(ser(&frc46_token::token::types::GetAllowanceParams { owner: p.client, operator: stranger })),
        // ---- eam
        ("eam", "Constructor") => none(),
        ("eam", "Create") => v1(ser(&fil_actor_eam::CreateParams { initcode: vec![], nonce: 7 })),
        ("eam", "Create2") => v1(ser(&fil_actor_eam::Create2Params { initcode: vec![], salt: [7u8; 32] })),
        ("eam", "CreateExternal") => v1(ser(&fil_actor_eam::CreateExternalParams(vec![]))),
        // ---- evm
        ("evm", "Constructor") | ("evm", "Resurrect") => v1(ser(&fil_actor_evm::ConstructorParams {
            creator: fil_actors_evm_shared::address::EthAddress([0x11; 20]),
            initcode: RawBytes::default(),
        })),
        ("evm", "GetBytecode") | ("evm", "GetBytecodeHash") => none(),
        ("evm", "GetStorageAt") => v1(ser(&fil_actor_evm::GetStorageAtParams { storage_key: fil_actors_evm_shared::uints::U256::from(0u64) })),
        ("evm", "InvokeContractDelegate") => v1(Some(IpldBlock {
            codec: fvm_ipld_encoding::DAG_CBOR,
            data: fvm_ipld_encoding::to_vec(&fil_actor_evm::DelegateCallParams {
                code: p.w.vm.put_store(&RawBytes::default()),
                input: vec![],
                caller: fil_actors_evm_shared::address::EthAddress([0x11; 20]),
                value: TokenAmount::zero(),
            }).unwrap(),
        })),
        ("evm", "InvokeContract") => none(),
        // ---- init
        ("init", "Constructor") => v1(ser(&fil_actor_init::ConstructorParams { network_name: "c11".into() })),
        ("init", "Exec") => {
            let ctor = fil_actor_paych::ConstructorParams { from: stranger, to: p.client };
            vec![
                Variant { tag: "code=paych", params: ser(&fil_actor_init::ExecParams { code_cid: *PAYCH_ACTOR_CODE_ID, constructor_params: RawBytes::serialize(&ctor).unwrap() }), escrow_party: None, built: true },
                Variant { tag: "code=miner", params: ser(&fil_actor_init::ExecParams { code_cid: *fil_actors_runtime::test_utils::MINER_ACTOR_CODE_ID, constructor_params: RawBytes::default() }), escrow_party: None, built: true },
            ]
        }
        ("init", "Exec4") => v1(ser(&fil_actor_init::Exec4Params {
            code_cid: *fil_actors_runtime::test_utils::EVM_ACTOR_CODE_ID,
            constructor_params: RawBytes::default(),
            subaddress: RawBytes::new(vec![0x33; 20]),
        })),
        // ---- market
        ("market", "Constructor") | ("market", "CronTick") => none(),
        ("market", "AddBalance") => v1(ser(&p.client)),
        ("market", "WithdrawBalance") => vec![
            Variant { tag: "party=miner", params: ser(&fil_actor_market::WithdrawBalanceParams { provider_or_client: miner, amount: TokenAmount::from_atto(1) }), escrow_party: Some(miner), built: true },
            Variant { tag: "party=client", params: ser(&fil_actor_market::WithdrawBalanceParams { provider_or_client: p.client, amount: TokenAmount::from_atto(1) }), escrow_party: Some(p.client), built: true },
        ],
        ("market", "PublishStorageDeals") => v1(ser(&fil_actor_market::PublishStorageDealsParams { deals: vec![deal_proposal(p)] })),
        ("market", "VerifyDealsForActivation") => v1(ser(&fil_actor_market::VerifyDealsForActivationParams { sectors: vec![] })),
        ("market", "BatchActivateDeals") => v1(ser(&fil_actor_market::BatchActivateDealsParams { sectors: vec![], compute_cid: false })),
        ("market", "OnMinerSectorsTerminate") => v1(ser(&fil_actor_market::OnMinerSectorsTerminateParams { epoch: 0, sectors: BitField::new() })),
        ("market", "GetBalance") => v1(ser(&p.client)),
        ("market", "SettleDealPayments") => v1(ser(&fil_actor_market::SettleDealPaymentsParams { deal_ids: BitField::new() })),
        ("market", "SectorContentChanged") => v1(ser(&fil_actor_market::ext::miner::SectorContentChangedParams { sectors: vec![] })),
        ("market", m) if m.starts_with("GetDeal") => v1(ser(&fil_actor_market::DealQueryParams { id: 0 })),
        // ---- miner
        ("miner", "Constructor") => v1(ser(&fil_actor_miner::MinerConstructorParams {
            owner: stranger, worker: stranger, control_addresses: vec![],
            window_post_proof_type: RegisteredPoStProof::StackedDRGWindow32GiBV1P1,
            peer_id: b"p".to_vec(), multi_addresses: vec![],
        })),
        ("miner", "ChangeWorkerAddress") => {
            let info = { let st: fil_actor_miner::State = get_state(p, &miner); st.get_info(&*p.w.vm.store).unwrap() };
            v1(ser(&fil_actor_miner::ChangeWorkerAddressParams { new_worker: info.worker, new_control_addresses: info.control_addresses.clone() }))
        }
        ("miner", "ChangePeerID") => v1(ser(&fil_actor_miner::ChangePeerIDParams { new_id: b"q".to_vec() })),
        ("miner", "SubmitWindowedPoSt") => v1(ser(&fil_actor_miner::SubmitWindowedPoStParams {
            deadline: 0, partitions: vec![fil_actor_miner::PoStPartition { index: 0, skipped: BitField::new() }],
            proofs: vec![fvm_shared::sector::PoStProof { post_proof: RegisteredPoStProof::StackedDRGWindow32GiBV1P1, proof_bytes: vec![1, 2, 3] }],
            chain_commit_epoch: 0, chain_commit_rand: fvm_shared::randomness::Randomness(vec![0u8; 32]),
        })),
        ("miner", "TerminateSectors") => v1(ser(&fil_actor_miner::TerminateSectorsParams { terminations: vec![] })),
        ("miner", "DeclareFaults") => v1(ser(&fil_actor_miner::DeclareFaultsParams { faults: vec![] })),
        ("miner", "DeclareFaultsRecovered") => v1(ser(&fil_actor_miner::DeclareFaultsRecoveredParams { recoveries: vec![] })),
        ("miner", "OnDeferredCronEvent") => v1(ser(&fil_actor_miner::DeferredCronEventParams { event_payload: vec![], reward_smoothed: zero_estimate(), quality_adj_power_smoothed: zero_estimate() })),
        ("miner", "ApplyRewards") => v1(ser(&fil_actor_miner::ApplyRewardParams { reward: TokenAmount::zero(), penalty: TokenAmount::zero() })),
        ("miner", "WithdrawBalance") => v1(ser(&fil_actor_miner::WithdrawBalanceParams { amount_requested: TokenAmount::from_atto(1) })),
        ("miner", "InternalSectorSetupForPreseal") => v1(ser(&fil_actor_miner::InternalSectorSetupForPresealParams { sectors: vec![], reward_smoothed: zero_estimate(), reward_baseline_power: StoragePower::from(0u64), quality_adj_power_smoothed: zero_estimate() })),
        ("miner", "ChangeMultiaddrs") => v1(ser(&fil_actor_miner::ChangeMultiaddrsParams { new_multi_addrs: vec![BytesDe(b"m".to_vec())] })),
        ("miner", "CompactPartitions") => v1(ser(&fil_actor_miner::CompactPartitionsParams { deadline: 10, partitions: BitField::new() })),
        ("miner", "CompactSectorNumbers") => v1(ser(&fil_actor_miner::CompactSectorNumbersParams { mask_sector_numbers: BitField::try_from_bits([1u64, 2]).unwrap() })),
        ("miner", "ChangeOwnerAddress") => {
            let info = { let st: fil_actor_miner::State = get_state(p, &miner); st.get_info(&*p.w.vm.store).unwrap() };
            v1(ser(&fil_actor_miner::ChangeOwnerAddressParams { new_owner: info.pending_owner_address.unwrap_or(stranger) }))
        }
        ("miner", "PreCommitSectorBatch2") => v1(ser(&fil_actor_miner::PreCommitSectorBatchParams2 { sectors: vec![] })),
        ("miner", "ExtendSectorExpiration2") => v1(ser(&fil_actor_miner::ExtendSectorExpiration2Params { extensions: vec![] })),
        ("miner", "ProveCommitSectors3") => v1(ser(&fil_actor_miner::ProveCommitSectors3Params { sector_activations: vec![], sector_proofs: vec![], aggregate_proof: RawBytes::default(), aggregate_proof_type: None, require_activation_success: false, require_notification_success: false })),
        ("miner", "ProveReplicaUpdates3") => v1(ser(&fil_actor_miner::ProveReplicaUpdates3Params { sector_updates: vec![], sector_proofs: vec![], aggregate_proof: RawBytes::default(), update_proofs_type: fvm_shared::sector::RegisteredUpdateProof::StackedDRG32GiBV1, aggregate_proof_type: None, require_activation_success: false, require_notification_success: false })),
        ("miner", "ProveCommitSectorsNI") => v1(ser(&fil_actor_miner::ProveCommitSectorsNIParams { sectors: vec![fil_actor_miner::SectorNIActivationInfo { sealing_number: 1, sealer_id: miner.id().unwrap(), sealed_cid: fil_actors_runtime::test_utils::make_sealed_cid(b"c11"), sector_number: 1, seal_rand_epoch: -1, expiration: 1_000_000 }], aggregate_proof: RawBytes::new(vec![1, 2, 3]), seal_proof_type: fvm_shared::sector::RegisteredSealProof::StackedDRG32GiBV1P2_Feat_NiPoRep, aggregate_proof_type: fvm_shared::sector::RegisteredAggregateProof::SnarkPackV2, proving_deadline: 0, require_activation_success: false })),
        ("miner", "ChangeBeneficiary") => v1(ser(&fil_actor_miner::ChangeBeneficiaryParams { new_beneficiary: stranger, new_quota: TokenAmount::from_whole(1), new_expiration: 1_000_000 })),
        ("miner", "IsControllingAddress") => v1(ser(&fil_actor_miner::IsControllingAddressParam { address: stranger })),
        ("miner", "ControlAddresses") | ("miner", "ConfirmChangeWorkerAddress") | ("miner", "RepayDebt")
        | ("miner", "GetBeneficiary") | ("miner", "GetOwner") | ("miner", "GetSectorSize")
        | ("miner", "GetAvailableBalance") | ("miner", "GetVestingFunds") | ("miner", "GetPeerID")
        | ("miner", "GetMultiaddrs") | ("miner", "InitialPledge") => none(),
        // ---- multisig
        ("multisig", "Constructor") => v1(ser(&fil_actor_multisig::ConstructorParams { signers: vec![stranger], num_approvals_threshold: 1, unlock_duration: 0, start_epoch: 0 })),
        ("multisig", "Propose") => v1(ser(&fil_actor_multisig::ProposeParams { to: stranger, value: TokenAmount::zero(), method: METHOD_SEND, params: RawBytes::default() })),
        ("multisig", "Approve") | ("multisig", "Cancel") => v1(ser(&fil_actor_multisig::TxnIDParams { id: fil_actor_multisig::TxnID(0), proposal_hash: vec![] })),
        ("multisig", "AddSigner") => v1(ser(&fil_actor_multisig::AddSignerParams { signer: stranger, increase: false })),
        ("multisig", "RemoveSigner") => v1(ser(&fil_actor_multisig::RemoveSignerParams { signer: stranger, decrease: false })),
        ("multisig", "SwapSigner") => v1(ser(&fil_actor_multisig::SwapSignerParams { from: stranger, to: p.client })),
        ("multisig", "ChangeNumApprovalsThreshold") => v1(ser(&fil_actor_multisig::ChangeNumApprovalsThresholdParams { new_threshold: 1 })),
        ("multisig", "LockBalance") => v1(ser(&fil_actor_multisig::LockBalanceParams { start_epoch: 0, unlock_duration: 10, amount: TokenAmount::from_atto(1) })),
        // ---- paych
        ("paych", "Constructor") => v1(ser(&fil_actor_paych::ConstructorParams { from: stranger, to: p.client })),
        ("paych", "UpdateChannelState") => v1(ser(&fil_actor_paych::UpdateChannelStateParams {
            sv: fil_actor_paych::SignedVoucher {
                channel_addr: p.targets["paych"], time_lock_min: 0, time_lock_max: 0, secret_pre_image: vec![], extra: None,
                lane: 0, nonce: 1, amount: TokenAmount::from_atto(1), min_settle_height: 0, merges: vec![], signature: None,
            },
            secret: vec![],
        })),
        ("paych", "Settle") | ("paych", "Collect") => none(),
        // ---- power
        ("power", "Constructor") | ("power", "OnEpochTickEnd") | ("power", "CurrentTotalPower")
        | ("power", "NetworkRawPower") | ("power", "MinerCount") | ("power", "MinerConsensusCount") => none(),
        ("power", "CreateMiner") => v1(ser(&fil_actor_power::CreateMinerParams { owner: stranger, worker: stranger, window_post_proof_type: RegisteredPoStProof::StackedDRGWindow32GiBV1P1, peer: b"x".to_vec(), multiaddrs: vec![] })),
        ("power", "UpdateClaimedPower") => v1(ser(&fil_actor_power::UpdateClaimedPowerParams { raw_byte_delta: StoragePower::from(0u64), quality_adjusted_delta: StoragePower::from(0u64) })),
        ("power", "EnrollCronEvent") => v1(ser(&fil_actor_power::EnrollCronEventParams { event_epoch: 100, payload: RawBytes::default() })),
        ("power", "UpdatePledgeTotal") => v1(ser(&fil_actor_power::UpdatePledgeTotalParams { pledge_delta: TokenAmount::zero() })),
        ("power", "MinerRawPower") => v1(ser(&fil_actor_power::MinerRawPowerParams { miner: miner.id().unwrap() })),
        ("power", "MinerPower") => v1(ser(&fil_actor_power::MinerPowerParams { miner: miner.id().unwrap() })),
        // ---- reward
        ("reward", "Constructor") => v1(ser(&fil_actor_reward::ConstructorParams { power: Some(BigIntDe(StoragePower::from(0u64))) })),
        ("reward", "AwardBlockReward") => v1(ser(&fil_actor_reward::AwardBlockRewardParams { miner, penalty: TokenAmount::zero(), gas_reward: TokenAmount::zero(), win_count: 1 })),
        ("reward", "ThisEpochReward") => none(),
        ("reward", "UpdateNetworkKPI") => v1(ser(&fil_actor_reward::UpdateNetworkKPIParams { curr_realized_power: Some(BigIntDe(StoragePower::from(0u64))) })),
        // ---- verifreg
        ("verifreg", "Constructor") => v1(ser(&fil_actor_verifreg::ConstructorParams { root_key: TEST_VERIFREG_ROOT_ADDR })),
        ("verifreg", "AddVerifier") => v1(ser(&fil_actor_verifreg::AddVerifierParams { address: stranger, allowance: StoragePower::from(1u64 << 40) })),
        ("verifreg", "RemoveVerifier") => v1(ser(&fil_actor_verifreg::RemoveVerifierParams { verifier: stranger })),
        ("verifreg", "AddVerifiedClient") => v1(ser(&fil_actor_verifreg::AddVerifiedClientParams { address: stranger, allowance: StoragePower::from(1u64 << 30) })),
        ("verifreg", "ClaimAllocations") => v1(ser(&fil_actor_verifreg::ClaimAllocationsParams { sectors: vec![], all_or_nothing: false })),
        ("verifreg", "GetClaims") => v1(ser(&fil_actor_verifreg::GetClaimsParams { provider: miner.id().unwrap(), claim_ids: vec![] })),
        ("verifreg", "ExtendClaimTerms") => v1(ser(&fil_actor_verifreg::ExtendClaimTermsParams { terms: vec![] })),
        ("verifreg", "RemoveExpiredAllocations") => v1(ser(&fil_actor_verifreg::RemoveExpiredAllocationsParams { client: p.client.id().unwrap(), allocation_ids: vec![] })),
        ("verifreg", "RemoveExpiredClaims") => v1(ser(&fil_actor_verifreg::RemoveExpiredClaimsParams { provider: miner.id().unwrap(), claim_ids: vec![] })),
        ("verifreg", "UniversalReceiverHook") => v1(ser(&frc46_token::receiver::FRC46TokenReceived { from: p.client.id().unwrap(), to: 6, operator: p.client.id().unwrap(), amount: TokenAmount::zero(), operator_data: RawBytes::default(), token_data: RawBytes::default() }).map(|blk| {
            ser(&fvm_actor_utils_receiver(blk.data)).unwrap()
        })),
        // everything else: validate-any methods whose parameters are not built (kept honest in the notes)
        _ => vec![Variant { tag: "params-not-built", params: None, escrow_party: None, built: false }],
    }
}

/// `UniversalReceiverParams { type_: FRC46_TOKEN_TYPE, payload }`
fn fvm_actor_utils_receiver(payload: Vec<u8>) -> (u32, RawBytes) {
    (frc46_token::receiver::FRC46_TOKEN_TYPE, RawBytes::new(payload))
}

fn deal_proposal(p: &Prepared) -> fil_actor_market::ClientDealProposal {
    use fil_actor_market::{ClientDealProposal, DealProposal, Label};
    let proposal = DealProposal {
        piece_cid: fil_actors_runtime::test_utils::make_piece_cid(b"c11"),
        piece_size: fvm_shared::piece::PaddedPieceSize(2048),
        verified_deal: false,
        client: p.client,
        provider: p.miner,
        label: Label::String("c11".into()),
        start_epoch: 100,
        end_epoch: 100 + 200 * 2880,
        storage_price_per_epoch: TokenAmount::zero(),
        provider_collateral: TokenAmount::zero(),
        client_collateral: TokenAmount::zero(),
    };
    let sig = fvm_ipld_encoding::to_vec(&proposal).unwrap();
    ClientDealProposal {
        proposal,
        client_signature: fvm_shared::crypto::signature::Signature { sig_type: fvm_shared::crypto::signature::SignatureType::BLS, bytes: sig },
    }
}

// ------------------------------------------------------------------ observation and expectations

const MSG_IS: &str = "immediate caller address forbidden";
const MSG_TYPE: &str = "immediate caller actor type forbidden";
const MSG_NS1: &str = "immediate caller actor namespace forbidden";
const MSG_NS2: &str = "immediate caller actor expected to have namespace";

#[derive(Clone, Debug, PartialEq, Eq)]
enum Obs {
    Ok,
    Restricted,
    /// the vvm's caller validation rejected (kind of validation)
    Rejected(&'static str),
    Unhandled,
    /// any other failure: the handler got past the caller validation (or failed before reaching it)
    OtherErr,
    Panicked,
}

fn observe(r: &Applied) -> Obs {
    if r.panicked { return Obs::Panicked; }
    if r.code == ExitCode::OK { return Obs::Ok; }
    let m = r.message.as_str();
    if r.code == ExitCode::USR_FORBIDDEN && (m.contains("must be built-in") || m.contains("no code for caller")) {
        return Obs::Restricted;
    }
    // (a validation inside `rt.transaction` comes back prefixed "state transaction failed: ")
    if r.code == ExitCode::USR_FORBIDDEN && m.ends_with(MSG_IS) { return Obs::Rejected("is"); }
    if r.code == ExitCode::SYS_ASSERTION_FAILED && m.ends_with(MSG_TYPE) { return Obs::Rejected("type"); }
    if r.code == ExitCode::SYS_ASSERTION_FAILED && (m.ends_with(MSG_NS1) || m.ends_with(MSG_NS2)) { return Obs::Rejected("namespace"); }
    if r.code == ExitCode::USR_UNHANDLED_MESSAGE { return Obs::Unhandled; }
    Obs::OtherErr
}

/// expectation for a cell, from the spec (oracle) or from the Lean verdict line (correspondence)
#[derive(Clone, Debug, PartialEq, Eq)]
enum Exp {
    Send,
    Restricted,
    Unhandled,
    Rejected { first: bool, kind: String },
    Passes { first: bool },
}

fn exp_string(e: &Exp) -> String {
    match e {
        Exp::Send => "send".into(),
        Exp::Restricted => "restricted".into(),
        Exp::Unhandled => "unhandled".into(),
        Exp::Rejected { first, kind } => format!("rejected {} {}", *first as u8, kind),
        Exp::Passes { first } => format!("passes {}", *first as u8),
    }
}

fn spec_lookup(actor: &str, m: u64) -> Option<(&'static T, bool, &'static str, &'static str)> {
    if let Some(r) = SPEC.iter().find(|r| r.actor == actor && r.num == m) {
        return Some((&r.term, r.first, r.name, r.guard));
    }
    FALLBACKS.iter().find(|f| f.0 == actor).map(|f| (&f.1, f.2, "<fallback>", ""))
}

fn spec_expect(actor: &str, m: u64, c: &CallerView) -> Exp {
    if m == 0 { return Exp::Send; }
    let restricted = !UNRESTRICTED.contains(&actor);
    if restricted && m < FIRST_EXPORTED && (c.code.is_none() || c.code == Some("evm")) {
        return Exp::Restricted;
    }
    match spec_lookup(actor, m) {
        None => Exp::Unhandled,
        Some((t, first, _, _)) => {
            if denote(t, c) { Exp::Passes { first } } else { Exp::Rejected { first, kind: t.kind().into() } }
        }
    }
}

fn parse_lean(line: &str) -> Option<Exp> {
    let ws: Vec<&str> = line.split_whitespace().collect();
    match ws.as_slice() {
        ["send"] => Some(Exp::Send),
        ["restricted"] => Some(Exp::Restricted),
        ["unhandled"] => Some(Exp::Unhandled),
        ["rejected", f, k] => Some(Exp::Rejected { first: *f == "1", kind: k.to_string() }),
        ["passes", f, _k] => Some(Exp::Passes { first: *f == "1" }),
        _ => None,
    }
}

/// Does the observation fit the expectation?  Err(kind, detail) otherwise.
fn fits(e: &Exp, o: &Obs, changed: bool, built: bool) -> Result<(), (&'static str, String)> {
    if *o == Obs::Panicked {
        return Err(("panic", "the call panicked".into()));
    }
    if *o != Obs::Ok && changed {
        return Err(("failed-call-changed-state", "the call failed but the state-tree root changed".into()));
    }
    match e {
        Exp::Send => if *o == Obs::Ok { Ok(()) } else { Err(("send-failed", format!("plain send observed {:?}", o))) },
        Exp::Restricted => if *o == Obs::Restricted { Ok(()) } else {
            Err(("internal-method-reachable-by-non-builtin", format!("expected restrict_internal_api to reject, observed {:?}", o)))
        },
        Exp::Unhandled => if *o == Obs::Unhandled { Ok(()) } else {
            Err(("undefined-method-handled", format!("expected unhandled_message, observed {:?}", o)))
        },
        Exp::Rejected { first, kind } => match o {
            Obs::Ok => Err(("outsider-accepted", "a caller outside the designated set completed the call".into())),
            Obs::Rejected(k) if *k == kind.as_str() => Ok(()),
            Obs::Rejected(k) => Err(("wrong-validation-kind", format!("expected a {} validation, the runtime rejected with a {} validation", kind, k))),
            // the handler failed for another reason: fine when something may precede the validation
            // (first = false) or when the parameters were not built (deserialisation fails first)
            Obs::OtherErr | Obs::Unhandled if !*first || !built => Ok(()),
            Obs::OtherErr | Obs::Unhandled => Err(("outsider-not-stopped-by-validation", format!("a caller outside the designated set was not rejected by the caller validation but later ({:?})", o))),
            Obs::Restricted => Err(("unexpected-restriction", "restrict_internal_api rejected a call the spec lets through to the validation".into())),
            Obs::Panicked => unreachable!(),
        },
        Exp::Passes { .. } => match o {
            Obs::Rejected(k) => Err(("designated-caller-rejected", format!("a designated caller was rejected by the {} caller validation", k))),
            Obs::Restricted => Err(("unexpected-restriction", "restrict_internal_api rejected a designated built-in caller".into())),
            _ => Ok(()),
        },
    }
}

/// Body guards of validate-any methods (the `guard` column of the spec), exercised on the cells whose
/// parameters reach the guard.  `Some(true)`: the body authorises this caller class and the call must
/// complete; `Some(false)`: the body must refuse it (any error, nothing changed); `None`: not judged.
fn guard_expect(actor: &str, base: &str, tag: &str, class: &str, view: &CallerView) -> Option<bool> {
    let eoa = matches!(view.code, Some("account") | Some("ethaccount") | Some("placeholder"));
    match (actor, base) {
        ("multisig", "Propose") => Some(matches!(class, "msig-signer" | "msig-signer2")),
        // transaction 0 was proposed (hence already approved) by msig-signer
        ("multisig", "Approve") => Some(class == "msig-signer2"),
        ("multisig", "Cancel") => Some(class == "msig-signer"),
        ("verifreg", "AddVerifiedClient") => Some(class == "verifier"),
        ("miner", "ChangeBeneficiary") => Some(class == "miner-owner"),
        ("market", "PublishStorageDeals") => {
            if matches!(class, "miner-owner" | "miner-worker" | "miner-control") { None } else { Some(false) }
        }
        ("eam", "CreateExternal") => if !eoa { Some(false) } else if class == "account" { Some(true) } else { None },
        ("init", "Exec") if tag == "code=miner" => if class == "power" { None } else { Some(false) },
        ("datacap", "Transfer") if tag == "to=stranger" => if class == "verifreg" { None } else { Some(false) },
        _ => None,
    }
}

// ------------------------------------------------------------------ the matrix

struct Cell {
    idx: u64,
    actor: &'static str,
    method: u64,
    mname: String,
    variant: Variant,
    class: String,
    caller: Address,
}

fn method_numbers(actor: &str) -> Vec<(u64, String)> {
    let mut v: Vec<(u64, String)> = SPEC.iter().filter(|r| r.actor == actor).map(|r| (r.num, r.name.to_string())).collect();
    let max_internal = v.iter().map(|x| x.0).filter(|n| *n < FIRST_EXPORTED).max().unwrap_or(0);
    for (n, tag) in [(0u64, "<send>"), (1, "<1>"), (max_internal + 1, "<max+1>"), (FIRST_EXPORTED - 1, "<2^24-1>"),
                     (FIRST_EXPORTED, "<2^24>"), (UNUSED_EXPORTED, "<unused-frc42>")] {
        if !v.iter().any(|x| x.0 == n) {
            v.push((n, tag.to_string()));
        }
    }
    v
}

pub fn run(cfg: &RunCfg) -> Report {
    let mut rep = Report::new("C11", cfg.seed, &cfg.tier);
    rep.exhaustive = true;
    rep.nontrivial_rule = "a cell (actor, method, parameter variant, caller class) is one sequence; non-trivial = the handler was reached (the call completed, was rejected by the caller validation, or failed inside the handler), i.e. not a plain send / undefined number; distinct = distinct cells".into();

    // the specified numbers are the numbers of the actor crates' `Method` enums
    for r in SPEC.iter() {
        if r.num != r.enum_num {
            rep.violations.push(Violation {
                kind: "method-number-differs-from-spec".into(),
                detail: format!("{}::{} is {} in the actor crate, {} in the specification", r.actor, r.name, r.enum_num, r.num),
                replay: write_replay("C11", &format!("{}-number-{}", cfg.seed, r.name), &[format!("property C11 seed {} seq 0", cfg.seed)], &[format!("number {} {}", r.actor, r.name)]),
            });
        }
    }

    // a world that cannot be prepared (e.g. a constructor that no longer completes) is a finding, not a crash
    let p = match std::panic::catch_unwind(prepare) {
        Ok(p) => p,
        Err(e) => {
            let msg = e.downcast_ref::<String>().cloned().or_else(|| e.downcast_ref::<&str>().map(|s| s.to_string())).unwrap_or_else(|| "panic".into());
            rep.violations.push(Violation {
                kind: "world-preparation-failed".into(),
                detail: msg.clone(),
                replay: write_replay("C11", &format!("{}-prepare", cfg.seed), &[format!("property C11 seed {} seq 0", cfg.seed), "the matrix world (one instance of every actor type, created through the actors' own constructors) could not be prepared".into()], &[msg]),
            });
            return rep;
        }
    };
    rep.notes.extend(p.notes.iter().cloned());
    let mut lean = if cfg.use_lean { Some(LeanDriver::spawn("dispatch").expect("lean driver")) } else { None };
    if let Some(l) = lean.as_mut() {
        let t = l.ask("tables").unwrap();
        let want = format!("tables {} {} {}", SPEC.len(), FALLBACKS.len(), ACTORS.len());
        if t != want {
            rep.disagreements.push(Disagreement { seq: 0, step: 0, op: "tables".into(), impl_out: want, model_out: t, replay: String::new() });
        }
    }

    // enumerate the cells
    let mut cells: Vec<Cell> = vec![];
    let mut idx = 0u64;
    for actor in ACTORS {
        for (m, mname) in method_numbers(actor) {
            let vars = if SPEC.iter().any(|r| r.actor == actor && r.num == m) {
                variants(&p, actor, &mname)
            } else {
                v1(None)
            };
            for var in vars {
                for (class, caller) in p.callers.iter() {
                    cells.push(Cell { idx, actor, method: m, mname: mname.clone(), variant: var.clone(), class: class.clone(), caller: *caller });
                    idx += 1;
                }
            }
        }
    }
    rep.notes.push(format!(
        "matrix: {} actor types x (158 defined methods + undefined/boundary numbers) x {} caller classes = {} cells; parameters not built for {} validate-any methods (their cells stop at deserialisation after restrict_internal_api)",
        ACTORS.len(), p.callers.len(), cells.len(),
        SPEC.iter().filter(|r| variants(&p, r.actor, r.name).iter().any(|v| !v.built)).count()
    ));

    let mut privileged_passes: BTreeMap<String, (u64, u64)> = BTreeMap::new(); // method -> (designated cells, of which completed)
    let mut validated_cells = 0u64;
    let mut sample_budget = 6;
    for c in cells.iter() {
        if let Some(k) = cfg.only_seq && k != c.idx { continue; }
        let target = p.targets[c.actor];
        p.w.vm.rollback(p.root);
        let view = caller_view(&p, c.actor, &target, &c.caller, &c.variant);
        let line = format!(
            "cell {} {} {} {} {}",
            c.actor, c.method, view.code.unwrap_or("none"),
            if view.atoms.is_empty() { "-".to_string() } else { view.atoms.iter().map(|a| a.name()).collect::<Vec<_>>().join(",") },
            view.ns.unwrap_or("-")
        );
        let cell_desc = format!("{} class={} target={} method={}({}) {}", line, c.class, target, c.mname, c.method, c.variant.tag);

        // sender's pre-state (its nonce is bumped by the VM even when the message fails)
        let sender_before = p.w.vm.actor(&c.caller).unwrap();
        let r = p.w.apply_raw(&c.caller, &target, &TokenAmount::zero(), c.method as MethodNum, c.variant.params.clone());
        let o = observe(&r);
        // state-tree root modulo the sender's nonce (and the placeholder → eth-account promotion)
        let mut s = p.w.vm.actor(&c.caller).unwrap();
        s.sequence = sender_before.sequence;
        s.code = sender_before.code;
        p.w.vm.set_actor(&c.caller, s);
        let changed = p.w.vm.checkpoint() != p.root;
        p.w.vm.rollback(p.root);
        let _ = p.w.take_trace();

        rep.sequences += 1;
        rep.ops += 1;
        if o == Obs::Ok { rep.ops_ok += 1; }
        rep.op(&format!("{}:{}", c.actor, if c.mname.starts_with('<') { c.mname.as_str() } else { "defined" }));
        rep.err(&format!("{}", exit_class(r.code)));
        let obs_s = format!("{:?} code={} changed={}", o, r.code.value(), changed);

        // (1) oracle: the specification
        let e = spec_expect(c.actor, c.method, &view);
        rep.branch(&format!("{}", match &e { Exp::Send => "send".to_string(), Exp::Restricted => "restricted".into(), Exp::Unhandled => "unhandled".into(), Exp::Rejected { kind, .. } => format!("rejected-{}", kind), Exp::Passes { .. } => "passes".into() }));
        let replay_of = |tag: &str| {
            write_replay("C11", &format!("{}-{}-{}", cfg.seed, tag, c.idx),
                &[format!("property C11 seed {} seq {} (re-run: ba_harness c11 --seed {} --only-seq {})", cfg.seed, c.idx, cfg.seed, c.idx),
                  format!("cell: {}", cell_desc), format!("expected: {}", exp_string(&e)), format!("observed: {} message={:?}", obs_s, r.message)],
                &[line.clone()])
        };
        if let Err((kind, detail)) = fits(&e, &o, changed, c.variant.built) {
            rep.violations.push(Violation { kind: kind.into(), detail: format!("{} — {} [{}; observed {} msg={:?}]", detail, cell_desc, exp_string(&e), obs_s, r.message), replay: replay_of("cell") });
        }
        if let (Exp::Passes { .. }, Some((t, _, name, _))) = (&e, spec_lookup(c.actor, c.method)) {
            if !matches!(t, T::Any) {
                let ent = privileged_passes.entry(format!("{}.{}", c.actor, name)).or_insert((0, 0));
                ent.0 += 1;
                if o == Obs::Ok { ent.1 += 1; }
            }
        }
        if matches!(o, Obs::Ok | Obs::Rejected(_) | Obs::OtherErr) && c.method != 0 { validated_cells += 1; }
        // body guards of validate-any methods
        if matches!(e, Exp::Passes { .. }) && SPEC.iter().any(|r| r.actor == c.actor && r.num == c.method) {
            let base = c.mname.strip_suffix("Exported").unwrap_or(&c.mname);
            match guard_expect(c.actor, base, c.variant.tag, &c.class, &view) {
                Some(true) => {
                    rep.branch("guard-authorised");
                    if o != Obs::Ok {
                        rep.violations.push(Violation { kind: "body-guard-designated-refused".into(), detail: format!("the body refused a caller its guard authorises — {} [observed {} msg={:?}]", cell_desc, obs_s, r.message), replay: replay_of("guard") });
                    }
                }
                Some(false) => {
                    rep.branch("guard-refused");
                    if o == Obs::Ok {
                        rep.violations.push(Violation { kind: "body-guard-outsider-accepted".into(), detail: format!("a caller the body guard must refuse completed the call — {} [observed {}]", cell_desc, obs_s), replay: replay_of("guard") });
                    }
                }
                None => {}
            }
        }

        // (2) correspondence: the Lean model's verdict for the same cell
        if let Some(l) = lean.as_mut() {
            let ans = l.ask(&line).unwrap();
            let agree = match parse_lean(&ans) {
                Some(le) => le == e && fits(&le, &o, changed, c.variant.built).is_ok(),
                None => false,
            };
            if agree {
                rep.traces_validated += 1;
            } else {
                rep.disagreements.push(Disagreement { seq: c.idx, step: 0, op: cell_desc.clone(), impl_out: format!("{} | spec {}", obs_s, exp_string(&e)), model_out: ans, replay: replay_of("diff") });
            }
        }
        if sample_budget > 0 && matches!(e, Exp::Rejected { .. }) && c.idx % 97 == 0 {
            sample_budget -= 1;
            rep.samples.push(json!({ "cell": cell_desc, "expected": exp_string(&e), "observed": obs_s }));
        }
        if rep.violations.len() > 200 { break; }
    }
    rep.distinct_nontrivial = validated_cells;
    let never_completed: Vec<String> = privileged_passes.iter().filter(|(_, v)| v.1 == 0).map(|(k, _)| k.clone()).collect();
    rep.notes.push(format!(
        "privileged (non-any) methods: {}; for {} of them at least one designated caller's call completed; designated callers got past the validation but the body failed (parameters/state) for: {}",
        privileged_passes.len(), privileged_passes.len() - never_completed.len(), never_completed.join(", ")
    ));
    rep.notes.push("vvm deviation from fvm.rs: a failing validate_immediate_caller_type/_namespace exits with SYS_ASSERTION_FAILED in the vvm (USR_FORBIDDEN in fvm.rs); the matrix recognises the vvm's validation failure by its message".into());
    rep.notes.push("placeholder: the vvm answers unhandled_message for every method but 0; in production the placeholder code returns success without running anything".into());
    rep
}
