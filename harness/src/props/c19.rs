//! C19 — EVM contract state stays coherent across nested, re-entrant and reverted calls.
//!
//! Generated call-tree scripts are executed three times and must give the same observation
//! log and final state:
//!  (a) by 2–4 real EVM actors in the vvm, each running one generic "script interpreter"
//!      contract (raw EVM bytecode assembled below) that reads the script from calldata;
//!  (b) by the Lean model (spec layer ‖ implementation-model layer) through the line protocol;
//!  (c) by the independent reference implementation of journaled-state semantics in this file
//!      (`oracle_*`): a mismatch there is a `Violation`.
//!
//! Calldata encoding of a script (all integers big-endian):
//!   01 k:2 v:2   sstore        02 k:2      sload
//!   03 k:2 v:2   tstore        04 k:2      tload
//!   05|06|07 addr:20 value:2 len:2 body:len   call | staticcall | delegatecall (value ignored by 06/07)
//!   08           revert(output buffer)        09 addr:20  selfdestruct
//!   0a t:2       log1(topic t, no data)       10+i        env i (ADDRESS, CALLER, CALLVALUE, SELFBALANCE)
//!   00 / end of calldata   return(output buffer)
//! Contract memory: 0x00 = output write pointer, 0x20 = script pc, 0x100.. = sub-call calldata,
//! 0x2000.. = output buffer (32-byte words).
use super::{RunCfg, hash_lines, seq_rng};
use crate::lean::LeanDriver;
use crate::report::{Disagreement, Report, Violation, write_replay};
use crate::rng::Rng;
use crate::world::{World, exit_class};
use fil_actor_evm::{BytecodeReturn, GetStorageAtParams, GetStorageAtReturn};
use fil_actors_evm_shared::address::EthAddress;
use fil_actors_evm_shared::uints::U256;
use fil_actors_runtime::{EAM_ACTOR_ADDR, SYSTEM_ACTOR_ADDR};
use fvm_ipld_encoding::{BytesDe, BytesSer};
use fvm_shared::address::Address;
use fvm_shared::econ::TokenAmount;
use num_traits::Zero;
use serde_json::json;
use std::collections::{BTreeMap, BTreeSet, HashSet};
use vm_api::VM;
use vm_api::trace::InvocationTrace;

/// how the external (top-level) caller is printed in observation logs
const EXT: u64 = 1_000_000;

// ───────────────────────────── script language ─────────────────────────────

#[derive(Clone, Copy, Debug, PartialEq, Eq)]
enum Kind {
    Call,
    Static,
    Delegate,
}

#[derive(Clone, Debug)]
enum Op {
    SStore(u64, u64),
    SLoad(u64),
    TStore(u64, u64),
    TLoad(u64),
    Call { kind: Kind, target: usize, value: u64, body: Vec<Op> },
    Revert,
    SelfDestruct(usize),
    Log(u64),
    Env(u8),
}

fn tokens(ops: &[Op], out: &mut Vec<String>) {
    for op in ops {
        match op {
            Op::SStore(k, v) => out.push(format!("ss {} {}", k, v)),
            Op::SLoad(k) => out.push(format!("sl {}", k)),
            Op::TStore(k, v) => out.push(format!("ts {} {}", k, v)),
            Op::TLoad(k) => out.push(format!("tl {}", k)),
            Op::Revert => out.push("rv".into()),
            Op::SelfDestruct(b) => out.push(format!("sd {}", b)),
            Op::Log(t) => out.push(format!("lg {}", t)),
            Op::Env(i) => out.push(format!("ev {}", i)),
            Op::Call { kind, target, value, body } => {
                let c = match kind {
                    Kind::Call => "c",
                    Kind::Static => "s",
                    Kind::Delegate => "d",
                };
                out.push(format!("{} {} {} [", c, target, value));
                tokens(body, out);
                out.push("]".into());
            }
        }
    }
}

fn encode(ops: &[Op], eth: &[EthAddress]) -> Vec<u8> {
    let mut b = vec![];
    let p16 = |b: &mut Vec<u8>, x: u64| b.extend_from_slice(&(x as u16).to_be_bytes());
    for op in ops {
        match op {
            Op::SStore(k, v) => { b.push(1); p16(&mut b, *k); p16(&mut b, *v); }
            Op::SLoad(k) => { b.push(2); p16(&mut b, *k); }
            Op::TStore(k, v) => { b.push(3); p16(&mut b, *k); p16(&mut b, *v); }
            Op::TLoad(k) => { b.push(4); p16(&mut b, *k); }
            Op::Call { kind, target, value, body } => {
                b.push(match kind { Kind::Call => 5, Kind::Static => 6, Kind::Delegate => 7 });
                b.extend_from_slice(&eth[*target].0);
                p16(&mut b, *value);
                let inner = encode(body, eth);
                assert!(inner.len() < 0xE00, "sub-script too long for the scratch region");
                p16(&mut b, inner.len() as u64);
                b.extend_from_slice(&inner);
            }
            Op::Revert => b.push(8),
            Op::SelfDestruct(t) => { b.push(9); b.extend_from_slice(&eth[*t].0); }
            Op::Log(t) => { b.push(10); p16(&mut b, *t); }
            Op::Env(i) => b.push(0x10 + *i),
        }
    }
    b
}

fn sstore_keys(ops: &[Op], out: &mut BTreeSet<u64>) {
    for o in ops {
        match o {
            Op::SStore(k, _) => { out.insert(*k); }
            Op::Call { body, .. } => sstore_keys(body, out),
            _ => {}
        }
    }
}

// ───────────────────────── tiny EVM assembler + the contract ─────────────────────────

mod opc {
    pub const ADD: u8 = 0x01;
    pub const SUB: u8 = 0x03;
    pub const EQ: u8 = 0x14;
    pub const SHR: u8 = 0x1c;
    pub const ADDRESS: u8 = 0x30;
    pub const CALLER: u8 = 0x33;
    pub const CALLVALUE: u8 = 0x34;
    pub const CALLDATALOAD: u8 = 0x35;
    pub const CALLDATACOPY: u8 = 0x37;
    pub const CODECOPY: u8 = 0x39;
    pub const RETURNDATASIZE: u8 = 0x3d;
    pub const RETURNDATACOPY: u8 = 0x3e;
    pub const SELFBALANCE: u8 = 0x47;
    pub const POP: u8 = 0x50;
    pub const MLOAD: u8 = 0x51;
    pub const MSTORE: u8 = 0x52;
    pub const SLOAD: u8 = 0x54;
    pub const SSTORE: u8 = 0x55;
    pub const JUMP: u8 = 0x56;
    pub const JUMPI: u8 = 0x57;
    pub const GAS: u8 = 0x5a;
    pub const JUMPDEST: u8 = 0x5b;
    pub const TLOAD: u8 = 0x5c;
    pub const TSTORE: u8 = 0x5d;
    pub const PUSH0: u8 = 0x5f;
    pub const DUP1: u8 = 0x80;
    pub const LOG1: u8 = 0xa1;
    pub const CALL: u8 = 0xf1;
    pub const RETURN: u8 = 0xf3;
    pub const DELEGATECALL: u8 = 0xf4;
    pub const STATICCALL: u8 = 0xfa;
    pub const REVERT: u8 = 0xfd;
    pub const SELFDESTRUCT: u8 = 0xff;
}
use opc::*;

enum It {
    B(u8),
    Ref(String),
    Label(String),
}

#[derive(Default)]
struct Asm {
    items: Vec<It>,
}

impl Asm {
    fn op(&mut self, b: u8) -> &mut Self {
        self.items.push(It::B(b));
        self
    }
    fn ops(&mut self, bs: &[u8]) -> &mut Self {
        for b in bs { self.items.push(It::B(*b)); }
        self
    }
    /// PUSHn of a constant, minimal width (PUSH0 for zero)
    fn push(&mut self, v: u64) -> &mut Self {
        if v == 0 {
            return self.op(PUSH0);
        }
        let bytes: Vec<u8> = v.to_be_bytes().iter().cloned().skip_while(|b| *b == 0).collect();
        self.op(0x5f + bytes.len() as u8);
        self.ops(&bytes)
    }
    /// PUSH2 <address of label>
    fn jref(&mut self, l: &str) -> &mut Self {
        self.items.push(It::Ref(l.to_string()));
        self
    }
    /// JUMPDEST named `l`
    fn label(&mut self, l: &str) -> &mut Self {
        self.items.push(It::Label(l.to_string()));
        self
    }
    fn assemble(&self) -> Vec<u8> {
        let mut pos = 0usize;
        let mut labels = BTreeMap::new();
        for it in &self.items {
            match it {
                It::B(_) => pos += 1,
                It::Ref(_) => pos += 3,
                It::Label(l) => {
                    assert!(labels.insert(l.clone(), pos).is_none(), "duplicate label {}", l);
                    pos += 1;
                }
            }
        }
        let mut out = Vec::with_capacity(pos);
        for it in &self.items {
            match it {
                It::B(b) => out.push(*b),
                It::Ref(l) => {
                    let a = *labels.get(l).unwrap_or_else(|| panic!("unknown label {}", l));
                    out.push(0x61);
                    out.extend_from_slice(&(a as u16).to_be_bytes());
                }
                It::Label(_) => out.push(JUMPDEST),
            }
        }
        out
    }
}

const M_OUT: u64 = 0x00; // memory cell: output write pointer
const M_PC: u64 = 0x20; // memory cell: script pc (offset into calldata)
const SCRATCH: u64 = 0x100; // sub-call calldata
const OUT_BASE: u64 = 0x2000; // output buffer

/// push (calldata[pc+off ..] as a 32-byte word) >> shift
fn arg(a: &mut Asm, off: u64, shift: u64) {
    a.push(M_PC).op(MLOAD).push(off).op(ADD).op(CALLDATALOAD).push(shift).op(SHR);
}
/// pc += (value on the stack top)
fn advance_top(a: &mut Asm) {
    a.push(M_PC).op(MLOAD).op(ADD).push(M_PC).op(MSTORE);
}
fn advance(a: &mut Asm, n: u64) {
    a.push(n);
    advance_top(a);
}
/// append the word on the stack top to the output buffer
fn append(a: &mut Asm) {
    a.push(M_OUT).op(MLOAD).op(DUP1).push(0x20).op(ADD).push(M_OUT).op(MSTORE).op(MSTORE);
}
/// RETURN / REVERT the output buffer
fn finish(a: &mut Asm, how: u8) {
    a.push(OUT_BASE).push(M_OUT).op(MLOAD).op(SUB).push(OUT_BASE).op(how);
}

fn interpreter_runtime() -> Vec<u8> {
    let mut a = Asm::default();
    a.push(OUT_BASE).push(M_OUT).op(MSTORE);
    a.label("loop");
    arg(&mut a, 0, 248);
    let table: [(u64, &str); 14] = [
        (1, "ss"), (2, "sl"), (3, "ts"), (4, "tl"), (5, "call"), (6, "static"), (7, "deleg"),
        (8, "rv"), (9, "sd"), (10, "lg"), (0x10, "e0"), (0x11, "e1"), (0x12, "e2"), (0x13, "e3"),
    ];
    for (code, l) in table.iter() {
        a.op(DUP1).push(*code).op(EQ).jref(l).op(JUMPI);
    }
    // opcode 0 / anything else: end of script
    a.op(POP);
    finish(&mut a, RETURN);

    for (l, store) in [("ss", SSTORE), ("ts", TSTORE)] {
        a.label(l).op(POP);
        arg(&mut a, 3, 240); // value
        arg(&mut a, 1, 240); // key (top)
        a.op(store);
        advance(&mut a, 5);
        a.jref("loop").op(JUMP);
    }
    for (l, load) in [("sl", SLOAD), ("tl", TLOAD)] {
        a.label(l).op(POP);
        arg(&mut a, 1, 240);
        a.op(load);
        append(&mut a);
        advance(&mut a, 3);
        a.jref("loop").op(JUMP);
    }
    for (l, e) in [("e0", ADDRESS), ("e1", CALLER), ("e2", CALLVALUE), ("e3", SELFBALANCE)] {
        a.label(l).op(POP).op(e);
        append(&mut a);
        advance(&mut a, 1);
        a.jref("loop").op(JUMP);
    }
    a.label("lg").op(POP);
    arg(&mut a, 1, 240); // topic
    a.push(0).push(0).op(LOG1); // offset 0, size 0, topic
    advance(&mut a, 3);
    a.jref("loop").op(JUMP);

    a.label("rv").op(POP);
    finish(&mut a, REVERT);

    a.label("sd").op(POP);
    arg(&mut a, 1, 96);
    a.op(SELFDESTRUCT);

    for (l, callop) in [("call", CALL), ("static", STATICCALL), ("deleg", DELEGATECALL)] {
        a.label(l).op(POP);
        // CALLDATACOPY(dest = SCRATCH, src = pc + 25, len)
        arg(&mut a, 23, 240);
        a.push(M_PC).op(MLOAD).push(25).op(ADD);
        a.push(SCRATCH).op(CALLDATACOPY);
        // the call: retSize, retOffset, argsSize, argsOffset, [value], address, gas
        a.push(0).push(0);
        arg(&mut a, 23, 240);
        a.push(SCRATCH);
        if callop == CALL {
            arg(&mut a, 21, 240);
        }
        arg(&mut a, 1, 96);
        a.op(GAS).op(callop);
        append(&mut a); // success flag
        // RETURNDATACOPY(dest = outptr, 0, RETURNDATASIZE); outptr += RETURNDATASIZE
        a.op(RETURNDATASIZE).push(0).push(M_OUT).op(MLOAD).op(RETURNDATACOPY);
        a.push(M_OUT).op(MLOAD).op(RETURNDATASIZE).op(ADD).push(M_OUT).op(MSTORE);
        // pc += 25 + len
        arg(&mut a, 23, 240);
        a.push(25).op(ADD);
        advance_top(&mut a);
        a.jref("loop").op(JUMP);
    }
    a.assemble()
}

fn initcode(runtime: &[u8]) -> Vec<u8> {
    // CODECOPY(0, 13, len); RETURN(0, len)
    let len = (runtime.len() as u16).to_be_bytes();
    let mut c = vec![0x61, len[0], len[1], 0x61, 0x00, 0x0d, PUSH0, CODECOPY, 0x61, len[0], len[1], PUSH0, RETURN];
    assert_eq!(c.len(), 13);
    c.extend_from_slice(runtime);
    c
}

// ───────────────────────────── canonical observation ─────────────────────────────

#[derive(Clone, Debug, Default, PartialEq, Eq)]
struct Obs {
    f: u8,
    log: Vec<String>,
    st: Vec<(usize, u64, String)>,
    bal: Vec<String>,
    dead: Vec<bool>,
    ev: Vec<(usize, String)>,
}

fn join_or_dash(v: Vec<String>, sep: &str) -> String {
    if v.is_empty() { "-".into() } else { v.join(sep) }
}

fn show(o: &Obs) -> String {
    format!(
        "f={} log={} st={} bal={} dead={} ev={}",
        o.f,
        join_or_dash(o.log.clone(), ","),
        join_or_dash(o.st.iter().map(|(a, k, v)| format!("{}:{}:{}", a, k, v)).collect(), ";"),
        o.bal.join(","),
        o.dead.iter().map(|d| if *d { "1" } else { "0" }).collect::<Vec<_>>().join(","),
        join_or_dash(o.ev.iter().map(|(a, t)| format!("{}:{}", a, t)).collect(), ";"),
    )
}

// ───────────────────────────── the real side ─────────────────────────────

struct Real {
    w: World,
    sender: Address,
    sender_id: u64,
    contracts: Vec<Address>,
    ids: Vec<u64>,
    eth: Vec<EthAddress>,
}

fn deploy(n: usize, code: &[u8]) -> Real {
    let w = World::new(true);
    let sender = w.create_accounts(1, 1919, &TokenAmount::from_whole(1000))[0].0;
    let mut r = Real { w, sender, sender_id: sender.id().unwrap(), contracts: vec![], ids: vec![], eth: vec![] };
    for _ in 0..n {
        let res = r.w.apply(
            &sender,
            &EAM_ACTOR_ADDR,
            &TokenAmount::zero(),
            fil_actor_eam::Method::CreateExternal as u64,
            Some(fil_actor_eam::CreateExternalParams(code.to_vec())),
        );
        assert!(res.ok(), "contract creation failed: {:?}", res);
        let ret: fil_actor_eam::CreateExternalReturn = res.ret.unwrap().deserialize().unwrap();
        r.contracts.push(Address::new_id(ret.actor_id));
        r.ids.push(ret.actor_id);
        r.eth.push(ret.eth_address);
    }
    r
}

impl Real {
    /// a 32-byte word as printed in logs: small numbers in decimal, known addresses as indices
    fn word(&self, b: &[u8]) -> String {
        if b.len() == 32 && b[..24].iter().all(|x| *x == 0) {
            return u64::from_be_bytes(b[24..].try_into().unwrap()).to_string();
        }
        if b.len() == 32 && b[..12].iter().all(|x| *x == 0) {
            for (i, e) in self.eth.iter().enumerate() {
                if b[12..] == e.0 {
                    return i.to_string();
                }
            }
            if b[12..] == EthAddress::from_id(self.sender_id).0 {
                return EXT.to_string();
            }
        }
        format!("0x{}", hex::encode(b))
    }

    fn words(&self, data: &[u8]) -> Vec<String> {
        let mut v: Vec<String> = data.chunks(32).map(|c| self.word(c)).collect();
        if data.len() % 32 != 0 {
            v.push(format!("ragged{}", data.len()));
        }
        v
    }

    fn committed_events(&self, t: &InvocationTrace, out: &mut Vec<(usize, String)>) {
        if !t.exit_code.is_success() {
            return;
        }
        for e in &t.events {
            let a = self.ids.iter().position(|i| *i == e.emitter).unwrap_or(99);
            let topic = e.event.entries.iter().find(|en| en.key == "t1").map(|en| self.word(&en.value)).unwrap_or("none".into());
            out.push((a, topic));
        }
        for s in &t.subinvocations {
            self.committed_events(s, out);
        }
    }

    /// storage (non-zero, for `keys`), balances, dead flags of the n contracts
    fn state(&self, keys: &BTreeSet<u64>, o: &mut Obs) {
        let zero = TokenAmount::zero();
        for (a, c) in self.contracts.iter().enumerate() {
            for k in keys {
                let r = self.w.apply(&SYSTEM_ACTOR_ADDR, c, &zero, fil_actor_evm::Method::GetStorageAt as u64,
                    Some(GetStorageAtParams { storage_key: U256::from_u64(*k) }));
                let v = if r.ok() {
                    let g: GetStorageAtReturn = r.ret.unwrap().deserialize().unwrap();
                    self.word(&g.storage.to_bytes())
                } else {
                    format!("err{}", r.code.value())
                };
                if v != "0" {
                    o.st.push((a, *k, v));
                }
            }
            let r = self.w.apply(&SYSTEM_ACTOR_ADDR, c, &zero, fil_actor_evm::Method::GetBytecode as u64, None::<()>);
            let dead = if r.ok() {
                let b: BytecodeReturn = r.ret.unwrap().deserialize().unwrap();
                b.code.is_none()
            } else {
                true
            };
            o.dead.push(dead);
            o.bal.push(self.w.balance(c).atto().to_string());
        }
    }
}

// ───────────────────── the oracle: reference journaled-state semantics ─────────────────────

/// provenance of a log word (only used to name the kind of a violation)
#[derive(Clone, Copy, Debug)]
enum Src {
    Load { trans: bool, a: usize, k: u64, reader: u32, writer: Option<u32> },
    Env { deleg: bool },
    Flag { target: usize },
}

#[derive(Clone, Copy, Debug)]
struct W {
    v: u64,
    src: Src,
}

#[derive(Clone, Debug, Default)]
struct OWorld {
    n: usize,
    stor: BTreeMap<(usize, u64), u64>,
    trans: BTreeMap<(usize, u64), u64>,
    bal: Vec<u64>,
    events: Vec<(usize, u64)>,
    doomed: Vec<bool>,
    dead: Vec<bool>,
    /// bookkeeping (snapshotted with the world): activation that last wrote a slot
    writer: BTreeMap<(bool, usize, u64), u32>,
}

struct Ctx {
    me: usize,
    caller: u64,
    value: u64,
    ro: bool,
    act: u32,
    depth: u32,
    deleg: bool,
}

enum Out {
    Return(Vec<W>),
    Revert(Vec<W>),
    Fail,
}

/// statistics and classification bookkeeping; never influences the oracle's results
#[derive(Default)]
struct Side {
    act_depth: Vec<u32>,
    writes: Vec<(bool, usize, u64, u64)>,
    ghosts: Vec<(bool, usize, u64, u64)>,
    hist: BTreeMap<String, u64>,
    branch: BTreeMap<String, u64>,
    nested_ok_wrote: bool,
    nontrivial: bool,
    sd_seen: Vec<usize>,
}

impl Side {
    fn new_act(&mut self, depth: u32) -> u32 {
        self.act_depth.push(depth);
        (self.act_depth.len() - 1) as u32
    }
    fn h(&mut self, k: &str) {
        *self.hist.entry(k.to_string()).or_insert(0) += 1;
    }
    fn b(&mut self, k: String) {
        *self.branch.entry(k).or_insert(0) += 1;
    }
}

fn oracle_body(w: &mut OWorld, s: &mut Side, ctx: &Ctx, body: &[Op]) -> Out {
    let mut log: Vec<W> = vec![];
    for op in body {
        match op {
            Op::SStore(k, v) => {
                s.h("sstore");
                if ctx.ro { return Out::Fail; }
                w.stor.insert((ctx.me, *k), *v);
                w.writer.insert((false, ctx.me, *k), ctx.act);
                s.writes.push((false, ctx.me, *k, *v));
            }
            Op::TStore(k, v) => {
                s.h("tstore");
                if ctx.ro { return Out::Fail; }
                w.trans.insert((ctx.me, *k), *v);
                w.writer.insert((true, ctx.me, *k), ctx.act);
                s.writes.push((true, ctx.me, *k, *v));
            }
            Op::SLoad(k) => {
                s.h("sload");
                if s.nested_ok_wrote { s.nontrivial = true; }
                let v = *w.stor.get(&(ctx.me, *k)).unwrap_or(&0);
                let writer = w.writer.get(&(false, ctx.me, *k)).cloned();
                log.push(W { v, src: Src::Load { trans: false, a: ctx.me, k: *k, reader: ctx.act, writer } });
            }
            Op::TLoad(k) => {
                s.h("tload");
                let v = *w.trans.get(&(ctx.me, *k)).unwrap_or(&0);
                let writer = w.writer.get(&(true, ctx.me, *k)).cloned();
                log.push(W { v, src: Src::Load { trans: true, a: ctx.me, k: *k, reader: ctx.act, writer } });
            }
            Op::Env(i) => {
                s.h("env");
                let v = match i {
                    0 => ctx.me as u64,
                    1 => ctx.caller,
                    2 => ctx.value,
                    _ => w.bal[ctx.me],
                };
                log.push(W { v, src: Src::Env { deleg: ctx.deleg } });
            }
            Op::Log(t) => {
                s.h("log");
                if ctx.ro { return Out::Fail; }
                w.events.push((ctx.me, *t));
            }
            Op::Revert => {
                s.h("revert");
                return Out::Revert(log);
            }
            Op::SelfDestruct(b) => {
                s.h("selfdestruct");
                if ctx.ro { return Out::Fail; }
                if *b != ctx.me {
                    w.bal[*b] += w.bal[ctx.me];
                    w.bal[ctx.me] = 0;
                }
                w.doomed[ctx.me] = true;
                s.sd_seen.push(ctx.me);
                return Out::Return(vec![]);
            }
            Op::Call { kind, target, value, body } => {
                let t = *target;
                let kn = match kind { Kind::Call => "call", Kind::Static => "static", Kind::Delegate => "delegate" };
                s.h(kn);
                let val = if *kind == Kind::Call { *value } else { 0 };
                if ctx.ro && val > 0 {
                    s.b(format!("{}:value-in-readonly", kn));
                    return Out::Fail;
                }
                let flag = |v: u64| W { v, src: Src::Flag { target: t } };
                let snap;
                let cctx;
                if *kind == Kind::Delegate {
                    if w.dead[t] {
                        s.b(format!("{}:dead-target", kn));
                        log.push(flag(1));
                        continue;
                    }
                    snap = w.clone();
                    cctx = Ctx { me: ctx.me, caller: ctx.caller, value: ctx.value, ro: ctx.ro,
                                 act: s.new_act(ctx.depth + 1), depth: ctx.depth + 1, deleg: true };
                } else {
                    if w.bal[ctx.me] < val {
                        s.b(format!("{}:insufficient-funds", kn));
                        log.push(flag(0));
                        continue;
                    }
                    snap = w.clone();
                    w.bal[ctx.me] -= val;
                    w.bal[t] += val;
                    if w.dead[t] {
                        s.b(format!("{}:dead-target", kn));
                        log.push(flag(1));
                        continue;
                    }
                    cctx = Ctx { me: t, caller: ctx.me as u64, value: val, ro: ctx.ro || *kind == Kind::Static,
                                 act: s.new_act(ctx.depth + 1), depth: ctx.depth + 1, deleg: false };
                }
                let reentrant = cctx.me == ctx.me && *kind != Kind::Delegate;
                let mark = s.writes.len();
                match oracle_body(w, s, &cctx, body) {
                    Out::Return(l) => {
                        s.b(format!("{}:return{}", kn, if reentrant { "-reentrant" } else { "" }));
                        if s.writes[mark..].iter().any(|x| !x.0) { s.nested_ok_wrote = true; }
                        log.push(flag(1));
                        log.extend(l);
                    }
                    Out::Revert(l) => {
                        s.b(format!("{}:revert", kn));
                        *w = snap;
                        let g: Vec<_> = s.writes[mark..].to_vec();
                        s.ghosts.extend(g);
                        log.push(flag(0));
                        log.extend(l);
                    }
                    Out::Fail => {
                        s.b(format!("{}:fail", kn));
                        *w = snap;
                        let g: Vec<_> = s.writes[mark..].to_vec();
                        s.ghosts.extend(g);
                        log.push(flag(0));
                    }
                }
            }
        }
    }
    Out::Return(log)
}

/// One top-level message. Returns (success flag, observation log).
fn oracle_msg(w: &mut OWorld, s: &mut Side, entry: usize, value: u64, body: &[Op]) -> (u8, Vec<W>) {
    w.trans.clear();
    w.writer.retain(|k, _| !k.0);
    w.events.clear();
    let snap = w.clone();
    w.bal[entry] += value;
    if w.dead[entry] {
        s.b("top:dead-entry".into());
        return (1, vec![]);
    }
    let ctx = Ctx { me: entry, caller: EXT, value, ro: false, act: s.new_act(0), depth: 0, deleg: false };
    match oracle_body(w, s, &ctx, body) {
        Out::Return(l) => {
            s.b("top:return".into());
            for a in 0..w.n {
                if w.doomed[a] {
                    w.stor.retain(|k, _| k.0 != a);
                    w.dead[a] = true;
                    w.doomed[a] = false;
                    s.b("top:finalized-selfdestruct".into());
                }
            }
            (1, l)
        }
        Out::Revert(l) => {
            s.b("top:revert".into());
            *w = snap;
            (0, l)
        }
        Out::Fail => {
            s.b("top:fail".into());
            *w = snap;
            (0, vec![])
        }
    }
}

fn oracle_obs(w: &OWorld, f: u8, log: &[W]) -> Obs {
    Obs {
        f,
        log: log.iter().map(|x| x.v.to_string()).collect(),
        st: w.stor.iter().filter(|(_, v)| **v != 0).map(|((a, k), v)| (*a, *k, v.to_string())).collect(),
        bal: w.bal.iter().map(|b| b.to_string()).collect(),
        dead: w.dead.clone(),
        ev: w.events.iter().map(|(a, t)| (*a, t.to_string())).collect(),
    }
}

/// Best-effort name for a real ≠ expected difference.
fn classify(msg_idx: usize, real: &Obs, exp: &Obs, explog: &[W], s: &Side, w: &OWorld) -> &'static str {
    if real.f != exp.f {
        return "observation-mismatch";
    }
    if real.log != exp.log {
        let i = (0..exp.log.len().max(real.log.len())).find(|i| real.log.get(*i) != exp.log.get(*i)).unwrap();
        let Some(e) = explog.get(i) else { return "observation-mismatch" };
        let realv: Option<u64> = real.log.get(i).and_then(|x| x.parse().ok());
        return match e.src {
            Src::Load { trans, a, k, reader, writer } => {
                if trans && msg_idx > 0 && e.v == 0 && writer.is_none() && realv.is_some_and(|v| v != 0) {
                    "transient-leaked-across-messages"
                } else if realv.is_some_and(|rv| s.ghosts.contains(&(trans, a, k, rv))) {
                    "reverted-write-visible"
                } else {
                    match writer {
                        Some(wa) if wa > reader => "inner-write-lost",
                        Some(wa) if wa < reader => "outer-write-invisible-to-inner",
                        _ => "observation-mismatch",
                    }
                }
            }
            Src::Env { deleg } => if deleg { "delegatecall-wrong-context" } else { "observation-mismatch" },
            Src::Flag { target } => if s.sd_seen.contains(&target) || w.dead[target] { "selfdestruct-not-deferred" } else { "observation-mismatch" },
        };
    }
    if real.dead != exp.dead {
        return "selfdestruct-not-deferred";
    }
    if real.st != exp.st {
        let all: BTreeSet<(usize, u64)> = real.st.iter().chain(exp.st.iter()).map(|x| (x.0, x.1)).collect();
        for (a, k) in all {
            let rv = real.st.iter().find(|x| x.0 == a && x.1 == k).map(|x| x.2.clone()).unwrap_or("0".into());
            let ev = exp.st.iter().find(|x| x.0 == a && x.1 == k).map(|x| x.2.clone()).unwrap_or("0".into());
            if rv == ev { continue; }
            if rv.parse::<u64>().is_ok_and(|v| s.ghosts.contains(&(false, a, k, v))) {
                return "reverted-write-visible";
            }
            if s.sd_seen.contains(&a) || real.dead.get(a) == Some(&true) {
                return "selfdestruct-not-deferred";
            }
            if w.writer.get(&(false, a, k)).is_some_and(|wa| s.act_depth[*wa as usize] > 0) {
                return "inner-write-lost";
            }
            return "final-state-mismatch";
        }
    }
    if real.bal != exp.bal || real.ev != exp.ev {
        return "event-or-transfer-of-reverted-call-visible";
    }
    "final-state-mismatch"
}

// ───────────────────────────── generator ─────────────────────────────

struct Gen<'a> {
    r: &'a mut Rng,
    n: usize,
    keys: Vec<u64>,
    budget: i64,
    sd: bool,
    topic: u64,
    /// contracts for which a selfdestruct was generated in this sequence (preferred targets later)
    hot: &'a mut Vec<usize>,
}

impl Gen<'_> {
    fn key(&mut self) -> u64 {
        let i = self.r.below(self.keys.len() as u64) as usize;
        self.keys[i]
    }
    fn val(&mut self) -> u64 {
        self.r.below(6)
    }
    fn write(&mut self, trans: bool, k: u64) -> Op {
        let v = self.val();
        if trans { Op::TStore(k, v) } else { Op::SStore(k, v) }
    }
    fn read(&self, trans: bool, k: u64) -> Op {
        if trans { Op::TLoad(k) } else { Op::SLoad(k) }
    }
    fn log(&mut self) -> Op {
        // topics are numbered in script pre-order: emission order = ascending topic
        self.topic += 1;
        Op::Log(self.topic)
    }

    /// `stack`: storage owners of the activations on the call stack (last = current)
    fn body(&mut self, stack: &mut Vec<usize>, depth: u32, ro: bool) -> Vec<Op> {
        let mut out = vec![];
        let len = if depth == 0 { self.r.range(3, 8) } else { self.r.range(0, 5) };
        for _ in 0..len {
            if self.budget <= 0 { break; }
            self.budget -= 1;
            let x = self.r.below(100);
            // in a read-only context writes make the activation fail: keep a quarter of them
            let wr_ok = !ro || self.r.chance(1, 4);
            if x < 18 {
                let k = self.key();
                out.push(if wr_ok { self.write(false, k) } else { Op::SLoad(k) });
            } else if x < 34 {
                let k = self.key();
                out.push(Op::SLoad(k));
            } else if x < 42 {
                let k = self.key();
                out.push(if wr_ok { self.write(true, k) } else { Op::TLoad(k) });
            } else if x < 50 {
                let k = self.key();
                out.push(Op::TLoad(k));
            } else if x < 78 {
                if depth < 4 && self.budget > 1 {
                    self.call(&mut out, stack, depth, ro);
                } else {
                    let k = self.key();
                    out.push(Op::SLoad(k));
                }
            } else if x < 84 {
                out.push(Op::Env(self.r.below(4) as u8));
            } else if x < 89 {
                if wr_ok { let l = self.log(); out.push(l); } else { out.push(Op::Env(3)); }
            } else if x < 93 {
                if depth > 0 || self.r.chance(1, 3) {
                    out.push(Op::Revert);
                    break;
                }
                let k = self.key();
                out.push(Op::SLoad(k));
            } else if self.sd && wr_ok {
                out.push(Op::SelfDestruct(self.r.below(self.n as u64) as usize));
                self.hot.push(*stack.last().unwrap());
                break;
            } else {
                let k = self.key();
                out.push(Op::TLoad(k));
            }
        }
        out
    }

    fn call(&mut self, out: &mut Vec<Op>, stack: &mut Vec<usize>, depth: u32, ro: bool) {
        let me = *stack.last().unwrap();
        let kind = match self.r.below(10) { 0..=5 => Kind::Call, 6..=7 => Kind::Static, _ => Kind::Delegate };
        let pattern = self.r.chance(2, 5);
        let anc_bias = if pattern { 60 } else { 35 };
        let target = if !self.hot.is_empty() && self.r.chance(1, 3) {
            // a contract that selfdestructs somewhere in this sequence
            self.hot[self.r.below(self.hot.len() as u64) as usize]
        } else if self.r.below(100) < anc_bias {
            stack[self.r.below(stack.len() as u64) as usize]
        } else {
            self.r.below(self.n as u64) as usize
        };
        let value = if kind == Kind::Call { *self.r.pick(&[0u64, 0, 0, 0, 0, 0, 1, 1, 2, 3, 9]) } else { 0 };
        let inner_ro = ro || kind == Kind::Static;
        let owner = if kind == Kind::Delegate { me } else { target };
        stack.push(owner);
        if pattern {
            // write; call(inner reads and writes the same key; maybe reverts); read
            let trans = self.r.chance(3, 10);
            let k = self.key();
            if !ro || self.r.chance(1, 6) { let w = self.write(trans, k); out.push(w); }
            if self.r.chance(1, 2) { out.push(self.read(trans, k)); }
            let mut body = vec![self.read(trans, k)];
            if !inner_ro || self.r.chance(1, 3) { let w = self.write(trans, k); body.push(w); }
            self.budget -= 4;
            body.extend(self.body(stack, depth + 1, inner_ro));
            let ended = matches!(body.last(), Some(Op::Revert) | Some(Op::SelfDestruct(_)));
            if !ended {
                if self.r.chance(1, 2) { body.push(self.read(trans, k)); }
                if self.r.chance(1, 3) { body.push(Op::Revert); }
            }
            out.push(Op::Call { kind, target, value, body });
            out.push(self.read(trans, k));
        } else {
            if self.r.chance(2, 5) { let k = self.key(); out.push(Op::SLoad(k)); }
            let mut body = self.body(stack, depth + 1, inner_ro);
            if kind == Kind::Delegate && self.r.chance(1, 2) {
                // delegate calls with env reads
                body.insert(0, Op::Env(self.r.below(4) as u8));
                body.insert(0, Op::Env(self.r.below(3) as u8));
            }
            let ended = matches!(body.last(), Some(Op::Revert) | Some(Op::SelfDestruct(_)));
            if !ended && self.r.chance(1, 5) { body.push(Op::Revert); }
            out.push(Op::Call { kind, target, value, body });
            if self.r.chance(1, 2) { let k = self.key(); out.push(Op::SLoad(k)); }
        }
        stack.pop();
    }
}

struct Msg {
    entry: usize,
    value: u64,
    body: Vec<Op>,
}

fn gen_msg(r: &mut Rng, n: usize, keys: &[u64], sd: bool, idx: usize, prev_entry: usize, hot: &mut Vec<usize>) -> Msg {
    let entry = if !hot.is_empty() && r.chance(1, 3) {
        hot[r.below(hot.len() as u64) as usize]
    } else if idx > 0 && r.chance(1, 2) {
        prev_entry
    } else {
        r.below(n as u64) as usize
    };
    let value = *r.pick(&[0u64, 0, 1, 2, 5, 10]);
    let mut g = Gen { r, n, keys: keys.to_vec(), budget: 25, sd, topic: 0, hot };
    let mut body = vec![];
    if idx > 0 {
        // what did the previous message leave behind?
        if g.r.chance(1, 2) { let k = g.key(); body.push(Op::TLoad(k)); g.budget -= 1; }
        if g.r.chance(1, 3) { let k = g.key(); body.push(Op::SLoad(k)); g.budget -= 1; }
    }
    let mut stack = vec![entry];
    body.extend(g.body(&mut stack, 0, false));
    if !matches!(body.last(), Some(Op::Revert) | Some(Op::SelfDestruct(_))) && g.r.chance(1, 3) {
        let k = g.key();
        body.push(Op::TLoad(k));
    }
    Msg { entry, value, body }
}

// ───────────────────────────── the run ─────────────────────────────

pub fn run(cfg: &RunCfg) -> Report {
    let mut rep = Report::new("C19", cfg.seed, &cfg.tier);
    rep.nontrivial_rule = "a sequence is non-trivial when (per the reference semantics, confirmed equal to the real run) at least one nested call returned successfully after writing storage and a storage read executed after it; distinct = distinct hash of the op lines".into();
    let nseq: u64 = if cfg.thorough() { 20000 } else { 2000 } * cfg.budget;
    let debug = std::env::var("C19_DEBUG").is_ok();
    let runtime = interpreter_runtime();
    let code = initcode(&runtime);
    let mut lean = if cfg.use_lean { Some(LeanDriver::spawn("evmstorage").expect("lean driver")) } else { None };
    let mut seen = HashSet::new();
    let seqs: Vec<u64> = match cfg.only_seq { Some(k) => vec![k], None => (0..nseq).collect() };
    'seqs: for seq in seqs {
        let mut r = seq_rng(cfg.seed, seq);
        let n = r.range(2, 4) as usize;
        let nkeys = r.range(3, 4) as usize;
        let pool: [u64; 6] = [0, 1, 2, 3, 7, 300];
        let mut keys: Vec<u64> = vec![];
        while keys.len() < nkeys {
            let k = *r.pick(&pool);
            if !keys.contains(&k) { keys.push(k); }
        }
        let sd = r.chance(1, 10);
        let nmsgs = (r.range(1, 5) as usize).max(if sd { 3 } else { 1 });
        let mut hot: Vec<usize> = vec![];

        let real = deploy(n, &code);
        let mut ow = OWorld { n, bal: vec![0; n], doomed: vec![false; n], dead: vec![false; n], ..Default::default() };
        let mut side = Side::default();
        let mut lines = vec![format!("init {}", n)];
        if let Some(l) = lean.as_mut() {
            let a = l.ask(&lines[0]).unwrap();
            assert_eq!(a, "ok", "lean driver refused init");
        }
        rep.sequences += 1;
        let mut agree = true;
        let mut ss_keys = BTreeSet::new();
        let mut prev_entry = 0;
        for mi in 0..nmsgs {
            let m = gen_msg(&mut r, n, &keys, sd, mi, prev_entry, &mut hot);
            prev_entry = m.entry;
            sstore_keys(&m.body, &mut ss_keys);
            let nonce = real.w.vm.actor(&real.sender).unwrap().sequence;
            let mut toks = vec![];
            tokens(&m.body, &mut toks);
            let line = format!("msg {} {} {} {} {}", real.sender_id, nonce, m.entry, m.value, toks.join(" ")).trim_end().to_string();
            lines.push(line.clone());
            let hdr = vec![
                format!("property C19 seed {} seq {} (re-run: ba_harness c19 --seed {} --only-seq {})", cfg.seed, seq, cfg.seed, seq),
                format!("failing step: message {} of the sequence; contracts are indices 0..{}; caller of a top-level message prints as {}", mi, n - 1, EXT),
            ];

            // (a) the real actors
            let calldata = encode(&m.body, &real.eth);
            let _ = real.w.take_trace();
            let res = real.w.apply(&real.sender, &real.contracts[m.entry], &TokenAmount::from_atto(m.value),
                fil_actor_evm::Method::InvokeContract as u64, Some(BytesSer(&calldata)));
            let trace = real.w.take_trace();
            rep.ops += 1;
            rep.op("message");
            if res.panicked {
                let path = write_replay("C19", &format!("{}-{}", cfg.seed, seq), &hdr, &lines);
                rep.violations.push(Violation { kind: "panic".into(), detail: res.message.clone(), replay: path });
                continue 'seqs;
            }
            let mut ro = Obs::default();
            let data = |r: &crate::world::Applied| -> Vec<u8> {
                r.ret.as_ref().and_then(|b| b.deserialize::<BytesDe>().ok()).map(|b| b.0).unwrap_or_default()
            };
            if res.ok() {
                rep.ops_ok += 1;
                ro.f = 1;
                ro.log = real.words(&data(&res));
            } else {
                rep.err(&format!("message:{}", if res.code.value() == 33 { "evm_reverted" } else { exit_class(res.code) }));
                ro.f = 0;
                ro.log = if res.code.value() == 33 { real.words(&data(&res)) } else { vec![] };
            }
            real.state(&ss_keys, &mut ro);
            for t in trace.iter() {
                real.committed_events(t, &mut ro.ev);
            }
            // the vvm records events per invocation, so the interleaving between an activation
            // and its callees is not in the trace; topics are numbered in execution order
            ro.ev.sort_by_key(|(_, t)| t.parse::<u64>().unwrap_or(u64::MAX));
            let real_s = show(&ro);

            // (c) the reference semantics
            let (f, olog) = oracle_msg(&mut ow, &mut side, m.entry, m.value, &m.body);
            let eo = oracle_obs(&ow, f, &olog);
            let exp_s = show(&eo);
            if debug {
                eprintln!("[{}:{}] {}\n   real   {}\n   oracle {}", seq, mi, line, real_s, exp_s);
            }
            if real_s != exp_s {
                let kind = classify(mi, &ro, &eo, &olog, &side, &ow);
                let path = write_replay("C19", &format!("{}-{}", cfg.seed, seq), &hdr, &lines);
                rep.violations.push(Violation {
                    kind: kind.into(),
                    detail: format!("message {}: real `{}` expected `{}` (exit code {} {})", mi, real_s, exp_s, res.code.value(), res.message),
                    replay: path,
                });
                continue 'seqs;
            }

            // (b) the Lean model, both layers
            if let Some(l) = lean.as_mut() {
                let ans = l.ask(&line).unwrap();
                let mut halves = ans.splitn(2, " || ");
                let spec = halves.next().unwrap_or("").trim().to_string();
                let imp = halves.next().unwrap_or("<missing>").trim().to_string();
                if spec != real_s || imp != real_s {
                    agree = false;
                    let path = write_replay("C19", &format!("corr-{}-{}", cfg.seed, seq), &hdr, &lines);
                    rep.disagreements.push(Disagreement { seq, step: mi as u64, op: line.clone(), impl_out: real_s.clone(), model_out: ans, replay: path });
                    continue 'seqs;
                }
            }
        }
        if agree && lean.is_some() { rep.traces_validated += 1; }
        if side.nontrivial && seen.insert(hash_lines(&lines)) { rep.distinct_nontrivial += 1; }
        for (k, v) in side.hist.iter() { *rep.op_hist.entry(k.clone()).or_insert(0) += v; }
        for (k, v) in side.branch.iter() { *rep.branch_hist.entry(k.clone()).or_insert(0) += v; }
        if rep.samples.len() < 3 && side.nontrivial {
            rep.samples.push(json!({"seq": seq, "ops": lines.iter().take(6).collect::<Vec<_>>()}));
        }
    }
    let total: u64 = ["sstore", "sload", "tstore", "tload", "env", "log", "revert", "selfdestruct", "call", "static", "delegate"]
        .iter().map(|k| rep.op_hist.get(*k).cloned().unwrap_or(0)).sum();
    rep.notes.push(format!("ops/ops_ok count top-level messages; {} script ops were executed inside them (op_hist; call outcomes in branch_hist)", total));
    rep.notes.push("interpreter contract: generic script interpreter in raw EVM bytecode, same code deployed 2-4 times through the EAM".into());
    rep
}
