//! C13 — control of a miner changes hands only by two-sided, delayed handover.
//! Real miner actor in the vvm (created by a plain `CreateMiner` to the power actor) ⇄ Lean
//! `BA.MinerControl` model, plus an independent oracle that keeps its own log of who proposed /
//! approved what and when, and rights probes run on a state that is rolled back afterwards.
use super::{RunCfg, hash_lines, seq_rng};
use crate::lean::LeanDriver;
use crate::report::{Disagreement, Report, Violation, write_replay};
use crate::rng::Rng;
use crate::world::{World, exit_class};
use fil_actor_miner::{
    ChangeBeneficiaryParams, ChangeOwnerAddressParams, ChangePeerIDParams,
    ChangeWorkerAddressParams, CompactCommD, Method, MinerInfo, PreCommitSectorBatchParams2,
    SectorPreCommitInfo, State, WithdrawBalanceParams, WithdrawBalanceReturn,
    max_prove_commit_duration,
};
use fil_actor_power::{CreateMinerParams, CreateMinerReturn};
use fil_actors_runtime::runtime::Policy;
use fil_actors_runtime::test_utils::make_sealed_cid;
use fil_actors_runtime::{CRON_ACTOR_ADDR, STORAGE_POWER_ACTOR_ADDR, SYSTEM_ACTOR_ADDR};
use fvm_ipld_encoding::BytesDe;
use fvm_ipld_encoding::ipld_block::IpldBlock;
use fvm_shared::address::Address;
use fvm_shared::econ::TokenAmount;
use fvm_shared::sector::{RegisteredPoStProof, RegisteredSealProof};
use num_traits::Zero;
use serde_json::json;
use std::collections::HashSet;
use vm_api::VM;
use vm_api::trace::InvocationTrace;

/// the security delay as the property states it (`worker_key_change_delay` = chain finality)
const SPEC_WORKER_DELAY: i64 = 900;
const ROLE_NAMES: [&str; 6] = ["owner0", "worker0", "control", "newowner", "nominee", "stranger"];

struct Env {
    w: World,
    miner: Address,
    /// (id address, key address) of the six roles
    roles: Vec<(Address, Address)>,
    next_sector: std::cell::Cell<u64>,
}

fn atto(n: i64) -> TokenAmount {
    TokenAmount::from_atto(n)
}

fn setup(start_epoch: i64) -> Env {
    let w = World::new(false);
    w.vm.set_epoch(start_epoch);
    let roles = w.create_accounts(6, 1313, &TokenAmount::from_whole(10_000));
    let params = CreateMinerParams {
        owner: roles[0].0,
        worker: roles[1].0,
        window_post_proof_type: RegisteredPoStProof::StackedDRGWindow32GiBV1P1,
        peer: b"miner".to_vec(),
        multiaddrs: vec![BytesDe(b"multiaddr".to_vec())],
    };
    // plain CreateMiner: the value covers the creation deposit, the rest is available balance
    let r = w.apply(
        &roles[0].0,
        &STORAGE_POWER_ACTOR_ADDR,
        &TokenAmount::from_whole(5000),
        fil_actor_power::Method::CreateMiner as u64,
        Some(params),
    );
    assert!(r.ok(), "CreateMiner failed: {:?}", r);
    let ret: CreateMinerReturn = r.ret.unwrap().deserialize().unwrap();
    w.take_trace();
    Env { w, miner: ret.id_address, roles, next_sector: std::cell::Cell::new(100) }
}

/// property-relevant projection of `MinerInfo` (ids)
#[derive(Clone, Debug, PartialEq, Eq)]
struct Proj {
    owner: u64,
    pending_owner: Option<u64>,
    worker: u64,
    pending_worker: Option<(u64, i64)>,
    controls: Vec<u64>,
    beneficiary: u64,
    quota: TokenAmount,
    used: TokenAmount,
    expiration: i64,
    pending_ben: Option<(u64, TokenAmount, i64, bool, bool)>,
}

fn id(a: &Address) -> u64 {
    a.id().expect("MinerInfo holds ID addresses")
}

fn read_info(e: &Env) -> MinerInfo {
    let st: State = vm_api::util::get_state(&e.w.vm, &e.miner).unwrap();
    st.get_info(e.w.vm.store.as_ref()).unwrap()
}

fn project(e: &Env) -> Proj {
    let i = read_info(e);
    Proj {
        owner: id(&i.owner),
        pending_owner: i.pending_owner_address.as_ref().map(id),
        worker: id(&i.worker),
        pending_worker: i.pending_worker_key.as_ref().map(|k| (id(&k.new_worker), k.effective_at)),
        controls: i.control_addresses.iter().map(id).collect(),
        beneficiary: id(&i.beneficiary),
        quota: i.beneficiary_term.quota.clone(),
        used: i.beneficiary_term.used_quota.clone(),
        expiration: i.beneficiary_term.expiration,
        pending_ben: i.pending_beneficiary_term.as_ref().map(|p| {
            (
                id(&p.new_beneficiary),
                p.new_quota.clone(),
                p.new_expiration,
                p.approved_by_beneficiary,
                p.approved_by_nominee,
            )
        }),
    }
}

fn b01(b: bool) -> u8 {
    b as u8
}

fn show(p: &Proj) -> String {
    let po = p.pending_owner.map(|x| x.to_string()).unwrap_or("-".into());
    let pw = p.pending_worker.map(|(n, e)| format!("{}:{}", n, e)).unwrap_or("-".into());
    let pb = p
        .pending_ben
        .as_ref()
        .map(|(n, q, x, a, b)| format!("{}:{}:{}:{}:{}", n, q.atto(), x, b01(*a), b01(*b)))
        .unwrap_or("-".into());
    let cs = if p.controls.is_empty() {
        "-".to_string()
    } else {
        p.controls.iter().map(|c| c.to_string()).collect::<Vec<_>>().join(",")
    };
    format!(
        "{} {} {} {} {} {} {} {} {} {}",
        p.owner, po, p.worker, pw, cs, p.beneficiary, p.quota.atto(), p.used.atto(), p.expiration, pb
    )
}

/// how an address parameter is presented to the actor
#[derive(Clone, Copy, Debug, PartialEq)]
enum AddrForm {
    Id,
    Key,
    /// a BLS key address that was never seen by the init actor
    Unresolvable,
    /// the miner actor itself (resolves, but is not an account)
    MinerSelf,
}

#[derive(Clone, Debug)]
enum Op {
    ChangeOwner { caller: usize, new: usize, form: AddrForm },
    ChangeWorker { caller: usize, new_worker: usize, wform: AddrForm, controls: Vec<(usize, AddrForm)> },
    Confirm { caller: usize },
    ChangeBen { caller: usize, new: usize, form: AddrForm, quota: i64, exp: i64 },
    Withdraw { caller: usize, amount: i64 },
    /// PreCommitSectorBatch2 of one fresh sector: activates the proving-deadline cron (not part
    /// of the model; a controlling-address-only method)
    Precommit { caller: usize },
    /// move to `to_epoch` and run the cron tick there
    Advance { to_epoch: i64 },
}

fn role_of(e: &Env, idv: u64) -> Option<usize> {
    e.roles.iter().position(|r| r.0.id().unwrap() == idv)
}

fn unresolvable_addr(k: u64) -> Address {
    let mut b = [0u8; 48];
    b[0] = 0xEE;
    b[1..9].copy_from_slice(&k.to_le_bytes());
    Address::new_bls(&b).unwrap()
}

fn addr_of(e: &Env, role: usize, form: AddrForm) -> Address {
    match form {
        AddrForm::Id => e.roles[role].0,
        AddrForm::Key => e.roles[role].1,
        AddrForm::Unresolvable => unresolvable_addr(role as u64),
        AddrForm::MinerSelf => e.miner,
    }
}

fn term_available(quota: &TokenAmount, used: &TokenAmount, exp: i64, epoch: i64) -> TokenAmount {
    if exp > epoch { std::cmp::max(quota - used, TokenAmount::zero()) } else { TokenAmount::zero() }
}

fn small(x: &TokenAmount) -> i64 {
    x.atto().to_string().parse::<i64>().unwrap_or(i64::MAX / 4)
}

fn gen_op(r: &mut Rng, e: &Env, p: &Proj, epoch: i64) -> Op {
    let owner = role_of(e, p.owner).unwrap_or(0);
    let any_role = |r: &mut Rng| r.below(6) as usize;
    let form = |r: &mut Rng| if r.chance(4, 5) { AddrForm::Id } else { AddrForm::Key };
    let k = r.below(100);
    if k < 18 {
        // time: small steps, or to a boundary of something pending
        let mut targets = vec![];
        if let Some((_, eff)) = p.pending_worker {
            targets.push(eff);
        }
        if p.beneficiary != p.owner {
            targets.push(p.expiration);
        }
        let to = if !targets.is_empty() && r.chance(1, 2) {
            *r.pick(&targets) + r.range(-2, 1)
        } else if r.chance(1, 6) {
            epoch + SPEC_WORKER_DELAY + r.range(-2, 2)
        } else {
            epoch + r.range(0, 70)
        };
        return Op::Advance { to_epoch: to.max(epoch) };
    }
    if k < 21 {
        let caller = if r.chance(3, 4) { role_of(e, p.worker).unwrap_or(1) } else { any_role(r) };
        return Op::Precommit { caller };
    }
    if k < 40 {
        // ChangeOwnerAddress
        return match r.below(10) {
            0..=3 => {
                // proposal by the owner (sometimes its own address: revoke)
                let new = if r.chance(1, 6) { owner } else if r.chance(1, 2) { 3 } else { any_role(r) };
                Op::ChangeOwner { caller: owner, new, form: AddrForm::Id }
            }
            4..=6 => match p.pending_owner.and_then(|x| role_of(e, x)) {
                // confirmation by the pending owner
                Some(po) => Op::ChangeOwner { caller: po, new: po, form: AddrForm::Id },
                None => Op::ChangeOwner { caller: any_role(r), new: any_role(r), form: AddrForm::Id },
            },
            7 => {
                // pending owner names someone else / someone else names the pending owner
                let po = p.pending_owner.and_then(|x| role_of(e, x)).unwrap_or(3);
                if r.chance(1, 2) {
                    Op::ChangeOwner { caller: po, new: any_role(r), form: AddrForm::Id }
                } else {
                    Op::ChangeOwner { caller: any_role(r), new: po, form: AddrForm::Id }
                }
            }
            8 => Op::ChangeOwner { caller: owner, new: any_role(r), form: AddrForm::Key },
            _ => Op::ChangeOwner { caller: any_role(r), new: any_role(r), form: form(r) },
        };
    }
    if k < 58 {
        // ChangeWorkerAddress
        let caller = if r.chance(5, 6) { owner } else { any_role(r) };
        let cur_worker = role_of(e, p.worker).unwrap_or(1);
        let (new_worker, wform) = match r.below(10) {
            0..=1 => (cur_worker, form(r)), // controls only
            2 => (any_role(r), AddrForm::MinerSelf),
            3 => (any_role(r), AddrForm::Unresolvable),
            _ => (any_role(r), form(r)),
        };
        let n = match r.below(12) {
            0 => 11,
            1 => 10,
            _ => r.below(4),
        };
        let mut controls = vec![];
        for _ in 0..n {
            let f = if r.chance(1, 30) { AddrForm::Unresolvable } else { form(r) };
            controls.push((any_role(r), f));
        }
        return Op::ChangeWorker { caller, new_worker, wform, controls };
    }
    if k < 68 {
        let caller = if r.chance(3, 4) { owner } else { any_role(r) };
        return Op::Confirm { caller };
    }
    if k < 88 {
        // ChangeBeneficiary
        if let (Some((n, q, x, ab, an)), true) = (p.pending_ben.clone(), r.chance(2, 3)) {
            // approval of the pending proposal by the party still missing (or anyone), with the
            // parameters sometimes perturbed
            let nrole = role_of(e, n).unwrap_or(4);
            let brole = role_of(e, p.beneficiary).unwrap_or(0);
            let caller = match r.below(8) {
                0 => any_role(r),
                1 => nrole,
                2 => brole,
                _ => if !an { nrole } else if !ab { brole } else { nrole },
            };
            let (mut new, mut quota, mut exp) = (nrole, small(&q), x);
            match r.below(10) {
                0 => quota += if r.chance(1, 2) { 1 } else { -1 },
                1 => exp += if r.chance(1, 2) { 1 } else { -1 },
                2 => new = any_role(r),
                _ => {}
            }
            return Op::ChangeBen { caller, new, form: form(r), quota, exp };
        }
        let caller = if r.chance(7, 8) { owner } else { any_role(r) };
        if r.chance(1, 6) {
            // hand the benefit back to the owner (quota and expiration must be zero)
            let (quota, exp) = match r.below(6) {
                0 => (1, 0),
                1 => (0, epoch + 10),
                _ => (0, 0),
            };
            return Op::ChangeBen { caller, new: owner, form: form(r), quota, exp };
        }
        let new = if r.chance(1, 2) { 4 } else { any_role(r) };
        let quota = match r.below(8) {
            0 => 0,
            1 => -r.range(1, 5),
            _ => r.range(1, 300),
        };
        let exp = match r.below(6) {
            0 => epoch,
            1 => epoch - r.range(1, 10),
            2 => epoch + 1,
            _ => epoch + r.range(2, 2500),
        };
        let f = if r.chance(1, 25) { AddrForm::Unresolvable } else { form(r) };
        return Op::ChangeBen { caller, new, form: f, quota, exp };
    }
    // WithdrawBalance
    let brole = role_of(e, p.beneficiary).unwrap_or(0);
    let caller = match r.below(8) {
        0 => any_role(r),
        1..=3 => owner,
        _ => brole,
    };
    let remaining = small(&term_available(&p.quota, &p.used, p.expiration, epoch));
    let amount = match r.below(10) {
        0 => 0,
        1 => -r.range(1, 9),
        2 => remaining,
        3 => remaining + 1,
        4 => (remaining - 1).max(0),
        5 => 1_000_000_000_000_000_000i64,
        _ => r.range(1, 120),
    };
    Op::Withdraw { caller, amount }
}

struct Built {
    /// line for the Lean driver ("" = not a model op)
    line: String,
    msg: Option<(Address, u64, Option<IpldBlock>)>,
}

fn cbor<S: serde::Serialize>(s: &S) -> Option<IpldBlock> {
    IpldBlock::serialize_cbor(s).unwrap()
}

/// what `min(available_balance, amount_requested)` will be inside withdraw_balance at this epoch
/// (an environment input of the model: it depends on vesting, deposits and debt, which are outside
/// the control projection)
fn withdraw_env_amount(e: &Env, requested: i64, epoch: i64) -> i64 {
    if requested < 0 {
        return requested;
    }
    let mut st: State = vm_api::util::get_state(&e.w.vm, &e.miner).unwrap();
    let _ = st.unlock_vested_funds(e.w.vm.store.as_ref(), epoch);
    let bal = e.w.balance(&e.miner);
    match st.get_available_balance(&bal) {
        Ok(av) => {
            let avs = if av.is_negative() { -1 } else { small(&av) };
            avs.min(requested)
        }
        Err(_) => -1,
    }
}

fn build(e: &Env, op: &Op, epoch: i64) -> Built {
    let rid = |role: usize| e.roles[role].0.id().unwrap();
    match op {
        Op::Advance { .. } => Built { line: String::new(), msg: None },
        Op::ChangeOwner { caller, new, form } => {
            let a = addr_of(e, *new, *form);
            Built {
                line: format!("chown {} {} {}", rid(*caller), rid(*new), b01(*form == AddrForm::Id)),
                msg: Some((
                    e.roles[*caller].0,
                    Method::ChangeOwnerAddress as u64,
                    cbor(&ChangeOwnerAddressParams { new_owner: a }),
                )),
            }
        }
        Op::ChangeWorker { caller, new_worker, wform, controls } => {
            let wa = addr_of(e, *new_worker, *wform);
            let worker_ok = matches!(wform, AddrForm::Id | AddrForm::Key);
            let controls_ok = controls.iter().all(|(_, f)| *f != AddrForm::Unresolvable);
            let cs: Vec<Address> = controls.iter().map(|(r, f)| addr_of(e, *r, *f)).collect();
            let cs_line = if controls.is_empty() {
                "-".to_string()
            } else {
                controls.iter().map(|(r, _)| rid(*r).to_string()).collect::<Vec<_>>().join(",")
            };
            Built {
                line: format!(
                    "chworker {} {} {} {} {} {}",
                    rid(*caller),
                    rid(*new_worker),
                    cs_line,
                    epoch,
                    b01(worker_ok),
                    b01(controls_ok)
                ),
                msg: Some((
                    e.roles[*caller].0,
                    Method::ChangeWorkerAddress as u64,
                    cbor(&ChangeWorkerAddressParams { new_worker: wa, new_control_addresses: cs }),
                )),
            }
        }
        Op::Confirm { caller } => Built {
            line: format!("confirm {} {}", rid(*caller), epoch),
            msg: Some((e.roles[*caller].0, Method::ConfirmChangeWorkerAddress as u64, None)),
        },
        Op::ChangeBen { caller, new, form, quota, exp } => {
            let a = addr_of(e, *new, *form);
            Built {
                line: format!(
                    "chben {} {} {} {} {} {}",
                    rid(*caller),
                    rid(*new),
                    quota,
                    exp,
                    epoch,
                    b01(*form != AddrForm::Unresolvable)
                ),
                msg: Some((
                    e.roles[*caller].0,
                    Method::ChangeBeneficiary as u64,
                    cbor(&ChangeBeneficiaryParams::new(a, atto(*quota), *exp)),
                )),
            }
        }
        Op::Withdraw { caller, amount } => Built {
            // the restOk flag is appended after execution (observed from the sub-calls)
            line: format!("withdraw {} {} {}", rid(*caller), withdraw_env_amount(e, *amount, epoch), epoch),
            msg: Some((
                e.roles[*caller].0,
                Method::WithdrawBalance as u64,
                cbor(&WithdrawBalanceParams { amount_requested: atto(*amount) }),
            )),
        },
        Op::Precommit { caller } => {
            let sn = e.next_sector.get();
            let seal = RegisteredSealProof::StackedDRG32GiBV1P1;
            let pol = Policy::default();
            let info = SectorPreCommitInfo {
                seal_proof: seal,
                sector_number: sn,
                sealed_cid: make_sealed_cid(format!("sn: {}", sn).as_bytes()),
                seal_rand_epoch: epoch - 1,
                deal_ids: vec![],
                expiration: epoch
                    + pol.min_sector_expiration
                    + max_prove_commit_duration(&pol, seal).unwrap()
                    + 100,
                unsealed_cid: CompactCommD::default(),
            };
            Built {
                line: String::new(),
                msg: Some((
                    e.roles[*caller].0,
                    Method::PreCommitSectorBatch2 as u64,
                    cbor(&PreCommitSectorBatchParams2 { sectors: vec![info] }),
                )),
            }
        }
    }
}

/// all invocations of `method` on `to` in a trace tree, in execution order, with their exit codes
fn find_calls(t: &InvocationTrace, to: &Address, method: u64, out: &mut Vec<bool>) {
    if t.to == *to && t.method == method {
        out.push(t.exit_code.is_success() && t.error_number.is_none());
    }
    for s in &t.subinvocations {
        find_calls(s, to, method, out);
    }
}

fn subcalls_ok(t: &InvocationTrace) -> bool {
    t.subinvocations.iter().all(|s| s.exit_code.is_success() && s.error_number.is_none())
}

/// The oracle's own log, built only from the messages sent and their ok/err (never from the
/// model): the outstanding proposals and who approved them.
#[derive(Clone, Debug, Default)]
struct Log {
    /// (proposer = owner at that time, proposed address)
    owner_prop: Option<(u64, u64)>,
    /// (new worker, epoch of the owner's request)
    worker_req: Option<(u64, i64)>,
    /// (nominee, quota, expiration, approved by nominee, approved by beneficiary or waived)
    ben_prop: Option<(u64, i64, i64, bool, bool)>,
}

type V = Option<(String, String)>;

fn viol(kind: &str, detail: String) -> V {
    Some((kind.to_string(), detail))
}

/// Independent oracle: evaluates the property statement on the real states before/after one
/// message, using its own log. `caller`: id of the message sender (None for the cron callback).
#[allow(clippy::too_many_arguments)]
fn oracle(
    e: &Env,
    log: &mut Log,
    op: &Op,
    caller: Option<u64>,
    epoch: i64,
    ok: bool,
    b: &Proj,
    a: &Proj,
    ben_balance_delta: &TokenAmount,
    withdrawn: Option<TokenAmount>,
) -> V {
    let rid = |role: usize| e.roles[role].0.id().unwrap();
    if !ok {
        if a != b {
            return viol("failed-message-changed-state", format!("{} -> {}", show(b), show(a)));
        }
        return None;
    }
    // ---- update the log from the message itself (who sent what), judged against the state before
    let mut owner_confirm = false;
    match op {
        Op::ChangeOwner { new, .. } => {
            let c = caller.unwrap();
            if c == b.owner {
                log.owner_prop = if rid(*new) == b.owner { None } else { Some((c, rid(*new))) };
            } else if log.owner_prop == Some((b.owner, c)) && rid(*new) == c {
                owner_confirm = true;
            } else {
                return viol("change-owner-accepted-without-proposal", format!("caller {} new {} log {:?} state {}", c, rid(*new), log.owner_prop, show(b)));
            }
        }
        Op::ChangeWorker { new_worker, .. } => {
            let c = caller.unwrap();
            if c != b.owner {
                return viol("change-worker-by-non-owner", format!("caller {} owner {}", c, b.owner));
            }
            if log.worker_req.is_none() && rid(*new_worker) != b.worker {
                log.worker_req = Some((rid(*new_worker), epoch));
            }
        }
        Op::Confirm { .. } => {
            if caller.unwrap() != b.owner {
                return viol("confirm-worker-by-non-owner", format!("caller {:?} owner {}", caller, b.owner));
            }
        }
        Op::ChangeBen { new, quota, exp, .. } => {
            let c = caller.unwrap();
            let n = rid(*new);
            if c == b.owner {
                let waived = term_available(&b.quota, &b.used, b.expiration, epoch).is_zero();
                log.ben_prop = Some((n, *quota, *exp, c == n, waived || c == b.beneficiary));
            } else {
                match log.ben_prop.as_mut() {
                    Some(p) if p.0 == n && p.1 == *quota && p.2 == *exp && (c == n || c == b.beneficiary) => {
                        if c == n {
                            p.3 = true;
                        }
                        if c == b.beneficiary {
                            p.4 = true;
                        }
                    }
                    _ => {
                        return viol("change-beneficiary-accepted-from-outsider-or-mismatch", format!("caller {} params ({},{},{}) log {:?} state {}", c, n, quota, exp, log.ben_prop, show(b)));
                    }
                }
            }
        }
        Op::Withdraw { .. } => {
            let c = caller.unwrap();
            if c != b.owner && c != b.beneficiary {
                return viol("withdraw-by-outsider", format!("caller {} owner {} beneficiary {}", c, b.owner, b.beneficiary));
            }
        }
        _ => {}
    }
    // ---- strangers change nothing
    if let Some(c) = caller {
        let involved = c == b.owner
            || b.pending_owner == Some(c)
            || c == b.beneficiary
            || b.pending_ben.as_ref().map(|p| p.0) == Some(c);
        if !involved && a != b {
            return viol("stranger-changed-control-record", format!("caller {} : {} -> {}", c, show(b), show(a)));
        }
    }
    // ---- owner
    if a.owner != b.owner {
        if !owner_confirm || caller != Some(a.owner) {
            return viol("owner-changed-without-two-step", format!("{} -> {} caller {:?} log {:?}", b.owner, a.owner, caller, log.owner_prop));
        }
        log.owner_prop = None;
        log.ben_prop = None; // the code drops the old owner's proposal; checked below
    } else if owner_confirm {
        return viol("owner-confirmation-had-no-effect", show(a));
    }
    match (b.pending_owner, a.pending_owner) {
        (x, y) if x == y => {}
        (_, y) => {
            let by_owner = caller == Some(b.owner);
            let completed = a.owner != b.owner && b.pending_owner == Some(a.owner) && y.is_none();
            if !(by_owner || completed) {
                return viol("pending-owner-altered-by-non-owner", format!("{:?} -> {:?} caller {:?}", b.pending_owner, y, caller));
            }
        }
    }
    if a.pending_owner != log.owner_prop.map(|p| p.1) || log.owner_prop.map(|p| p.0 != a.owner).unwrap_or(false) {
        return viol("pending-owner-differs-from-log", format!("state {:?} log {:?}", a.pending_owner, log.owner_prop));
    }
    // ---- worker
    if a.worker != b.worker {
        match log.worker_req {
            Some((nw, req)) if nw == a.worker && epoch >= req + SPEC_WORKER_DELAY => {}
            _ => {
                return viol("worker-changed-before-delay-or-without-request", format!("{} -> {} at epoch {} log {:?}", b.worker, a.worker, epoch, log.worker_req));
            }
        }
        if !(matches!(op, Op::Confirm { .. }) || matches!(op, Op::Advance { .. })) {
            return viol("worker-changed-by-unexpected-method", format!("{:?}", op));
        }
        log.worker_req = None;
    }
    if a.pending_worker.map(|k| (k.0, k.1 - SPEC_WORKER_DELAY)) != log.worker_req {
        return viol("pending-worker-differs-from-log", format!("state {:?} log {:?} (log holds request epoch; effective = +{})", a.pending_worker, log.worker_req, SPEC_WORKER_DELAY));
    }
    if a.controls != b.controls && !(matches!(op, Op::ChangeWorker { .. }) && caller == Some(b.owner)) {
        return viol("controls-changed-by-non-owner", format!("{:?} -> {:?}", b.controls, a.controls));
    }
    // ---- beneficiary
    if a.beneficiary != b.beneficiary {
        let follows_owner = a.owner != b.owner && b.beneficiary == b.owner && a.beneficiary == a.owner;
        if !follows_owner {
            match (&log.ben_prop, op) {
                (Some((n, q, x, true, true)), Op::ChangeBen { .. })
                    if *n == a.beneficiary && atto(*q) == a.quota && *x == a.expiration && a.used.is_zero() => {}
                _ => {
                    return viol("beneficiary-changed-without-both-approvals", format!("{} -> {} log {:?} state {}", b.beneficiary, a.beneficiary, log.ben_prop, show(a)));
                }
            }
            log.ben_prop = None;
        }
    } else if let (Some((n, q, x, true, true)), Op::ChangeBen { .. }) = (&log.ben_prop, op) {
        // both approvals present and the nominee is the sitting beneficiary: term renewal
        if *n == a.beneficiary && atto(*q) == a.quota && *x == a.expiration {
            log.ben_prop = None;
        } else {
            return viol("approved-beneficiary-proposal-not-applied", format!("log {:?} state {}", log.ben_prop, show(a)));
        }
    } else if (a.quota.clone(), a.expiration) != (b.quota.clone(), b.expiration) {
        return viol("beneficiary-term-changed-without-handover", format!("{} -> {}", show(b), show(a)));
    }
    // a pending proposal vanishes/changes only by the owner, by completion, or with the ownership handover
    let key = |p: &Option<(u64, TokenAmount, i64, bool, bool)>| p.as_ref().map(|p| (p.0, p.1.clone(), p.2));
    if key(&b.pending_ben) != key(&a.pending_ben) && b.pending_ben.is_some() {
        let by_owner = caller == Some(b.owner);
        let completed = a.pending_ben.is_none()
            && b.pending_ben.as_ref().map(|p| (p.0, p.1.clone(), p.2)) == Some((a.beneficiary, a.quota.clone(), a.expiration))
            && matches!(op, Op::ChangeBen { .. });
        let owner_handover = a.owner != b.owner && caller == Some(a.owner);
        if !(by_owner || completed || owner_handover) {
            return viol("pending-beneficiary-withdrawn-by-non-owner", format!("{:?} -> {:?} caller {:?}", b.pending_ben, a.pending_ben, caller));
        }
    }
    if let (Some(pb), Some(pa)) = (&b.pending_ben, &a.pending_ben) {
        if key(&b.pending_ben) == key(&a.pending_ben) && caller != Some(b.owner) && ((pb.3 && !pa.3) || (pb.4 && !pa.4)) {
            return viol("approval-flag-reset-by-non-owner", format!("{:?} -> {:?}", pb, pa));
        }
    }
    let logged = log.ben_prop.map(|p| (p.0, atto(p.1), p.2, p.4, p.3));
    if a.pending_ben != logged {
        return viol("pending-beneficiary-differs-from-log", format!("state {:?} log(nominee,quota,exp,byBeneficiary,byNominee) {:?}", a.pending_ben, logged));
    }
    // ---- quota bookkeeping
    if a.used != b.used {
        if a.beneficiary != b.beneficiary || (matches!(op, Op::ChangeBen { .. }) && a.used.is_zero()) {
            // reset with the handover
        } else if let (Op::Withdraw { .. }, Some(wd)) = (op, &withdrawn) {
            let avail = term_available(&b.quota, &b.used, b.expiration, epoch);
            if &a.used - &b.used != *wd || *wd > avail || !wd.is_positive() {
                return viol("quota-bookkeeping-wrong", format!("used {} -> {} withdrawn {} available {}", b.used.atto(), a.used.atto(), wd.atto(), avail.atto()));
            }
        } else {
            return viol("used-quota-changed-outside-withdrawal", format!("{} -> {}", show(b), show(a)));
        }
    }
    if let (Op::Withdraw { caller: crole, .. }, Some(wd)) = (op, &withdrawn) {
        if b.beneficiary != b.owner {
            let avail = term_available(&b.quota, &b.used, b.expiration, epoch);
            if avail.is_zero() || *wd > avail {
                return viol("withdrawal-beyond-beneficiary-term", format!("withdrawn {} available {} state {}", wd.atto(), avail.atto(), show(b)));
            }
            if &a.used - &b.used != *wd {
                return viol("withdrawal-not-charged-to-quota", format!("withdrawn {} used {} -> {}", wd.atto(), b.used.atto(), a.used.atto()));
            }
        }
        // the money goes to the beneficiary (net of the caller's own send when they coincide: value 0)
        let _ = crole;
        if ben_balance_delta != wd {
            return viol("withdrawal-not-paid-to-beneficiary", format!("withdrawn {} beneficiary balance delta {}", wd.atto(), ben_balance_delta.atto()));
        }
    }
    None
}

/// Rights probes on the current state (rolled back afterwards): which roles pass an owner-only
/// method, the withdraw caller check and a controlling-address method, compared with what the
/// record read from the real state says.
fn probe_rights(e: &Env, p: &Proj, epoch: i64) -> V {
    let root = e.w.vm.checkpoint();
    let info = read_info(e);
    let mut res: V = None;
    for role in 0..6usize {
        let who = e.roles[role].0;
        let wid = who.id().unwrap();
        // owner-only: ChangeWorkerAddress with unchanged arguments
        let r1 = e.w.apply(
            &who,
            &e.miner,
            &TokenAmount::zero(),
            Method::ChangeWorkerAddress as u64,
            Some(ChangeWorkerAddressParams { new_worker: info.worker, new_control_addresses: info.control_addresses.clone() }),
        );
        e.w.vm.rollback(root);
        if r1.ok() != (wid == p.owner) {
            res = viol("owner-right-mismatch", format!("role {} ({}) ChangeWorkerAddress ok={} but owner is {} [{}]", ROLE_NAMES[role], wid, r1.ok(), p.owner, r1.message));
            break;
        }
        // controlling addresses: ChangePeerID
        let r2 = e.w.apply(&who, &e.miner, &TokenAmount::zero(), Method::ChangePeerID as u64, Some(ChangePeerIDParams { new_id: b"miner".to_vec() }));
        e.w.vm.rollback(root);
        let controlling = wid == p.owner || wid == p.worker || p.controls.contains(&wid);
        if r2.ok() != controlling {
            res = viol("controlling-right-mismatch", format!("role {} ({}) ChangePeerID ok={} record {} [{}]", ROLE_NAMES[role], wid, r2.ok(), show(p), r2.message));
            break;
        }
        // withdraw caller check: WithdrawBalance(0)
        e.w.take_trace();
        let r3 = e.w.apply(&who, &e.miner, &TokenAmount::zero(), Method::WithdrawBalance as u64, Some(WithdrawBalanceParams { amount_requested: TokenAmount::zero() }));
        e.w.vm.rollback(root);
        let may = wid == p.owner || wid == p.beneficiary;
        let quota_open = p.beneficiary == p.owner || term_available(&p.quota, &p.used, p.expiration, epoch).is_positive();
        if r3.ok() && !may {
            res = viol("withdraw-right-mismatch", format!("role {} ({}) passed WithdrawBalance, record {}", ROLE_NAMES[role], wid, show(p)));
            break;
        }
        // a refusal that comes from a failing call to another actor (e.g. UpdatePledgeTotal after the
        // power actor dropped the miner's claim, finding F1/F3) is not a caller-check refusal
        let env_fail = e.w.take_trace().last().map(|t| !subcalls_ok(t)).unwrap_or(false);
        if !r3.ok() && may && quota_open && r3.code.value() == 18 && !env_fail {
            res = viol("withdraw-right-lost", format!("role {} ({}) refused (forbidden) by WithdrawBalance, record {} [{}]", ROLE_NAMES[role], wid, show(p), r3.message));
            break;
        }
    }
    e.w.vm.rollback(root);
    e.w.take_trace();
    res
}

pub fn run(cfg: &RunCfg) -> Report {
    let mut rep = Report::new("C13", cfg.seed, &cfg.tier);
    rep.nontrivial_rule = "a sequence is non-trivial when at least one handover completed on the real actor (owner, worker or beneficiary field changed); distinct = distinct hash of the op lines".into();
    let (nseq, maxlen) = if cfg.thorough() { (4000u64, 300u64) } else { (220, 70) };
    let nseq = nseq * cfg.budget;
    let mut lean = if cfg.use_lean { Some(LeanDriver::spawn("minercontrol").expect("lean driver")) } else { None };
    // behavioural cross-check of the extracted constant; a differing delay is not judged here but by
    // the oracle, which then finds a concrete worker change earlier than request + 900
    if Policy::default().worker_key_change_delay != SPEC_WORKER_DELAY {
        rep.notes.push(format!("Policy::default().worker_key_change_delay = {} differs from the specified {}", Policy::default().worker_key_change_delay, SPEC_WORKER_DELAY));
    }
    let mut seen = HashSet::new();
    let seqs: Vec<u64> = match cfg.only_seq { Some(k) => vec![k], None => (0..nseq).collect() };
    let (mut n_owner, mut n_worker, mut n_ben, mut n_cron_cb, mut n_probe) = (0u64, 0u64, 0u64, 0u64, 0u64);
    'seqs: for seq in seqs {
        let mut r = seq_rng(cfg.seed, seq);
        let mut epoch: i64 = r.range(1, 20);
        let e = setup(epoch);
        let mut log = Log::default();
        let mut lines: Vec<String> = vec![];
        let p0 = project(&e);
        let init_line = format!("init {} {} -", p0.owner, p0.worker);
        lines.push(init_line.clone());
        let mut agree = true;
        if let Some(l) = lean.as_mut() {
            let m = l.ask(&init_line).unwrap();
            let i = format!("ok | {}", show(&p0));
            if m != i {
                agree = false;
                rep.disagreements.push(Disagreement { seq, step: 0, op: "create".into(), impl_out: i, model_out: m, replay: String::new() });
            }
        }
        rep.sequences += 1;
        let len = r.range(8, maxlen as i64) as u64;
        let mut nontrivial = false;
        // half of the sequences start with the proving-deadline cron already active
        let mut pending_first: Option<Op> = if r.chance(1, 2) { Some(Op::Precommit { caller: 1 }) } else { None };
        for step in 0..len {
            let before = project(&e);
            let op = match pending_first.take() { Some(o) => o, None => gen_op(&mut r, &e, &before, epoch) };
            let replay_hdr = |what: &str| vec![
                format!("property C13 seed {} seq {} (re-run: ba_harness c13 --seed {} --only-seq {})", cfg.seed, seq, cfg.seed, seq),
                format!("roles: {}", e.roles.iter().enumerate().map(|(i, a)| format!("{}={}", ROLE_NAMES[i], a.0.id().unwrap())).collect::<Vec<_>>().join(" ")),
                format!("miner {} ; failing step {}: {:?} ; {}", e.miner, step, op, what),
            ];
            // ------------------------------------------------ time + cron
            if let Op::Advance { to_epoch } = op {
                epoch = to_epoch;
                e.w.vm.set_epoch(epoch);
                lines.push(format!("# epoch {} + cron tick", epoch));
                rep.op("advance+cron");
                e.w.take_trace();
                let res = e.w.apply_raw(&SYSTEM_ACTOR_ADDR, &CRON_ACTOR_ADDR, &TokenAmount::zero(), fil_actor_cron::Method::EpochTick as u64, None);
                if res.panicked {
                    let path = write_replay("C13", &format!("{}-{}", cfg.seed, seq), &replay_hdr("cron tick panicked"), &lines);
                    rep.violations.push(Violation { kind: "panic".into(), detail: res.message.clone(), replay: path });
                    continue 'seqs;
                }
                if !res.ok() {
                    // a failing top-level cron tick is C05's subject, not C13's: recorded, not judged here
                    rep.branch("cron-tick-top-level-failed");
                }
                let mut cbs = vec![];
                for t in e.w.take_trace() {
                    find_calls(&t, &e.miner, Method::OnDeferredCronEvent as u64, &mut cbs);
                }
                let after = project(&e);
                let n_ok = cbs.iter().filter(|x| **x).count();
                for okcb in &cbs {
                    rep.branch(if *okcb { "cron-callback-ok" } else { "cron-callback-failed" });
                }
                n_cron_cb += n_ok as u64;
                if n_ok == 0 && after != before {
                    let path = write_replay("C13", &format!("{}-{}", cfg.seed, seq), &replay_hdr("record changed without a successful miner cron callback"), &lines);
                    rep.violations.push(Violation { kind: "record-changed-without-message".into(), detail: format!("{} -> {}", show(&before), show(&after)), replay: path });
                    continue 'seqs;
                }
                if n_ok > 0 {
                    rep.ops += 1;
                    rep.ops_ok += 1;
                    if let Some((k, d)) = oracle(&e, &mut log, &op, None, epoch, true, &before, &after, &TokenAmount::zero(), None) {
                        let path = write_replay("C13", &format!("{}-{}", cfg.seed, seq), &replay_hdr(&k), &lines);
                        rep.violations.push(Violation { kind: k, detail: d, replay: path });
                        continue 'seqs;
                    }
                    if after.worker != before.worker { n_worker += 1; nontrivial = true; rep.branch("worker-installed-by-cron"); }
                    let mut m = String::new();
                    for _ in 0..n_ok {
                        let line = format!("cron {}", epoch);
                        lines.push(line.clone());
                        if let Some(l) = lean.as_mut() { m = l.ask(&line).unwrap(); }
                    }
                    if lean.is_some() {
                        let i = format!("ok | {}", show(&after));
                        if m != i {
                            agree = false;
                            let path = write_replay("C13", &format!("corr-{}-{}", cfg.seed, seq), &replay_hdr("model/impl disagree"), &lines);
                            rep.disagreements.push(Disagreement { seq, step, op: format!("cron {}", epoch), impl_out: i, model_out: m, replay: path });
                            continue 'seqs;
                        }
                    }
                }
                continue;
            }
            // ------------------------------------------------ a message to the miner
            let bl = build(&e, &op, epoch);
            let (from, method, params) = bl.msg.clone().unwrap();
            let caller = from.id().unwrap();
            let ben_addr = Address::new_id(before.beneficiary);
            let ben_bal_before = e.w.balance(&ben_addr);
            e.w.take_trace();
            let res = e.w.apply_raw(&from, &e.miner, &TokenAmount::zero(), method, params);
            let traces = e.w.take_trace();
            let after = project(&e);
            let opname = match &op {
                Op::ChangeOwner { .. } => "chown", Op::ChangeWorker { .. } => "chworker", Op::Confirm { .. } => "confirm",
                Op::ChangeBen { .. } => "chben", Op::Withdraw { .. } => "withdraw", Op::Precommit { .. } => "precommit", Op::Advance { .. } => "advance",
            };
            rep.ops += 1;
            rep.op(opname);
            if res.ok() { rep.ops_ok += 1; } else { rep.err(&format!("{}:{}", opname, exit_class(res.code))); }
            let mut line = bl.line.clone();
            let mut withdrawn = None;
            if let Op::Withdraw { .. } = op {
                // environment answer: did every call the miner made to other actors succeed?
                let rest_ok = traces.last().map(subcalls_ok).unwrap_or(true);
                line = format!("{} {}", line, b01(rest_ok));
                if res.ok() {
                    let wr: WithdrawBalanceReturn = res.ret.clone().unwrap().deserialize().unwrap();
                    withdrawn = Some(wr.amount_withdrawn);
                }
            }
            if !line.is_empty() { lines.push(line.clone()); } else { lines.push(format!("# {:?} -> {}", op, if res.ok() { "ok" } else { "err" })); }
            if res.panicked {
                let path = write_replay("C13", &format!("{}-{}", cfg.seed, seq), &replay_hdr("panic"), &lines);
                rep.violations.push(Violation { kind: "panic".into(), detail: res.message.clone(), replay: path });
                continue 'seqs;
            }
            if let Op::Precommit { caller: crole } = &op {
                if res.ok() { e.next_sector.set(e.next_sector.get() + 1); rep.branch("deadline-cron-activated-or-kept"); }
                let cid = e.roles[*crole].0.id().unwrap();
                let controlling = cid == before.owner || cid == before.worker || before.controls.contains(&cid);
                if (res.ok() && !controlling) || after != before {
                    let path = write_replay("C13", &format!("{}-{}", cfg.seed, seq), &replay_hdr("precommit"), &lines);
                    rep.violations.push(Violation { kind: "control-method-by-outsider-or-record-changed".into(), detail: format!("caller {} ok={} {}", cid, res.ok(), show(&before)), replay: path });
                    continue 'seqs;
                }
                continue;
            }
            let ben_delta = e.w.balance(&ben_addr) - ben_bal_before;
            if let Some((k, d)) = oracle(&e, &mut log, &op, Some(caller), epoch, res.ok(), &before, &after, &ben_delta, withdrawn.clone()) {
                let path = write_replay("C13", &format!("{}-{}", cfg.seed, seq), &replay_hdr(&k), &lines);
                rep.violations.push(Violation { kind: k, detail: d, replay: path });
                continue 'seqs;
            }
            if after.owner != before.owner { n_owner += 1; nontrivial = true; rep.branch("owner-handover"); }
            if after.worker != before.worker { n_worker += 1; nontrivial = true; rep.branch("worker-installed-by-confirm"); }
            if after.beneficiary != before.beneficiary { n_ben += 1; nontrivial = true; rep.branch("beneficiary-handover"); }
            if after.pending_ben.is_some() && before.pending_ben != after.pending_ben { rep.branch("beneficiary-proposal-or-approval"); }
            if after.used != before.used && after.beneficiary == before.beneficiary { rep.branch("quota-used"); }
            // rights probes on a rolled-back state: after every change of the record, else 1 in 8
            if after != before || r.chance(1, 8) {
                n_probe += 1;
                if let Some((k, d)) = probe_rights(&e, &after, epoch) {
                    let path = write_replay("C13", &format!("{}-{}", cfg.seed, seq), &replay_hdr(&k), &lines);
                    rep.violations.push(Violation { kind: k, detail: d, replay: path });
                    continue 'seqs;
                }
            }
            if let Some(l) = lean.as_mut() {
                let m = l.ask(&line).unwrap();
                let i = if res.ok() {
                    match &withdrawn {
                        Some(wd) => format!("ok withdrawn {} | {}", wd.atto(), show(&after)),
                        None => format!("ok | {}", show(&after)),
                    }
                } else {
                    format!("err | {}", show(&after))
                };
                let m_norm = if m.starts_with("err ") {
                    format!("err | {}", m.splitn(2, " | ").nth(1).unwrap_or(""))
                } else { m.clone() };
                if m_norm != i {
                    agree = false;
                    let path = write_replay("C13", &format!("corr-{}-{}", cfg.seed, seq), &replay_hdr("model/impl disagree"), &lines);
                    rep.disagreements.push(Disagreement { seq, step, op: line.clone(), impl_out: i, model_out: m, replay: path });
                    continue 'seqs;
                }
            }
        }
        if agree && lean.is_some() { rep.traces_validated += 1; }
        if nontrivial && seen.insert(hash_lines(&lines)) { rep.distinct_nontrivial += 1; }
        if rep.samples.len() < 3 && nontrivial {
            rep.samples.push(json!({"seq": seq, "ops": lines.iter().take(14).collect::<Vec<_>>()}));
        }
    }
    rep.notes.push(format!("handovers completed on the real actor: owner {} worker {} beneficiary {}; successful miner cron callbacks {}; rights-probe rounds {} (3 methods x 6 roles each, on a rolled-back state)", n_owner, n_worker, n_ben, n_cron_cb, n_probe));
    rep.notes.push("a pending worker-key change cannot be withdrawn by anyone (a second ChangeWorkerAddress leaves it untouched); the confirming new owner drops the old owner's pending beneficiary proposal; a freshly created miner has no deadline cron until its first pre-commit, so until then only ConfirmChangeWorkerAddress installs a pending key".into());
    rep
}
