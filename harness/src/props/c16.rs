//! C16 — payment channel: vouchers redeem once, payout exact.
//! Real paych actor in the vvm ⇄ Lean `BA.Paych` model, plus an independent oracle.
use super::{RunCfg, hash_lines, seq_rng};
use crate::lean::LeanDriver;
use crate::report::{Disagreement, Report, Violation, write_replay};
use crate::rng::Rng;
use crate::world::{World, exit_class, sign};
use fil_actor_paych::{
    ConstructorParams, LaneState, Merge, Method, ModVerifyParams, SignedVoucher, State,
    UpdateChannelStateParams,
};
use fil_actors_runtime::{Array, INIT_ACTOR_ADDR};
use fvm_ipld_encoding::RawBytes;
use fvm_shared::address::Address;
use fvm_shared::crypto::signature::{Signature, SignatureType};
use fvm_shared::econ::TokenAmount;
use fvm_shared::METHOD_SEND;
use num_traits::Zero;
use serde_json::json;
use std::collections::{BTreeMap, HashSet};
use vm_api::VM;


/// the protocol's settlement delay as the property states it (12 hours of 30 s epochs)
const SPEC_SETTLE_DELAY: i64 = 1440;

struct Chan {
    w: World,
    paych: Address,
    paych_robust: Address,
    from: (Address, Address),
    to: (Address, Address),
    stranger: (Address, Address),
}

fn atto(n: i64) -> TokenAmount {
    TokenAmount::from_atto(n)
}

fn setup(deposit: i64, key_form: bool) -> Chan {
    let w = World::new(true);
    let accts = w.create_accounts(3, 4242, &TokenAmount::from_whole(1000));
    let (from, to, stranger) = (accts[0], accts[1], accts[2]);
    // the parties may be named by their key addresses at construction (the actor resolves and stores ids)
    let ctor = if key_form { ConstructorParams { from: from.1, to: to.1 } } else { ConstructorParams { from: from.0, to: to.0 } };
    let r = w.apply(
        &from.0,
        &INIT_ACTOR_ADDR,
        &atto(deposit),
        fil_actor_init::Method::Exec as u64,
        Some(fil_actor_init::ExecParams {
            code_cid: *fil_actors_runtime::test_utils::PAYCH_ACTOR_CODE_ID,
            constructor_params: fvm_ipld_encoding::RawBytes::serialize(&ctor).unwrap(),
        }),
    );
    assert!(r.ok(), "paych creation failed: {:?}", r);
    let ret: fil_actor_init::ExecReturn = r.ret.unwrap().deserialize().unwrap();
    Chan { w, paych: ret.id_address, paych_robust: ret.robust_address, from, to, stranger }
}

#[derive(Clone, Debug, Default)]
struct Proj {
    dead: bool,
    to_send: TokenAmount,
    settling_at: i64,
    min_settle: i64,
    balance: TokenAmount,
    lanes: BTreeMap<u64, (TokenAmount, u64)>,
}

fn project(c: &Chan) -> Proj {
    match c.w.vm.actor(&c.paych) {
        None => Proj { dead: true, ..Default::default() },
        Some(a) => {
            let st: State = vm_api::util::get_state(&c.w.vm, &c.paych).unwrap();
            let arr: Array<LaneState, _> = Array::load(&st.lane_states, c.w.vm.store.as_ref()).unwrap();
            let mut lanes = BTreeMap::new();
            arr.for_each(|i, l| {
                lanes.insert(i, (l.redeemed.clone(), l.nonce));
                Ok(())
            })
            .unwrap();
            Proj {
                dead: false,
                to_send: st.to_send,
                settling_at: st.settling_at,
                min_settle: st.min_settle_height,
                balance: a.balance,
                lanes,
            }
        }
    }
}

fn show(p: &Proj) -> String {
    if p.dead {
        return "dead".into();
    }
    let lanes: Vec<String> =
        p.lanes.iter().map(|(k, (r, n))| format!("{}:{}:{}", k, r.atto(), n)).collect();
    format!(
        "0 {} {} {} {} {}",
        p.to_send.atto(),
        p.settling_at,
        p.min_settle,
        p.balance.atto(),
        if lanes.is_empty() { "-".to_string() } else { lanes.join(",") }
    )
}

#[derive(Clone, Debug)]
enum Op {
    Update {
        caller: u8, // 0 from, 1 to, 2 stranger
        signer: u8, // 0 from, 1 to, 2 stranger, 3 none
        value: i64,
        chan: u8,   // 0 id addr, 1 robust addr, 2 wrong
        tl_min: i64,
        tl_max: i64,
        amount: i64,
        secret: u8, // 0 none, 1 right, 2 wrong, 3 too long
        extra: u8,  // 0 none, 1 ok, 2 fail
        lane: u64,
        nonce: u64,
        min_settle: i64,
        merges: Vec<(u64, u64)>,
    },
    Settle { caller: u8, value: i64 },
    Collect { caller: u8, value: i64 },
    Deposit { value: i64 },
    Advance { to_epoch: i64 },
}

fn party(c: &Chan, who: u8) -> (Address, Address) {
    match who {
        0 => c.from,
        1 => c.to,
        _ => c.stranger,
    }
}

/// Generate the next op from the current implementation state (valid-biased + perturbations).
fn gen_op(r: &mut Rng, p: &Proj, epoch: i64) -> Op {
    let k = r.below(100);
    let caller = if r.chance(11, 12) { r.below(2) as u8 } else { 2 };
    let value = if r.chance(1, 8) { r.range(0, 50) } else { 0 };
    if k < 8 {
        return Op::Deposit { value: r.range(0, 400) };
    }
    if k < 20 {
        // move time; biased to the settling boundary
        let e = if p.settling_at != 0 && r.chance(1, 2) {
            p.settling_at + r.range(-2, 2)
        } else {
            epoch + r.range(0, 30) * r.range(1, 60)
        };
        return Op::Advance { to_epoch: e.max(epoch) };
    }
    if k < 27 {
        return Op::Settle { caller, value };
    }
    if k < 33 {
        return Op::Collect { caller, value };
    }
    // voucher: with probability 1/2 fully valid, otherwise each dimension perturbed independently
    let clean = r.chance(1, 2);
    let lane_pool: [u64; 6] = [0, 1, 2, 3, 7, (i64::MAX as u64)];
    let lane = if !clean && r.chance(1, 40) { (i64::MAX as u64) + 1 } else { *r.pick(&lane_pool) };
    let cur = p.lanes.get(&lane).cloned();
    let cur_nonce = cur.as_ref().map(|x| x.1).unwrap_or(0);
    let nonce = match if clean { 9 } else { r.below(10) } {
        0 => cur_nonce,                   // equal: stale
        1 => cur_nonce.saturating_sub(1), // lower: stale
        2 => cur_nonce + 1 + r.below(5),
        _ => cur_nonce + 1,
    };
    let avail = (p.balance.atto() - p.to_send.atto()).to_string().parse::<i64>().unwrap_or(0);
    let cur_red = cur.as_ref().map(|x| x.0.atto().to_string().parse::<i64>().unwrap_or(0)).unwrap_or(0);
    // the VM credits the attached value before the actor runs: boundaries are relative to balance + value
    let avail = avail + value;
    let amount = match if clean { 5 + r.below(7) } else { r.below(12) } {
        0 => -r.range(1, 10),                   // negative
        1 => cur_red - r.range(0, cur_red.max(1)), // decreasing voucher
        2 => cur_red + avail + match r.below(4) { 0 => 0, 1 => 1, 2 => value, _ => value + 1 }, // at/over the balance boundary
        3 => cur_red + avail,
        4 => 0,
        _ => cur_red + r.range(0, (avail / 3).max(1)),
    };
    // merges: mostly existing other lanes with fresh nonces
    let mut merges = vec![];
    if r.chance(1, 3) {
        let existing: Vec<u64> = p.lanes.keys().cloned().filter(|l| *l != lane).collect();
        let n = r.below(3) + 1;
        for _ in 0..n {
            let ml = if !existing.is_empty() && (clean || r.chance(5, 6)) {
                *r.pick(&existing)
            } else if clean {
                continue;
            } else if r.chance(1, 2) {
                lane // own lane: rejected
            } else {
                *r.pick(&lane_pool)
            };
            let mcur = p.lanes.get(&ml).map(|x| x.1).unwrap_or(0);
            let mn = match if clean { 7 } else { r.below(8) } {
                0 => mcur,
                1 => mcur.saturating_sub(1),
                _ => mcur + 1 + r.below(3),
            };
            merges.push((ml, mn));
        }
        if !clean && r.chance(1, 10) && !merges.is_empty() {
            // the same lane twice in one voucher
            let d = merges[0];
            merges.push((d.0, d.1 + 1 + r.below(2)));
        }
    }
    let other = if caller == 0 { 1 } else { 0 };
    let signer = match if clean { 13 } else { r.below(14) } {
        0 => caller.min(2), // signed by the submitting party itself
        1 => 2,             // stranger
        2 => 3,             // no signature
        _ => other,
    };
    let chan = match if clean { 1 + r.below(13) } else { r.below(14) } {
        0 => 2,
        1 | 2 => 1,
        _ => 0,
    };
    let (tl_min, tl_max) = match if clean { 2 + r.below(8) } else { r.below(10) } {
        0 => (epoch + 1 + r.range(0, 5), 0),
        1 => (0, (epoch - 1 - r.range(0, 5)).max(1)),
        2 => (epoch, epoch),
        3 => (epoch - 3, epoch + 3),
        _ => (0, 0),
    };
    let secret = match if clean { 2 + r.below(10) } else { r.below(12) } {
        0 => 2,
        1 => 3,
        2 | 3 => 1,
        _ => 0,
    };
    let extra = match if clean { 1 + r.below(11) } else { r.below(12) } {
        0 => 2,
        1 | 2 => 1,
        _ => 0,
    };
    let min_settle = match r.below(8) {
        0 => epoch + r.range(0, 4000),
        1 => p.settling_at + r.range(-3, 3),
        2 => p.min_settle + r.range(-3, 3),
        _ => 0,
    }
    .max(0);
    Op::Update {
        caller, signer, value, chan, tl_min, tl_max, amount, secret, extra, lane, nonce,
        min_settle, merges,
    }
}

const SECRET: &[u8] = b"the-secret";

struct Built {
    line: String,
    exec: Option<(Address, Address, TokenAmount, u64, Option<fvm_ipld_encoding::ipld_block::IpldBlock>)>,
}

/// Turn an abstract op into (Lean line, real message).
fn build(c: &Chan, op: &Op, epoch: i64) -> Built {
    match op {
        Op::Deposit { value } => Built {
            line: format!("deposit {}", value),
            exec: Some((c.stranger.0, c.paych, atto(*value), METHOD_SEND, None)),
        },
        Op::Advance { .. } => Built { line: String::new(), exec: None },
        Op::Settle { caller, value } => Built {
            line: format!("settle {} {} {}", party(c, *caller).0.id().unwrap(), epoch, value),
            exec: Some((party(c, *caller).0, c.paych, atto(*value), Method::Settle as u64, None)),
        },
        Op::Collect { caller, value } => Built {
            line: format!("collect {} {} {}", party(c, *caller).0.id().unwrap(), epoch, value),
            exec: Some((party(c, *caller).0, c.paych, atto(*value), Method::Collect as u64, None)),
        },
        Op::Update {
            caller, signer, value, chan, tl_min, tl_max, amount, secret, extra, lane, nonce,
            min_settle, merges,
        } => {
            let channel_addr = match chan {
                0 => c.paych,
                1 => c.paych_robust,
                _ => c.stranger.0,
            };
            let pre_image = if *secret == 0 {
                vec![]
            } else {
                c.w.vm.primitives().hash_blake2b(SECRET).to_vec()
            };
            let secret_bytes = match secret {
                1 => SECRET.to_vec(),
                2 => b"not-the-secret".to_vec(),
                3 => vec![7u8; 257],
                _ => vec![],
            };
            let extra_p = match extra {
                0 => None,
                // an account actor accepts any exported method number and rejects method 5
                1 => Some(ModVerifyParams { actor: c.stranger.0, method: 1 << 24, data: RawBytes::default() }),
                _ => Some(ModVerifyParams { actor: c.stranger.0, method: 5, data: RawBytes::default() }),
            };
            let mut sv = SignedVoucher {
                channel_addr,
                time_lock_min: *tl_min,
                time_lock_max: *tl_max,
                secret_pre_image: pre_image,
                extra: extra_p,
                lane: *lane,
                nonce: *nonce,
                amount: atto(*amount),
                min_settle_height: *min_settle,
                merges: merges.iter().map(|(l, n)| Merge { lane: *l, nonce: *n }).collect(),
                signature: None,
            };
            if *signer != 3 {
                let key = party(c, *signer).1;
                let bytes = sign(&key, &sv.signing_bytes().unwrap());
                sv.signature = Some(Signature { sig_type: SignatureType::BLS, bytes });
            }
            let required = if *caller == 0 { 1u8 } else { 0u8 }; // code: caller==from → to, else from
            let sig_ok = *signer == required;
            let merges_s = if merges.is_empty() {
                "-".to_string()
            } else {
                merges.iter().map(|(l, n)| format!("{}:{}", l, n)).collect::<Vec<_>>().join(",")
            };
            let line = format!(
                "update {} {} {} {} {} {} {} {} {} {} {} {} {} {} {} {}",
                party(c, *caller).0.id().unwrap(),
                epoch,
                value,
                (*signer != 3) as u8,
                sig_ok as u8,
                (*secret == 3) as u8,
                (*chan != 2) as u8,
                tl_min,
                tl_max,
                amount,
                (*secret == 0 || *secret == 1 || *secret == 3) as u8,
                extra,
                lane,
                nonce,
                min_settle,
                merges_s
            );
            let params = UpdateChannelStateParams { sv, secret: secret_bytes };
            Built {
                line,
                exec: Some((
                    party(c, *caller).0,
                    c.paych,
                    atto(*value),
                    Method::UpdateChannelState as u64,
                    fvm_ipld_encoding::ipld_block::IpldBlock::serialize_cbor(&params).unwrap(),
                )),
            }
        }
    }
}

/// Independent oracle: checks the property statement on the implementation's states.
fn oracle(c: &Chan, op: &Op, epoch: i64, ok: bool, before: &Proj, after: &Proj,
          bal_before: (TokenAmount, TokenAmount), notes: &mut Vec<String>) -> Option<(String, String)> {
    if !ok {
        if show(before) != show(after) {
            return Some(("failed-message-changed-state".into(), format!("{} -> {}", show(before), show(after))));
        }
        return None;
    }
    if !after.dead {
        if after.to_send.is_negative() || after.to_send > after.balance {
            return Some(("owed-outside-0-balance".into(), format!("to_send={} balance={}", after.to_send.atto(), after.balance.atto())));
        }
        for (l, (_, n)) in before.lanes.iter() {
            match after.lanes.get(l) {
                None => return Some(("lane-disappeared".into(), format!("lane {}", l))),
                Some((_, n2)) if n2 < n => return Some(("lane-nonce-decreased".into(), format!("lane {} {} -> {}", l, n, n2))),
                _ => {}
            }
        }
        if before.settling_at != 0 && after.settling_at < before.settling_at {
            return Some(("settling-at-decreased".into(), format!("{} -> {}", before.settling_at, after.settling_at)));
        }
        if after.min_settle < before.min_settle {
            return Some(("min-settle-decreased".into(), format!("{} -> {}", before.min_settle, after.min_settle)));
        }
    }
    match op {
        Op::Update { caller, signer, chan, tl_min, tl_max, amount, secret, extra, lane, nonce, min_settle, merges, .. } => {
            let required = if *caller == 0 { 1u8 } else { 0u8 };
            if *caller > 1 { return Some(("voucher-accepted-from-outsider".into(), String::new())); }
            if *signer != required { return Some(("voucher-accepted-without-other-partys-signature".into(), format!("signer={} caller={}", signer, caller))); }
            if *chan == 2 { return Some(("voucher-for-other-channel-accepted".into(), String::new())); }
            if epoch < *tl_min || (*tl_max != 0 && epoch > *tl_max) { return Some(("voucher-outside-time-lock-accepted".into(), format!("epoch={} lock=[{},{}]", epoch, tl_min, tl_max))); }
            if *secret == 2 { return Some(("voucher-with-wrong-secret-accepted".into(), String::new())); }
            if *extra == 2 { return Some(("voucher-with-failed-extra-accepted".into(), String::new())); }
            if *amount < 0 { return Some(("negative-voucher-accepted".into(), String::new())); }
            if before.settling_at != 0 && epoch >= before.settling_at { return Some(("voucher-accepted-after-settling".into(), format!("epoch={} settling_at={}", epoch, before.settling_at))); }
            if let Some((_, n)) = before.lanes.get(lane) {
                if *nonce <= *n { return Some(("stale-nonce-accepted".into(), format!("lane {} nonce {} <= {}", lane, nonce, n))); }
            }
            let mut seen = HashSet::new();
            let mut dup = false;
            let mut red_others = TokenAmount::zero();
            for (ml, mn) in merges {
                if ml == lane { return Some(("merge-into-own-lane-accepted".into(), String::new())); }
                match before.lanes.get(ml) {
                    None => return Some(("merge-of-unknown-lane-accepted".into(), format!("lane {}", ml))),
                    Some((red, n)) => {
                        if mn <= n { return Some(("stale-merge-nonce-accepted".into(), format!("lane {} nonce {} <= {}", ml, mn, n))); }
                        if seen.insert(*ml) { red_others += red; } else { dup = true; }
                    }
                }
            }
            if dup {
                notes.push("voucher merging the same lane twice accepted (redeemed amount subtracted per list entry)".into());
            } else {
                let own = before.lanes.get(lane).map(|x| x.0.clone()).unwrap_or_default();
                let expect = &before.to_send + atto(*amount) - own - red_others;
                if after.to_send != expect {
                    return Some(("owed-delta-wrong".into(), format!("to_send {} -> {}, expected {}", before.to_send.atto(), after.to_send.atto(), expect.atto())));
                }
                match after.lanes.get(lane) {
                    Some((red, n)) if *red == atto(*amount) && n == nonce => {}
                    x => return Some(("lane-not-updated".into(), format!("{:?}", x))),
                }
                for (ml, mn) in merges {
                    if after.lanes.get(ml).map(|x| x.1) != Some(*mn) {
                        return Some(("merged-lane-nonce-not-updated".into(), format!("lane {}", ml)));
                    }
                }
            }
            if *min_settle != 0 && after.min_settle < *min_settle { return Some(("min-settle-not-extended".into(), String::new())); }
            if *min_settle != 0 && after.settling_at != 0 && after.settling_at < *min_settle { return Some(("settling-at-below-voucher-min-settle".into(), String::new())); }
        }
        Op::Settle { caller, .. } => {
            if *caller > 1 { return Some(("settle-by-outsider".into(), String::new())); }
            if before.settling_at != 0 { return Some(("settle-twice".into(), String::new())); }
            if after.settling_at < epoch + SPEC_SETTLE_DELAY || after.settling_at < before.min_settle {
                return Some(("settling-at-too-early".into(), format!("epoch={} settling_at={} min_settle={}", epoch, after.settling_at, before.min_settle)));
            }
        }
        Op::Collect { caller, value } => {
            if *caller > 1 { return Some(("collect-by-outsider".into(), String::new())); }
            if before.settling_at == 0 || epoch < before.settling_at { return Some(("collect-before-settlement".into(), format!("epoch={} settling_at={}", epoch, before.settling_at))); }
            if !after.dead { return Some(("collect-left-actor".into(), String::new())); }
            let (fb, tb) = (c.w.balance(&c.from.0), c.w.balance(&c.to.0));
            let mut d_from = fb - bal_before.0;
            let mut d_to = tb - bal_before.1;
            // the caller paid `value` into the channel with the message
            if *caller == 0 { d_from += atto(*value); } else { d_to += atto(*value); }
            let total = &before.balance + atto(*value);
            if d_to != before.to_send || d_from != &total - &before.to_send {
                return Some(("collect-payout-wrong".into(), format!("payee got {} (owed {}), payer got {} (expected {})", d_to.atto(), before.to_send.atto(), d_from.atto(), (&total - &before.to_send).atto())));
            }
        }
        _ => {}
    }
    None
}

pub fn run(cfg: &RunCfg) -> Report {
    run_as(cfg, "C16", None)
}

/// The same campaign reported under another property id (C01 uses it for payment-channel
/// solvency: the oracle kinds that are about funds), optionally with a fixed number of sequences
/// and without the Lean driver.
pub fn run_as(cfg: &RunCfg, prop: &'static str, fixed_seqs: Option<u64>) -> Report {
    let mut rep = Report::new(prop, cfg.seed, &cfg.tier);
    rep.nontrivial_rule = "a sequence is non-trivial when at least one voucher was accepted and changed the amount owed or a lane; distinct = distinct hash of the op lines".into();
    let (nseq, maxlen) = if cfg.thorough() { (5000u64, 400u64) } else { (300, 60) };
    let nseq = fixed_seqs.unwrap_or(nseq * cfg.budget);
    let mut lean = if cfg.use_lean && fixed_seqs.is_none() { Some(LeanDriver::spawn("paych").expect("lean driver")) } else { None };
    let mut seen = HashSet::new();
    let seqs: Vec<u64> = match cfg.only_seq { Some(k) => vec![k], None => (0..nseq).collect() };
    'seqs: for seq in seqs {
        let mut r = seq_rng(cfg.seed, seq);
        let deposit = r.range(0, 1000);
        let c = setup(deposit, seq % 2 == 1);
        let mut epoch: i64 = r.range(0, 20);
        c.w.vm.set_epoch(epoch);
        let mut lines: Vec<String> = vec![];
        let init_line = format!("init {} {}", c.from.0.id().unwrap(), c.to.0.id().unwrap());
        lines.push(init_line.clone());
        lines.push(format!("deposit {}", deposit));
        let mut agree = true;
        if let Some(l) = lean.as_mut() {
            l.ask(&init_line).unwrap();
            let m = l.ask(&format!("deposit {}", deposit)).unwrap();
            let i = format!("ok | {}", show(&project(&c)));
            if m != i {
                agree = false;
                rep.disagreements.push(Disagreement { seq, step: 0, op: "create".into(), impl_out: i, model_out: m, replay: String::new() });
            }
        }
        rep.sequences += 1;
        let len = r.range(5, maxlen as i64) as u64;
        let mut nontrivial = false;
        let mut dead_ops = 0;
        for step in 0..len {
            let before = project(&c);
            if before.dead {
                dead_ops += 1;
                if dead_ops > 3 { break; }
            }
            let op = gen_op(&mut r, &before, epoch);
            if let Op::Advance { to_epoch } = op {
                epoch = to_epoch;
                c.w.vm.set_epoch(epoch);
                lines.push(format!("# epoch {}", epoch));
                rep.op("advance");
                continue;
            }
            let b = build(&c, &op, epoch);
            let (from, to, value, method, params) = b.exec.clone().unwrap();
            let bal_before = (c.w.balance(&c.from.0), c.w.balance(&c.to.0));
            let total_before = c.w.total_balance();
            let res = c.w.apply_raw(&from, &to, &value, method, params);
            let after = project(&c);
            rep.ops += 1;
            let opname = b.line.split(' ').next().unwrap().to_string();
            rep.op(&opname);
            lines.push(b.line.clone());
            if res.ok() { rep.ops_ok += 1; } else { rep.err(&format!("{}:{}", opname, exit_class(res.code))); }
            let replay_hdr = vec![
                format!("property {} (payment channel campaign) seed {} seq {} (re-run: ba_harness {} --seed {} --only-seq {})", prop, cfg.seed, super::seq_label(seq), prop.to_lowercase(), cfg.seed, super::seq_label(seq)),
                format!("failing step {}: {:?}", step, op),
            ];
            if res.panicked {
                let path = write_replay(prop, &format!("paych-{}-{}", cfg.seed, seq), &replay_hdr, &lines);
                rep.violations.push(Violation { kind: "panic".into(), detail: res.message.clone(), replay: path });
                continue 'seqs;
            }
            if c.w.total_balance() != total_before {
                let path = write_replay(prop, &format!("paych-{}-{}", cfg.seed, seq), &replay_hdr, &lines);
                rep.violations.push(Violation { kind: "fil-not-conserved".into(), detail: String::new(), replay: path });
                continue 'seqs;
            }
            let mut notes = vec![];
            if let Some((kind, detail)) = oracle(&c, &op, epoch, res.ok(), &before, &after, bal_before, &mut notes) {
                let path = write_replay(prop, &format!("paych-{}-{}", cfg.seed, seq), &replay_hdr, &lines);
                rep.violations.push(Violation { kind, detail, replay: path });
                continue 'seqs;
            }
            for n in notes { if !rep.notes.contains(&n) { rep.notes.push(n); } }
            if res.ok() && matches!(op, Op::Update { .. }) && show(&before) != show(&after) { nontrivial = true; }
            if let Some(l) = lean.as_mut() {
                let m = l.ask(&b.line).unwrap();
                let paid = if matches!(op, Op::Collect { .. }) && res.ok() {
                    let total = &before.balance + &value;
                    format!(" paid {} {}", before.to_send.atto(), (&total - &before.to_send).atto())
                } else { String::new() };
                let i = if res.ok() { format!("ok{} | {}", paid, show(&after)) } else { format!("err | {}", show(&after)) };
                // compare ok/err + projection; the error class is informational
                let m_norm = if m.starts_with("err ") {
                    let rest = m.splitn(2, " | ").nth(1).unwrap_or("");
                    format!("err | {}", rest)
                } else { m.clone() };
                if m_norm != i {
                    agree = false;
                    let path = write_replay("C16", &format!("corr-{}-{}", cfg.seed, seq), &replay_hdr, &lines);
                    rep.disagreements.push(Disagreement { seq, step, op: b.line.clone(), impl_out: i, model_out: m, replay: path });
                    continue 'seqs;
                }
            }
        }
        if agree && lean.is_some() { rep.traces_validated += 1; }
        if nontrivial && seen.insert(hash_lines(&lines)) { rep.distinct_nontrivial += 1; }
        if rep.samples.len() < 3 && nontrivial {
            rep.samples.push(json!({"seq": seq, "ops": lines.iter().take(12).collect::<Vec<_>>()}));
        }
    }
    rep
}
