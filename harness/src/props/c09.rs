//! C09 — DataCap is conserved and each allocation is spent exactly once.
//! C10 — verified claims back QA power and obey their terms (shared world, oracle and model;
//! the sector-extension scenarios live in `c10.rs`).
//! Real verifreg + datacap (+ market, miners) in the vvm ⇄ Lean `BA.Verifreg` model ("verifreg"
//! driver), plus an independent oracle evaluated on the real state after every message.
use super::{RunCfg, hash_lines, seq_rng};
use crate::lean::LeanDriver;
use crate::report::{Disagreement, Report, Violation, write_replay};
use crate::rng::Rng;
use crate::world::{Applied, World, exit_class};
use cid::Cid;
use fil_actor_datacap::{DestroyParams, Method as DcMethod, MintParams, State as DcState};
use fil_actor_verifreg::state::{REMOVE_DATACAP_PROPOSALS_CONFIG, RemoveDataCapProposalMap};
use fil_actor_verifreg::{
    AddrPairKey, AllocationClaim, AllocationRequest, AllocationRequests, AllocationsResponse,
    ClaimAllocationsParams, ClaimAllocationsReturn, ClaimExtensionRequest, ClaimTerm,
    ExtendClaimTermsParams, Method as VrMethod, RemoveDataCapParams, RemoveDataCapProposal,
    RemoveDataCapProposalID, RemoveDataCapRequest, RemoveDataCapReturn,
    RemoveExpiredAllocationsParams, RemoveExpiredAllocationsReturn, RemoveExpiredClaimsParams,
    RemoveExpiredClaimsReturn, RemoveVerifierParams, SIGNATURE_DOMAIN_SEPARATION_REMOVE_DATA_CAP,
    SectorAllocationClaims, State as VrState, VerifierParams,
};
use fil_actors_runtime::test_utils::make_piece_cid;
use fil_actors_runtime::{
    BatchReturn, DATACAP_TOKEN_ACTOR_ADDR, STORAGE_POWER_ACTOR_ADDR,
    VERIFIED_REGISTRY_ACTOR_ADDR, parse_uint_key,
};
use frc46_token::token::state::decode_actor_id;
use frc46_token::token::types::{
    BurnFromParams, BurnParams, DecreaseAllowanceParams, IncreaseAllowanceParams,
    RevokeAllowanceParams, TransferFromParams, TransferFromReturn, TransferParams, TransferReturn,
};
use fvm_ipld_encoding::RawBytes;
use fvm_ipld_encoding::ipld_block::IpldBlock;
use fvm_shared::address::Address;
use fvm_shared::bigint::BigInt;
use fvm_shared::crypto::signature::{Signature, SignatureType};
use fvm_shared::econ::TokenAmount;
use fvm_shared::piece::PaddedPieceSize;
use fvm_shared::sector::RegisteredPoStProof;
use num_traits::{Signed, Zero};
use serde_json::json;
use std::collections::{BTreeMap, BTreeSet, HashMap, HashSet};
use vm_api::VM;
use vm_api::trace::InvocationTrace;
use vm_api::util::DynBlockstore;

pub const ROOT_ID: u64 = 101;
pub const MARKET_ID: u64 = 5;
pub const VERIFREG_ID: u64 = 6;
pub const DATACAP_ID: u64 = 7;
/// specified policy values (the property statement's numbers)
pub const MIN_ALLOC_SIZE: i64 = 1 << 20;
pub const MIN_TERM: i64 = 180 * 2880;
pub const MAX_TERM: i64 = 5 * (31556925 / 30);
pub const MAX_ALLOC_EXP: i64 = 60 * 2880;

pub fn prec() -> BigInt {
    BigInt::from(1_000_000_000_000_000_000u64)
}

pub struct Sys {
    pub w: World,
    /// id addresses of the account pool
    pub accounts: Vec<Address>,
    pub keys: Vec<Address>,
    pub miners: Vec<Address>,
    pub cids: Vec<Cid>,
    pub cid_idx: HashMap<Cid, u64>,
}

#[derive(Clone, Debug, PartialEq, Eq)]
pub struct Alloc {
    pub client: u64,
    pub provider: u64,
    pub data: u64,
    pub size: i64,
    pub term_min: i64,
    pub term_max: i64,
    pub expiration: i64,
}

#[derive(Clone, Debug, PartialEq, Eq)]
pub struct Clm {
    pub provider: u64,
    pub client: u64,
    pub data: u64,
    pub size: i64,
    pub term_min: i64,
    pub term_max: i64,
    pub term_start: i64,
    pub sector: u64,
}

#[derive(Clone, Debug, Default, PartialEq, Eq)]
pub struct Proj {
    pub supply: BigInt,
    pub balances: BTreeMap<u64, BigInt>,
    pub allowances: BTreeMap<(u64, u64), BigInt>,
    pub verifiers: BTreeMap<u64, BigInt>,
    pub next: u64,
    pub allocs: BTreeMap<u64, Alloc>,
    pub claims: BTreeMap<u64, Clm>,
}

pub const N_DATA: u64 = 12;

pub fn setup(n_accounts: u64, n_miners: usize) -> Sys {
    let w = World::new(false);
    let accts = w.create_accounts(n_accounts, 90909, &TokenAmount::from_whole(100_000));
    let accounts: Vec<Address> = accts.iter().map(|a| a.0).collect();
    let keys: Vec<Address> = accts.iter().map(|a| a.1).collect();
    let mut miners = vec![];
    for i in 0..n_miners {
        let owner = accounts[i % accounts.len()];
        let params = fil_actor_power::CreateMinerParams {
            owner,
            worker: owner,
            window_post_proof_type: RegisteredPoStProof::StackedDRGWindow32GiBV1P1,
            peer: b"miner".to_vec(),
            multiaddrs: vec![],
        };
        let r = w.apply(
            &owner,
            &STORAGE_POWER_ACTOR_ADDR,
            &TokenAmount::from_whole(5_000),
            fil_actor_power::Method::CreateMiner as u64,
            Some(params),
        );
        assert!(r.ok(), "CreateMiner failed: {:?}", r);
        let ret: fil_actor_power::CreateMinerReturn = r.ret.unwrap().deserialize().unwrap();
        miners.push(ret.id_address);
    }
    let cids: Vec<Cid> = (0..N_DATA).map(|k| make_piece_cid(format!("p{}", k).as_bytes())).collect();
    let cid_idx = cids.iter().enumerate().map(|(i, c)| (*c, i as u64)).collect();
    w.take_trace();
    Sys { w, accounts, keys, miners, cids, cid_idx }
}

impl Sys {
    pub fn data_of(&self, c: &Cid) -> u64 {
        self.cid_idx.get(c).cloned().unwrap_or(999_999)
    }
    pub fn cid_of(&self, k: u64) -> Cid {
        if (k as usize) < self.cids.len() { self.cids[k as usize] } else { make_piece_cid(format!("x{}", k).as_bytes()) }
    }
    /// `init` line of the Lean driver: root + kinds of every actor of the world
    pub fn init_line(&self) -> String {
        let mut v: Vec<String> = vec![];
        for id in [0u64, 1, 2, 3, 4, 5, 6, 7, 10] {
            v.push(format!("{}:o", id));
        }
        for id in [99u64, 100, 101, 102] {
            v.push(format!("{}:a", id));
        }
        for a in &self.accounts {
            v.push(format!("{}:a", a.id().unwrap()));
        }
        for m in &self.miners {
            v.push(format!("{}:m", m.id().unwrap()));
        }
        format!("init {} {}", ROOT_ID, v.join(","))
    }
}

fn to_i64(b: &BigInt) -> i64 {
    b.to_string().parse::<i64>().unwrap_or(i64::MAX)
}

pub fn project(s: &Sys) -> Proj {
    let vm = &s.w.vm;
    let bs = DynBlockstore::wrap(vm.blockstore());
    let mut p = Proj::default();
    // datacap ledger
    let dc: DcState = vm_api::util::get_state(vm, &DATACAP_TOKEN_ACTOR_ADDR).unwrap();
    p.supply = dc.token.supply.atto().clone();
    let bm = dc.token.get_balance_map(&bs).unwrap();
    bm.for_each(|k, v| {
        let id = decode_actor_id(k).unwrap();
        if !v.is_zero() {
            p.balances.insert(id, v.atto().clone());
        }
        Ok(())
    })
    .unwrap();
    // allowances over the pool of possible owners × operators
    let mut owners: Vec<u64> = s.accounts.iter().map(|a| a.id().unwrap()).collect();
    owners.extend(s.miners.iter().map(|a| a.id().unwrap()));
    let mut operators = owners.clone();
    operators.push(MARKET_ID);
    operators.push(VERIFREG_ID);
    for o in &owners {
        for q in &operators {
            let a = dc.token.get_allowance_between(&bs, *o, *q).unwrap();
            if !a.is_zero() {
                p.allowances.insert((*o, *q), a.atto().clone());
            }
        }
    }
    // verifreg
    let st: VrState = vm_api::util::get_state(vm, &VERIFIED_REGISTRY_ACTOR_ADDR).unwrap();
    p.next = st.next_allocation_id;
    let vers = st.load_verifiers(&bs).unwrap();
    vers.for_each(|k, v| {
        p.verifiers.insert(k.id().unwrap(), v.0.clone());
        Ok(())
    })
    .unwrap();
    let mut allocs = st.load_allocs(&bs).unwrap();
    let mut owners_a = vec![];
    allocs
        .for_each(|k, _| {
            owners_a.push(parse_uint_key(k).unwrap());
            Ok(())
        })
        .unwrap();
    for o in owners_a {
        allocs
            .for_each_in(o, |k, a| {
                p.allocs.insert(
                    parse_uint_key(k).unwrap(),
                    Alloc {
                        client: a.client,
                        provider: a.provider,
                        data: s.data_of(&a.data),
                        size: a.size.0 as i64,
                        term_min: a.term_min,
                        term_max: a.term_max,
                        expiration: a.expiration,
                    },
                );
                Ok(())
            })
            .unwrap();
    }
    let mut claims = st.load_claims(&bs).unwrap();
    let mut owners_c = vec![];
    claims
        .for_each(|k, _| {
            owners_c.push(parse_uint_key(k).unwrap());
            Ok(())
        })
        .unwrap();
    for o in owners_c {
        claims
            .for_each_in(o, |k, c| {
                p.claims.insert(
                    parse_uint_key(k).unwrap(),
                    Clm {
                        provider: c.provider,
                        client: c.client,
                        data: s.data_of(&c.data),
                        size: c.size.0 as i64,
                        term_min: c.term_min,
                        term_max: c.term_max,
                        term_start: c.term_start,
                        sector: c.sector,
                    },
                );
                Ok(())
            })
            .unwrap();
    }
    p
}

fn lst(v: Vec<String>) -> String {
    if v.is_empty() { "-".into() } else { v.join(",") }
}

pub fn show(p: &Proj) -> String {
    let bals = lst(p.balances.iter().map(|(k, v)| format!("{}:{}", k, v)).collect());
    let allows = lst(p.allowances.iter().map(|((o, q), v)| format!("{}:{}:{}", o, q, v)).collect());
    let vers = lst(p.verifiers.iter().map(|(k, v)| format!("{}:{}", k, v)).collect());
    let allocs = lst(p
        .allocs
        .iter()
        .map(|(k, a)| {
            format!("{}:{}:{}:{}:{}:{}:{}:{}", k, a.client, a.provider, a.data, a.size, a.term_min, a.term_max, a.expiration)
        })
        .collect());
    let claims = lst(p
        .claims
        .iter()
        .map(|(k, c)| {
            format!("{}:{}:{}:{}:{}:{}:{}:{}:{}", k, c.provider, c.client, c.data, c.size, c.term_min, c.term_max, c.term_start, c.sector)
        })
        .collect());
    format!(
        "supply={} bal={} allow={} ver={} next={} allocs={} claims={}",
        p.supply, bals, allows, vers, p.next, allocs, claims
    )
}

#[derive(Clone, Debug)]
pub struct AReq {
    pub provider: u64,
    pub data: u64,
    pub size: i64,
    pub term_min: i64,
    pub term_max: i64,
    pub expiration: i64,
}
#[derive(Clone, Debug)]
pub struct EReq {
    pub provider: u64,
    pub claim: u64,
    pub term_max: i64,
}
#[derive(Clone, Debug)]
pub struct CReq {
    pub client: u64,
    pub id: u64,
    pub data: u64,
    pub size: i64,
}
#[derive(Clone, Debug)]
pub struct SReq {
    pub sector: u64,
    pub expiry: i64,
    pub claims: Vec<CReq>,
}

#[derive(Clone, Debug)]
pub enum Op {
    AddVerifier { caller: u64, addr: u64, allowance: BigInt },
    RemoveVerifier { caller: u64, addr: u64 },
    AddClient { caller: u64, client: u64, allowance: BigInt },
    RemoveDataCap { caller: u64, client: u64, v1: u64, v2: u64, sig1_ok: bool, sig2_ok: bool, amount: BigInt },
    Transfer { caller: u64, to: u64, amount: BigInt, data: Option<(Vec<AReq>, Vec<EReq>)> },
    TransferFrom { caller: u64, from: u64, to: u64, amount: BigInt, data: Option<(Vec<AReq>, Vec<EReq>)> },
    Claim { caller: u64, aon: bool, sectors: Vec<SReq> },
    RmAllocs { caller: u64, client: u64, ids: Vec<u64> },
    RmClaims { caller: u64, provider: u64, ids: Vec<u64> },
    ExtendTerms { caller: u64, terms: Vec<EReq> },
    Mint { caller: u64, to: u64, amount: BigInt },
    Destroy { caller: u64, owner: u64, amount: BigInt },
    Burn { caller: u64, amount: BigInt },
    BurnFrom { caller: u64, owner: u64, amount: BigInt },
    IncAllow { caller: u64, operator: u64, delta: BigInt },
    DecAllow { caller: u64, operator: u64, delta: BigInt },
    Revoke { caller: u64, operator: u64 },
    Advance { to_epoch: i64 },
}

impl Op {
    pub fn name(&self) -> &'static str {
        match self {
            Op::AddVerifier { .. } => "addverifier",
            Op::RemoveVerifier { .. } => "removeverifier",
            Op::AddClient { .. } => "addclient",
            Op::RemoveDataCap { .. } => "removedatacap",
            Op::Transfer { .. } => "transfer",
            Op::TransferFrom { .. } => "transferfrom",
            Op::Claim { .. } => "claim",
            Op::RmAllocs { .. } => "rmallocs",
            Op::RmClaims { .. } => "rmclaims",
            Op::ExtendTerms { .. } => "extendterms",
            Op::Mint { .. } => "mint",
            Op::Destroy { .. } => "destroy",
            Op::Burn { .. } => "burn",
            Op::BurnFrom { .. } => "burnfrom",
            Op::IncAllow { .. } => "incallow",
            Op::DecAllow { .. } => "decallow",
            Op::Revoke { .. } => "revoke",
            Op::Advance { .. } => "advance",
        }
    }
}

fn id(a: u64) -> Address {
    Address::new_id(a)
}

fn areqs_line(v: &[AReq]) -> String {
    lst(v.iter().map(|r| format!("{}:{}:{}:{}:{}:{}", r.provider, r.data, r.size, r.term_min, r.term_max, r.expiration)).collect())
}
fn ereqs_line(v: &[EReq]) -> String {
    lst(v.iter().map(|r| format!("{}:{}:{}", r.provider, r.claim, r.term_max)).collect())
}
fn data_line(d: &Option<(Vec<AReq>, Vec<EReq>)>) -> String {
    match d {
        None => "0 - -".into(),
        Some((a, e)) => format!("1 {} {}", areqs_line(a), ereqs_line(e)),
    }
}
pub fn sreqs_line(v: &[SReq]) -> String {
    if v.is_empty() {
        return "-".into();
    }
    v.iter()
        .map(|s| {
            format!(
                "{}/{}/{}",
                s.sector,
                s.expiry,
                lst(s.claims.iter().map(|c| format!("{}:{}:{}:{}", c.client, c.id, c.data, c.size)).collect())
            )
        })
        .collect::<Vec<_>>()
        .join(";")
}
fn ids_line(v: &[u64]) -> String {
    lst(v.iter().map(|x| x.to_string()).collect())
}

fn op_data(s: &Sys, d: &Option<(Vec<AReq>, Vec<EReq>)>) -> RawBytes {
    match d {
        None => RawBytes::default(),
        Some((a, e)) => RawBytes::serialize(&AllocationRequests {
            allocations: a
                .iter()
                .map(|r| AllocationRequest {
                    provider: r.provider,
                    data: s.cid_of(r.data),
                    size: PaddedPieceSize(r.size as u64),
                    term_min: r.term_min,
                    term_max: r.term_max,
                    expiration: r.expiration,
                })
                .collect(),
            extensions: e
                .iter()
                .map(|r| ClaimExtensionRequest { provider: r.provider, claim: r.claim, term_max: r.term_max })
                .collect(),
        })
        .unwrap(),
    }
}

pub struct Built {
    pub line: String,
    pub from: Address,
    pub to: Address,
    pub method: u64,
    pub params: Option<IpldBlock>,
}

fn ser<T: serde::Serialize>(t: &T) -> Option<IpldBlock> {
    IpldBlock::serialize_cbor(t).unwrap()
}

fn proposal_id(s: &Sys, verifier: u64, client: u64) -> u64 {
    let st: VrState = vm_api::util::get_state(&s.w.vm, &VERIFIED_REGISTRY_ACTOR_ADDR).unwrap();
    let bs = DynBlockstore::wrap(s.w.vm.blockstore());
    let m = RemoveDataCapProposalMap::load(&bs, &st.remove_data_cap_proposal_ids, REMOVE_DATACAP_PROPOSALS_CONFIG, "p").unwrap();
    m.get(&AddrPairKey::new(id(verifier), id(client))).unwrap().map(|p| p.id).unwrap_or(0)
}

fn removal_sig(s: &Sys, verifier: u64, client: u64, amount: &BigInt, good: bool) -> Signature {
    let pid = proposal_id(s, verifier, client) + if good { 0 } else { 1 };
    let prop = RemoveDataCapProposal {
        verified_client: id(client),
        data_cap_amount: amount.clone(),
        removal_proposal_id: RemoveDataCapProposalID { id: pid },
    };
    let mut payload = SIGNATURE_DOMAIN_SEPARATION_REMOVE_DATA_CAP.to_vec();
    payload.extend_from_slice(RawBytes::serialize(&prop).unwrap().bytes());
    Signature { sig_type: SignatureType::BLS, bytes: payload }
}

pub fn build(s: &Sys, op: &Op, epoch: i64) -> Built {
    let vr = VERIFIED_REGISTRY_ACTOR_ADDR;
    let dc = DATACAP_TOKEN_ACTOR_ADDR;
    // an account named in the parameters is presented by its key address in a third of the messages
    // (the registry resolves it; the model and the op line keep the id)
    let pa = |x: u64| -> Address {
        match s.accounts.iter().position(|a| *a == id(x)) {
            Some(i) if (x + epoch as u64) % 3 == 0 => s.keys[i],
            _ => id(x),
        }
    };
    match op {
        Op::Advance { .. } => unreachable!(),
        Op::AddVerifier { caller, addr, allowance } => Built {
            line: format!("addverifier {} {} {}", caller, addr, allowance),
            from: id(*caller), to: vr, method: VrMethod::AddVerifier as u64,
            params: ser(&VerifierParams { address: pa(*addr), allowance: allowance.clone() }),
        },
        Op::RemoveVerifier { caller, addr } => Built {
            line: format!("removeverifier {} {}", caller, addr),
            from: id(*caller), to: vr, method: VrMethod::RemoveVerifier as u64,
            params: ser(&RemoveVerifierParams { verifier: pa(*addr) }),
        },
        Op::AddClient { caller, client, allowance } => Built {
            line: format!("addclient {} {} {} {}", epoch, caller, client, allowance),
            from: id(*caller), to: vr, method: VrMethod::AddVerifiedClient as u64,
            params: ser(&VerifierParams { address: pa(*client), allowance: allowance.clone() }),
        },
        // the model's sigOk = the verifier is an account actor (it has AuthenticateMessage) and the
        // signature bytes are the ones over the proposal with the current proposal id
        Op::RemoveDataCap { caller, client, v1, v2, sig1_ok, sig2_ok, amount } => Built {
            line: format!(
                "removedatacap {} {} {} {} {} {} {}", caller, client, v1, v2,
                (*sig1_ok && s.accounts.contains(&id(*v1))) as u8,
                (*sig2_ok && s.accounts.contains(&id(*v2))) as u8, amount),
            from: id(*caller), to: vr, method: VrMethod::RemoveVerifiedClientDataCap as u64,
            params: ser(&RemoveDataCapParams {
                verified_client_to_remove: pa(*client),
                data_cap_amount_to_remove: amount.clone(),
                verifier_request_1: RemoveDataCapRequest { verifier: id(*v1), signature: removal_sig(s, *v1, *client, amount, *sig1_ok) },
                verifier_request_2: RemoveDataCapRequest { verifier: id(*v2), signature: removal_sig(s, *v2, *client, amount, *sig2_ok) },
            }),
        },
        Op::Transfer { caller, to, amount, data } => Built {
            line: format!("transfer {} {} {} {} {}", epoch, caller, to, amount, data_line(data)),
            from: id(*caller), to: dc, method: DcMethod::TransferExported as u64,
            params: ser(&TransferParams { to: id(*to), amount: TokenAmount::from_atto(amount.clone()), operator_data: op_data(s, data) }),
        },
        Op::TransferFrom { caller, from, to, amount, data } => Built {
            line: format!("transferfrom {} {} {} {} {} {}", epoch, caller, from, to, amount, data_line(data)),
            from: id(*caller), to: dc, method: DcMethod::TransferFromExported as u64,
            params: ser(&TransferFromParams { from: id(*from), to: id(*to), amount: TokenAmount::from_atto(amount.clone()), operator_data: op_data(s, data) }),
        },
        Op::Claim { caller, aon, sectors } => Built {
            line: format!("claim {} {} {} {}", epoch, caller, *aon as u8, sreqs_line(sectors)),
            from: id(*caller), to: vr, method: VrMethod::ClaimAllocations as u64,
            params: ser(&ClaimAllocationsParams {
                sectors: sectors
                    .iter()
                    .map(|sr| SectorAllocationClaims {
                        sector: sr.sector,
                        expiry: sr.expiry,
                        claims: sr.claims.iter().map(|c| AllocationClaim { client: c.client, allocation_id: c.id, data: s.cid_of(c.data), size: PaddedPieceSize(c.size as u64) }).collect(),
                    })
                    .collect(),
                all_or_nothing: *aon,
            }),
        },
        Op::RmAllocs { caller, client, ids } => Built {
            line: format!("rmallocs {} {} {}", epoch, client, ids_line(ids)),
            from: id(*caller), to: vr, method: VrMethod::RemoveExpiredAllocations as u64,
            params: ser(&RemoveExpiredAllocationsParams { client: *client, allocation_ids: ids.clone() }),
        },
        Op::RmClaims { caller, provider, ids } => Built {
            line: format!("rmclaims {} {} {}", epoch, provider, ids_line(ids)),
            from: id(*caller), to: vr, method: VrMethod::RemoveExpiredClaims as u64,
            params: ser(&RemoveExpiredClaimsParams { provider: *provider, claim_ids: ids.clone() }),
        },
        Op::ExtendTerms { caller, terms } => Built {
            line: format!("extendterms {} {}", caller, ereqs_line(terms)),
            from: id(*caller), to: vr, method: VrMethod::ExtendClaimTerms as u64,
            params: ser(&ExtendClaimTermsParams { terms: terms.iter().map(|t| ClaimTerm { provider: t.provider, claim_id: t.claim, term_max: t.term_max }).collect() }),
        },
        Op::Mint { caller, to, amount } => Built {
            line: format!("mint {} {} {} {}", epoch, caller, to, amount),
            from: id(*caller), to: dc, method: DcMethod::MintExported as u64,
            params: ser(&MintParams { to: id(*to), amount: TokenAmount::from_atto(amount.clone()), operators: vec![] }),
        },
        Op::Destroy { caller, owner, amount } => Built {
            line: format!("destroy {} {} {}", caller, owner, amount),
            from: id(*caller), to: dc, method: DcMethod::DestroyExported as u64,
            params: ser(&DestroyParams { owner: id(*owner), amount: TokenAmount::from_atto(amount.clone()) }),
        },
        Op::Burn { caller, amount } => Built {
            line: format!("burn {} {}", caller, amount),
            from: id(*caller), to: dc, method: DcMethod::BurnExported as u64,
            params: ser(&BurnParams { amount: TokenAmount::from_atto(amount.clone()) }),
        },
        Op::BurnFrom { caller, owner, amount } => Built {
            line: format!("burnfrom {} {} {}", caller, owner, amount),
            from: id(*caller), to: dc, method: DcMethod::BurnFromExported as u64,
            params: ser(&BurnFromParams { owner: id(*owner), amount: TokenAmount::from_atto(amount.clone()) }),
        },
        Op::IncAllow { caller, operator, delta } => Built {
            line: format!("incallow {} {} {}", caller, operator, delta),
            from: id(*caller), to: dc, method: DcMethod::IncreaseAllowanceExported as u64,
            params: ser(&IncreaseAllowanceParams { operator: id(*operator), increase: TokenAmount::from_atto(delta.clone()) }),
        },
        Op::DecAllow { caller, operator, delta } => Built {
            line: format!("decallow {} {} {}", caller, operator, delta),
            from: id(*caller), to: dc, method: DcMethod::DecreaseAllowanceExported as u64,
            params: ser(&DecreaseAllowanceParams { operator: id(*operator), decrease: TokenAmount::from_atto(delta.clone()) }),
        },
        Op::Revoke { caller, operator } => Built {
            line: format!("revoke {} {}", caller, operator),
            from: id(*caller), to: dc, method: DcMethod::RevokeAllowanceExported as u64,
            params: ser(&RevokeAllowanceParams { operator: id(*operator) }),
        },
    }
}

fn codes_of(b: &BatchReturn) -> Vec<u32> {
    b.codes().iter().map(|c| c.value()).collect()
}

fn show_ret(codes: Vec<u32>, mut ids: Vec<u64>, amounts: Vec<BigInt>) -> String {
    ids.sort();
    format!(
        "codes={} ids={} amounts={}",
        lst(codes.iter().map(|c| c.to_string()).collect()),
        lst(ids.iter().map(|c| c.to_string()).collect()),
        lst(amounts.iter().map(|c| c.to_string()).collect())
    )
}

/// canonical return of a successful message, in the Lean driver's format
pub fn impl_ret(op: &Op, r: &Applied) -> String {
    let none = || show_ret(vec![], vec![], vec![]);
    let blk = match &r.ret {
        Some(b) => b.clone(),
        None => return none(),
    };
    match op {
        Op::Transfer { to, .. } if *to == VERIFREG_ID => {
            let t: TransferReturn = blk.deserialize().unwrap();
            let a: AllocationsResponse = fvm_ipld_encoding::from_slice(t.recipient_data.bytes()).unwrap();
            let mut codes = codes_of(&a.allocation_results);
            codes.extend(codes_of(&a.extension_results));
            show_ret(codes, a.new_allocations, vec![])
        }
        Op::TransferFrom { to, .. } if *to == VERIFREG_ID => {
            let t: TransferFromReturn = blk.deserialize().unwrap();
            let a: AllocationsResponse = fvm_ipld_encoding::from_slice(t.recipient_data.bytes()).unwrap();
            let mut codes = codes_of(&a.allocation_results);
            codes.extend(codes_of(&a.extension_results));
            show_ret(codes, a.new_allocations, vec![])
        }
        Op::Claim { .. } => {
            let c: ClaimAllocationsReturn = blk.deserialize().unwrap();
            show_ret(codes_of(&c.sector_results), vec![], c.sector_claims.iter().map(|x| x.claimed_space.clone()).collect())
        }
        Op::RmAllocs { .. } => {
            let c: RemoveExpiredAllocationsReturn = blk.deserialize().unwrap();
            show_ret(codes_of(&c.results), c.considered, vec![c.datacap_recovered])
        }
        Op::RmClaims { .. } => {
            let c: RemoveExpiredClaimsReturn = blk.deserialize().unwrap();
            show_ret(codes_of(&c.results), c.considered, vec![])
        }
        Op::ExtendTerms { .. } => {
            let c: BatchReturn = blk.deserialize().unwrap();
            show_ret(codes_of(&c), vec![], vec![])
        }
        Op::RemoveDataCap { .. } => {
            let c: RemoveDataCapReturn = blk.deserialize().unwrap();
            show_ret(vec![], vec![], vec![c.data_cap_removed])
        }
        _ => none(),
    }
}

/// ghost ledger kept by the harness from the invocation traces: what was ever minted / burnt
#[derive(Default, Clone, Debug)]
pub struct Ghost {
    pub minted: BigInt,
    pub burnt: BigInt,
    /// how each allocation id ended: true = claimed, false = refunded
    pub fate: BTreeMap<u64, bool>,
    pub non_governor_mint: Option<String>,
}

fn walk_trace(t: &InvocationTrace, g: &mut Ghost) {
    if !t.exit_code.is_success() {
        return;
    }
    if t.to == DATACAP_TOKEN_ACTOR_ADDR {
        let p = t.params.clone();
        if t.method == DcMethod::MintExported as u64 {
            let m: MintParams = p.unwrap().deserialize().unwrap();
            g.minted += m.amount.atto();
            if t.from != VERIFREG_ID {
                g.non_governor_mint = Some(format!("mint accepted from actor {}", t.from));
            }
        } else if t.method == DcMethod::DestroyExported as u64 {
            let m: DestroyParams = p.unwrap().deserialize().unwrap();
            g.burnt += m.amount.atto();
            if t.from != VERIFREG_ID {
                g.non_governor_mint = Some(format!("destroy accepted from actor {}", t.from));
            }
        } else if t.method == DcMethod::BurnExported as u64 {
            let m: BurnParams = p.unwrap().deserialize().unwrap();
            g.burnt += m.amount.atto();
        } else if t.method == DcMethod::BurnFromExported as u64 {
            let m: BurnFromParams = p.unwrap().deserialize().unwrap();
            g.burnt += m.amount.atto();
        }
    }
    for sub in &t.subinvocations {
        walk_trace(sub, g);
    }
}

pub fn update_ghost(g: &mut Ghost, traces: &[InvocationTrace]) {
    for t in traces {
        walk_trace(t, g);
    }
}

fn sum_sizes<'a>(it: impl Iterator<Item = &'a i64>) -> BigInt {
    let mut t = BigInt::zero();
    for x in it {
        t += BigInt::from(*x);
    }
    t
}

fn bal(p: &Proj, a: u64) -> BigInt {
    p.balances.get(&a).cloned().unwrap_or_default()
}

/// Independent oracle: the statements of C09 / C10 evaluated on the real states around one message.
/// `who` describes the message for the rules that need it: the op, or for messages to other
/// actors (market publish, miner prove-commit) the calls observed in the trace.
pub fn oracle(before: &Proj, after: &Proj, op: &Op, ok: bool, epoch: i64, g: &mut Ghost, notes: &mut Vec<String>) -> Option<(String, String)> {
    if !ok {
        if before != after {
            return Some(("failed-message-changed-state".into(), format!("{} -> {}", show(before), show(after))));
        }
        return None;
    }
    // --- token conservation
    let mut sum = BigInt::zero();
    for v in after.balances.values() {
        if v.is_negative() {
            return Some(("negative-balance".into(), show(after)));
        }
        sum += v;
    }
    if sum != after.supply {
        return Some(("supply-ne-sum-of-balances".into(), format!("supply={} sum={}", after.supply, sum)));
    }
    if &g.minted - &g.burnt != after.supply {
        return Some(("supply-ne-minted-minus-burnt".into(), format!("supply={} minted={} burnt={}", after.supply, g.minted, g.burnt)));
    }
    if let Some(d) = &g.non_governor_mint {
        return Some(("mint-or-destroy-by-non-governor".into(), d.clone()));
    }
    // --- registry balance backs the unclaimed allocations
    let alloc_total = sum_sizes(after.allocs.values().map(|a| &a.size)) * prec();
    if bal(after, VERIFREG_ID) != alloc_total {
        return Some(("registry-balance-ne-unclaimed-allocations".into(), format!("balance={} allocations={}", bal(after, VERIFREG_ID), alloc_total)));
    }
    // --- verifier allowances
    let mut vkeys: BTreeSet<u64> = before.verifiers.keys().cloned().collect();
    vkeys.extend(after.verifiers.keys().cloned());
    for v in vkeys {
        let (b, a) = (before.verifiers.get(&v), after.verifiers.get(&v));
        if b == a {
            continue;
        }
        let fine = match op {
            Op::AddVerifier { caller, addr, allowance } => *caller == ROOT_ID && *addr == v && a == Some(allowance),
            Op::RemoveVerifier { caller, addr } => *caller == ROOT_ID && *addr == v && a.is_none(),
            Op::AddClient { caller, allowance, .. } => *caller == v && b.is_some() && a == Some(&(b.unwrap() - allowance)),
            _ => false,
        };
        if !fine {
            return Some(("verifier-allowance-changed-wrongly".into(), format!("verifier {} {:?} -> {:?} by {:?}", v, b, a, op)));
        }
    }
    if let Op::AddClient { caller, client, allowance } = op {
        let b = before.verifiers.get(caller);
        if b.is_none() || after.verifiers.get(caller) != Some(&(b.unwrap() - allowance)) || b.unwrap() < allowance {
            return Some(("verifier-allowance-not-decreased-by-grant".into(), format!("verifier {} {:?} -> {:?} grant {}", caller, b, after.verifiers.get(caller), allowance)));
        }
        if bal(after, *client) - bal(before, *client) != allowance * prec() || &after.supply - &before.supply != allowance * prec() {
            return Some(("grant-not-minted-exactly".into(), format!("client {} balance {} -> {} grant {}", client, bal(before, *client), bal(after, *client), allowance)));
        }
    } else if after.supply > before.supply {
        return Some(("supply-grew-without-grant".into(), format!("{} -> {} by {:?}", before.supply, after.supply, op)));
    }
    // --- allocations: creation
    if after.next < before.next {
        return Some(("next-allocation-id-decreased".into(), format!("{} -> {}", before.next, after.next)));
    }
    let new_ids: Vec<u64> = after.allocs.keys().filter(|k| !before.allocs.contains_key(k)).cloned().collect();
    let gone_ids: Vec<u64> = before.allocs.keys().filter(|k| !after.allocs.contains_key(k)).cloned().collect();
    for k in &new_ids {
        if *k < before.next || *k >= after.next || g.fate.contains_key(k) || before.claims.contains_key(k) {
            return Some(("allocation-id-reused".into(), format!("id {} next {} -> {}", k, before.next, after.next)));
        }
    }
    for (k, a) in &before.allocs {
        if let Some(a2) = after.allocs.get(k) {
            if a != a2 {
                return Some(("allocation-mutated".into(), format!("id {} {:?} -> {:?}", k, a, a2)));
            }
        }
    }
    let ext_burn = &before.supply - &after.supply;
    match op {
        Op::Transfer { to, amount, caller: from, .. } | Op::TransferFrom { to, amount, from, .. } if *to == VERIFREG_ID => {
            let created = sum_sizes(new_ids.iter().map(|k| &after.allocs[k].size)) * prec();
            if &created + &ext_burn != *amount {
                return Some(("allocations-ne-datacap-received".into(), format!("received {} created {} burnt-for-extensions {}", amount, created, ext_burn)));
            }
            for k in &new_ids {
                if after.allocs[k].client != *from {
                    return Some(("allocation-for-wrong-client".into(), format!("id {} client {} payer {}", k, after.allocs[k].client, from)));
                }
            }
            if bal(before, *from) - bal(after, *from) != *amount {
                return Some(("payer-not-debited-exactly".into(), format!("payer {} {} -> {} amount {}", from, bal(before, *from), bal(after, *from), amount)));
            }
        }
        _ => {
            if !new_ids.is_empty() {
                return Some(("allocation-created-without-transfer".into(), format!("{:?} by {:?}", new_ids, op)));
            }
        }
    }
    // --- allocations: each ends once, claimed or refunded
    if !gone_ids.is_empty() {
        let gone_total = sum_sizes(gone_ids.iter().map(|k| &before.allocs[k].size)) * prec();
        match op {
            Op::Claim { caller, sectors, .. } => {
                for k in &gone_ids {
                    let a = &before.allocs[k];
                    let c = match after.claims.get(k) {
                        Some(c) if !before.claims.contains_key(k) => c,
                        _ => return Some(("allocation-vanished-without-claim".into(), format!("id {}", k))),
                    };
                    if c.provider != *caller || a.provider != *caller {
                        return Some(("claimed-by-other-provider".into(), format!("id {} allocation provider {} claimed by {}", k, a.provider, caller)));
                    }
                    if c.client != a.client || c.data != a.data || c.size != a.size || c.term_min != a.term_min || c.term_max != a.term_max || c.term_start != epoch {
                        return Some(("claim-does-not-match-allocation".into(), format!("id {} {:?} vs {:?}", k, a, c)));
                    }
                    if epoch > a.expiration {
                        return Some(("claimed-after-expiration".into(), format!("id {} epoch {} expiration {}", k, epoch, a.expiration)));
                    }
                    // some request of the batch must name it for this sector with matching client,
                    // data and size and a sector lifetime inside the allocation's term
                    // (a batch may also hold failing groups naming the same id)
                    let mut named = false;
                    let mut why = ("claim-not-requested", format!("id {}", k));
                    for sr in sectors {
                        for cr in &sr.claims {
                            if cr.id == *k && sr.sector == c.sector {
                                let life = sr.expiry - epoch;
                                if cr.client != a.client || cr.data != a.data || cr.size != a.size {
                                    why = ("claim-request-mismatch-accepted", format!("id {} request {:?} allocation {:?}", k, cr, a));
                                } else if life < a.term_min || life > a.term_max {
                                    why = ("claimed-outside-term", format!("id {} sector lifetime {} term [{}, {}]", k, life, a.term_min, a.term_max));
                                } else {
                                    named = true;
                                }
                            }
                        }
                    }
                    if !named {
                        return Some((why.0.into(), why.1));
                    }
                    if g.fate.insert(*k, true).is_some() {
                        return Some(("allocation-ended-twice".into(), format!("id {}", k)));
                    }
                }
                if ext_burn != gone_total {
                    return Some(("claim-burn-ne-claimed-size".into(), format!("burnt {} claimed {}", ext_burn, gone_total)));
                }
            }
            Op::RmAllocs { client, .. } => {
                for k in &gone_ids {
                    let a = &before.allocs[k];
                    if a.client != *client {
                        return Some(("refund-of-foreign-allocation".into(), format!("id {} client {} refunded to {}", k, a.client, client)));
                    }
                    if epoch < a.expiration {
                        return Some(("allocation-removed-before-expiration".into(), format!("id {} epoch {} expiration {}", k, epoch, a.expiration)));
                    }
                    if after.claims.contains_key(k) && !before.claims.contains_key(k) {
                        return Some(("allocation-claimed-and-refunded".into(), format!("id {}", k)));
                    }
                    if g.fate.insert(*k, false).is_some() {
                        return Some(("allocation-ended-twice".into(), format!("id {}", k)));
                    }
                }
                if bal(after, *client) - bal(before, *client) != gone_total || after.supply != before.supply {
                    return Some(("refund-ne-allocation-size".into(), format!("client {} {} -> {} removed {}", client, bal(before, *client), bal(after, *client), gone_total)));
                }
            }
            _ => return Some(("allocation-vanished".into(), format!("{:?} by {:?}", gone_ids, op))),
        }
    } else if let Op::RmAllocs { client, .. } = op {
        if bal(after, *client) != bal(before, *client) {
            return Some(("refund-without-removal".into(), format!("client {} {} -> {}", client, bal(before, *client), bal(after, *client))));
        }
    }
    // --- claims: creation only from an allocation; term_max monotone; removal only after expiry
    for (k, c) in &after.claims {
        match before.claims.get(k) {
            None => {
                if !gone_ids.contains(k) {
                    return Some(("claim-without-allocation".into(), format!("id {} {:?}", k, c)));
                }
            }
            Some(b) => {
                if c.term_max < b.term_max {
                    return Some(("claim-term-max-decreased".into(), format!("id {} {} -> {}", k, b.term_max, c.term_max)));
                }
                let mut b2 = b.clone();
                b2.term_max = c.term_max;
                if &b2 != c {
                    return Some(("claim-mutated".into(), format!("id {} {:?} -> {:?}", k, b, c)));
                }
                if c.term_max > b.term_max {
                    let fine = match op {
                        Op::ExtendTerms { caller, .. } => *caller == c.client && c.term_max <= MAX_TERM,
                        Op::Transfer { to, .. } | Op::TransferFrom { to, .. } => *to == VERIFREG_ID && epoch <= b.term_start + b.term_max && c.term_max <= epoch + MAX_TERM - c.term_start,
                        _ => false,
                    };
                    if !fine {
                        return Some(("claim-term-extended-wrongly".into(), format!("id {} {} -> {} by {:?} at {}", k, b.term_max, c.term_max, op, epoch)));
                    }
                }
            }
        }
    }
    for (k, b) in &before.claims {
        if !after.claims.contains_key(k) {
            match op {
                Op::RmClaims { provider, .. } if *provider == b.provider => {
                    if epoch < b.term_start + b.term_max {
                        return Some(("claim-removed-before-expiry".into(), format!("id {} epoch {} term end {}", k, epoch, b.term_start + b.term_max)));
                    }
                }
                _ => return Some(("claim-vanished".into(), format!("id {} by {:?}", k, op))),
            }
        }
    }
    // the duplicate-extension case the statement leaves open (recorded, not a violation)
    if let Op::Transfer { data: Some((_, exts)), .. } | Op::TransferFrom { data: Some((_, exts)), .. } = op {
        let mut seen = HashSet::new();
        if exts.iter().any(|e| !seen.insert(e.claim)) {
            let n = "a transfer listing the same claim extension twice was accepted: the datacap for it is burnt once per list entry".to_string();
            if !notes.contains(&n) {
                notes.push(n);
            }
        }
    }
    None
}

// ---------------------------------------------------------------- generator

fn pick_acct(r: &mut Rng, s: &Sys) -> u64 {
    r.pick(&s.accounts).id().unwrap()
}
fn pick_miner(r: &mut Rng, s: &Sys) -> u64 {
    r.pick(&s.miners).id().unwrap()
}
fn odd_actor(r: &mut Rng, s: &Sys) -> u64 {
    match r.below(6) {
        0 => ROOT_ID,
        1 => pick_miner(r, s),
        2 => VERIFREG_ID,
        3 => 7777, // no such actor
        4 => MARKET_ID,
        _ => pick_acct(r, s),
    }
}

fn gen_areq(r: &mut Rng, s: &Sys, epoch: i64, clean: bool) -> AReq {
    let provider = if clean || r.chance(9, 10) { pick_miner(r, s) } else { odd_actor(r, s) };
    let size = match if clean { 5 } else { r.below(8) } {
        0 => MIN_ALLOC_SIZE - 1,
        1 => MIN_ALLOC_SIZE,
        _ => MIN_ALLOC_SIZE * (1 + r.below(4) as i64),
    };
    let term_min = match if clean { 5 } else { r.below(8) } {
        0 => MIN_TERM - 1,
        _ => MIN_TERM + r.range(0, 3) * 1000,
    };
    let term_max = match if clean { 5 } else { r.below(10) } {
        0 => term_min - 1,
        1 => MAX_TERM + 1,
        2 => MAX_TERM,
        3 => term_min,
        _ => term_min + r.range(0, 50) * 10_000,
    }
    .min(if clean { MAX_TERM } else { i64::MAX });
    let expiration = match if clean { 5 + r.below(3) } else { r.below(8) } {
        0 => epoch - 1,
        1 => epoch + MAX_ALLOC_EXP + 1,
        2 => epoch,
        3 => epoch + MAX_ALLOC_EXP,
        5 => epoch + r.range(0, 3),
        _ => epoch + r.range(0, 200) * 50,
    };
    AReq { provider, data: r.below(N_DATA), size, term_min, term_max, expiration }
}

fn gen_ereq(r: &mut Rng, p: &Proj, epoch: i64, clean: bool) -> Option<EReq> {
    if p.claims.is_empty() {
        if clean { return None; }
        return Some(EReq { provider: 9999, claim: r.below(5), term_max: MIN_TERM });
    }
    let ids: Vec<u64> = p.claims.keys().cloned().collect();
    let k = *r.pick(&ids);
    let c = &p.claims[&k];
    let limit = epoch + MAX_TERM - c.term_start;
    // a paid extension may reach the policy maximum counted from *now*, i.e. a term above MAX_TERM
    let term_max = match if clean { *r.pick(&[3u64, 4, 4]) } else { r.below(7) } {
        0 => c.term_max,
        1 => c.term_max - 1,
        2 => limit + 1,
        3 => limit,
        _ => (c.term_max + 1 + r.range(0, 100) * 1000).min(limit),
    };
    let provider = if clean || r.chance(9, 10) { c.provider } else { c.provider + 1 };
    Some(EReq { provider, claim: if clean || r.chance(14, 15) { k } else { k + 50 }, term_max })
}

pub fn gen_op(r: &mut Rng, s: &Sys, p: &Proj, epoch: i64) -> Op {
    let k = r.below(100);
    let clean = r.chance(1, 2);
    let verifiers: Vec<u64> = p.verifiers.keys().cloned().collect();
    let holders: Vec<u64> = p.balances.keys().cloned().filter(|a| *a != VERIFREG_ID).collect();
    // targeted pair (two operations that have to cooperate): a paid extension that takes a claim's term
    // to the policy maximum counted from *now* (above MAX_TERM once the claim has aged), and then the
    // client's ExtendClaimTerms at and around MAX_TERM, which is below the term the claim now has
    if let Some((kid, c)) = p.claims.iter().find(|(_, c)| c.term_max > MAX_TERM) {
        if r.chance(1, 4) {
            let term_max = *r.pick(&[MAX_TERM, MAX_TERM, MAX_TERM - 1, c.term_max - 1, c.term_max]);
            return Op::ExtendTerms { caller: c.client, terms: vec![EReq { provider: c.provider, claim: *kid, term_max }] };
        }
    } else if let Some((kid, c)) = p.claims.iter().find(|(_, c)| epoch > c.term_start && epoch <= c.term_start + c.term_max) {
        let rich: Vec<u64> = holders.iter().cloned().filter(|h| bal(p, *h) / prec() >= BigInt::from(c.size)).collect();
        if !rich.is_empty() && r.chance(1, 6) {
            let caller = *r.pick(&rich);
            let ext = EReq { provider: c.provider, claim: *kid, term_max: epoch + MAX_TERM - c.term_start };
            return Op::Transfer { caller, to: VERIFREG_ID, amount: BigInt::from(c.size) * prec(), data: Some((vec![], vec![ext])) };
        }
    }
    if k < 7 || (verifiers.is_empty() && k < 30) {
        let caller = if clean || r.chance(7, 8) { ROOT_ID } else { pick_acct(r, s) };
        let addr = if clean || r.chance(5, 6) { pick_acct(r, s) } else { odd_actor(r, s) };
        let allowance = match if clean { 3 } else { r.below(5) } {
            0 => BigInt::from(MIN_ALLOC_SIZE - 1),
            1 => BigInt::from(MIN_ALLOC_SIZE),
            _ => BigInt::from(MIN_ALLOC_SIZE) * BigInt::from(r.range(2, 64)),
        };
        return Op::AddVerifier { caller, addr, allowance };
    }
    if k < 9 {
        let caller = if r.chance(3, 4) { ROOT_ID } else { pick_acct(r, s) };
        let addr = if !verifiers.is_empty() && r.chance(3, 4) { *r.pick(&verifiers) } else { pick_acct(r, s) };
        return Op::RemoveVerifier { caller, addr };
    }
    if k < 22 || (holders.is_empty() && k < 55) {
        let caller = if !verifiers.is_empty() && (clean || r.chance(7, 8)) { *r.pick(&verifiers) } else { pick_acct(r, s) };
        let client = if clean || r.chance(4, 5) { pick_acct(r, s) } else { odd_actor(r, s) };
        let cap = p.verifiers.get(&caller).cloned().unwrap_or_default();
        let allowance = match if clean { 4 } else { r.below(7) } {
            0 => BigInt::from(MIN_ALLOC_SIZE - 1),
            1 => cap.clone(),
            2 => &cap + 1,
            3 => BigInt::from(MIN_ALLOC_SIZE),
            _ => {
                let m = BigInt::from(MIN_ALLOC_SIZE) * BigInt::from(r.range(1, 12));
                if m > cap && clean { cap.clone() } else { m }
            }
        };
        return Op::AddClient { caller, client, allowance };
    }
    if k < 42 {
        // transfer to the registry with allocation / extension requests
        let caller = if !holders.is_empty() && (clean || r.chance(9, 10)) { *r.pick(&holders) } else { pick_acct(r, s) };
        let have = bal(p, caller) / prec();
        let mut allocs = vec![];
        let mut exts = vec![];
        let na = if r.chance(1, 8) { 0 } else { r.range(1, 3) };
        for _ in 0..na {
            let c2 = clean || r.chance(2, 3);
            allocs.push(gen_areq(r, s, epoch, c2));
        }
        if r.chance(1, 3) {
            let ne = r.range(1, 2);
            for _ in 0..ne {
                let c2 = clean || r.chance(2, 3);
                if let Some(e) = gen_ereq(r, p, epoch, c2) {
                    exts.push(e);
                }
            }
            if !clean && !exts.is_empty() && r.chance(1, 4) {
                let mut d = exts[0].clone();
                d.term_max += r.range(0, 1);
                exts.push(d); // the same claim extended twice in one transfer
            }
        }
        let mut total = BigInt::zero();
        for a in &allocs {
            total += a.size;
        }
        for e in &exts {
            if let Some(c) = p.claims.get(&e.claim) {
                total += c.size;
            }
        }
        let _ = have;
        let amount = match if clean { 6 } else { r.below(9) } {
            0 => (&total + 1) * prec(),
            1 => (&total - 1) * prec(),
            2 => &total * prec() + 1, // not a whole unit
            3 => BigInt::from(-1) * prec(),
            _ => &total * prec(),
        };
        let data = if !clean && r.chance(1, 25) { None } else { Some((allocs, exts)) };
        let to = if clean || r.chance(19, 20) { VERIFREG_ID } else { odd_actor(r, s) };
        if r.chance(1, 4) {
            // through an operator (the market holds an infinite allowance from every client)
            let operator = if r.chance(3, 4) { MARKET_ID } else { pick_acct(r, s) };
            return Op::TransferFrom { caller: operator, from: caller, to, amount, data };
        }
        return Op::Transfer { caller, to, amount, data };
    }
    if k < 62 {
        // claim batch
        let caller = if clean || r.chance(11, 12) { pick_miner(r, s) } else { pick_acct(r, s) };
        let mine: Vec<u64> = p.allocs.iter().filter(|(_, a)| a.provider == caller).map(|(k, _)| *k).collect();
        let all: Vec<u64> = p.allocs.keys().cloned().collect();
        let ns = if !clean && r.chance(1, 20) { 0 } else { r.range(1, 3) };
        let mut sectors = vec![];
        let mut used: Vec<u64> = vec![];
        for si in 0..ns {
            let nc = if r.chance(1, 10) { 0 } else { r.range(1, 3) };
            let mut claims = vec![];
            let mut lo = i64::MIN;
            let mut hi = i64::MAX;
            for _ in 0..nc {
                let cclean = clean || r.chance(2, 3);
                let pool: Vec<u64> = if cclean { mine.iter().filter(|x| !used.contains(x)).cloned().collect() } else { all.clone() };
                if pool.is_empty() {
                    if !cclean || r.chance(1, 3) {
                        claims.push(CReq { client: pick_acct(r, s), id: p.next + r.below(3), data: 0, size: MIN_ALLOC_SIZE });
                    }
                    continue;
                }
                let kid = *r.pick(&pool);
                used.push(kid);
                let a = &p.allocs[&kid];
                lo = lo.max(a.term_min);
                hi = hi.min(a.term_max);
                let mut c = CReq { client: a.client, id: kid, data: a.data, size: a.size };
                if !cclean {
                    match r.below(8) {
                        0 => c.client = pick_acct(r, s),
                        1 => c.data = (c.data + 1) % N_DATA,
                        2 => c.size += MIN_ALLOC_SIZE,
                        3 => c.id = p.next + 5,
                        _ => {}
                    }
                }
                claims.push(c);
            }
            if lo == i64::MIN {
                lo = MIN_TERM;
                hi = MIN_TERM + 1000;
            }
            let life = match if clean { 4 + r.below(3) } else { r.below(7) } {
                0 => lo - 1,
                1 => hi + 1,
                2 | 4 => lo,
                3 | 5 => hi,
                _ => if hi > lo { lo + r.range(0, hi - lo) } else { lo },
            };
            sectors.push(SReq { sector: 10 + si as u64 + r.below(3), expiry: epoch + life, claims });
        }
        return Op::Claim { caller, aon: r.chance(1, 2), sectors };
    }
    if k < 72 {
        let caller = pick_acct(r, s);
        let clients: Vec<u64> = p.allocs.values().map(|a| a.client).collect();
        let client = if !clients.is_empty() && (clean || r.chance(7, 8)) { *r.pick(&clients) } else { odd_actor(r, s) };
        let own: Vec<u64> = p.allocs.iter().filter(|(_, a)| a.client == client).map(|(k, _)| *k).collect();
        let mut ids = vec![];
        if !r.chance(1, 3) {
            for k in &own {
                if r.chance(2, 3) { ids.push(*k); }
            }
            if !clean && r.chance(1, 4) { ids.push(p.next + 1); }
            if !clean && r.chance(1, 4) {
                if let Some(k) = p.allocs.keys().find(|k| !own.contains(k)) { ids.push(*k); }
            }
            if !clean && !ids.is_empty() && r.chance(1, 5) { ids.push(ids[0]); } // repeated id
        }
        return Op::RmAllocs { caller, client, ids };
    }
    if k < 78 {
        let caller = pick_acct(r, s);
        let provider = if clean || r.chance(7, 8) { pick_miner(r, s) } else { pick_acct(r, s) };
        let own: Vec<u64> = p.claims.iter().filter(|(_, c)| c.provider == provider).map(|(k, _)| *k).collect();
        let mut ids = vec![];
        if !r.chance(1, 3) {
            for k in &own {
                if r.chance(2, 3) { ids.push(*k); }
            }
            if !clean && r.chance(1, 4) { ids.push(p.next + 1); }
            if !clean && !ids.is_empty() && r.chance(1, 5) { ids.push(ids[0]); }
        }
        return Op::RmClaims { caller, provider, ids };
    }
    if k < 84 {
        let mut terms = vec![];
        let ids: Vec<u64> = p.claims.keys().cloned().collect();
        let mut caller = pick_acct(r, s);
        for _ in 0..r.range(1, 3) {
            if ids.is_empty() {
                terms.push(EReq { provider: pick_miner(r, s), claim: r.below(4), term_max: MAX_TERM });
                continue;
            }
            let kid = *r.pick(&ids);
            let c = &p.claims[&kid];
            if clean || r.chance(5, 6) { caller = c.client; }
            let over = c.term_max > MAX_TERM && r.chance(1, 2);
            // a claim already extended past MAX_TERM (by a paid extension): requests at and around the
            // policy maximum are *below* its current term
            let term_max = match if over { 7 } else if clean { 4 } else { r.below(7) } {
                7 => *r.pick(&[MAX_TERM, MAX_TERM, MAX_TERM - 1, c.term_max - 1]),
                0 => c.term_max - 1,
                1 => MAX_TERM + 1,
                2 => c.term_max,
                3 => MAX_TERM,
                _ => (c.term_max + r.range(0, 100) * 1000).min(MAX_TERM),
            };
            terms.push(EReq { provider: if clean || r.chance(9, 10) { c.provider } else { c.provider + 1 }, claim: kid, term_max });
        }
        return Op::ExtendTerms { caller, terms };
    }
    if k < 87 {
        // datacap removal by the root with two verifiers' signatures
        let caller = if clean || r.chance(5, 6) { ROOT_ID } else { pick_acct(r, s) };
        let client = if !holders.is_empty() && (clean || r.chance(5, 6)) { *r.pick(&holders) } else { odd_actor(r, s) };
        let v1 = if !verifiers.is_empty() && (clean || r.chance(5, 6)) { *r.pick(&verifiers) } else { pick_acct(r, s) };
        let mut v2 = if !verifiers.is_empty() && (clean || r.chance(5, 6)) { *r.pick(&verifiers) } else { pick_acct(r, s) };
        if clean && v2 == v1 {
            if let Some(o) = verifiers.iter().find(|x| **x != v1) { v2 = *o; }
        }
        let have = bal(p, client) / prec();
        let amount = match r.below(5) {
            0 => &have + 1,
            1 => have.clone(),
            2 => BigInt::from(if clean { 1 } else { -1 }),
            _ => BigInt::from(MIN_ALLOC_SIZE),
        };
        return Op::RemoveDataCap { caller, client, v1, v2, sig1_ok: clean || r.chance(5, 6), sig2_ok: clean || r.chance(5, 6), amount };
    }
    if k < 97 {
        // direct token calls
        let caller = if !holders.is_empty() && r.chance(3, 4) { *r.pick(&holders) } else { pick_acct(r, s) };
        let have = bal(p, caller);
        let whole = |r: &mut Rng| BigInt::from(MIN_ALLOC_SIZE) * BigInt::from(r.range(0, 3)) * prec();
        let amt = match r.below(6) {
            0 => &have + prec(),
            1 => have.clone(),
            2 => whole(r) + 1,
            3 => BigInt::from(-1) * prec(),
            _ => whole(r),
        };
        return match r.below(9) {
            0 => Op::Burn { caller, amount: amt },
            1 => Op::BurnFrom { caller: if r.chance(1, 2) { MARKET_ID } else { pick_acct(r, s) }, owner: caller, amount: amt },
            2 => Op::IncAllow { caller, operator: pick_acct(r, s), delta: amt },
            3 => Op::DecAllow { caller, operator: if r.chance(1, 2) { MARKET_ID } else { pick_acct(r, s) }, delta: amt },
            4 => Op::Revoke { caller, operator: if r.chance(1, 2) { MARKET_ID } else { pick_acct(r, s) } },
            5 => Op::Mint { caller: if r.chance(1, 6) { ROOT_ID } else { caller }, to: pick_acct(r, s), amount: whole(r) },
            6 => Op::Destroy { caller: if r.chance(1, 6) { ROOT_ID } else { caller }, owner: pick_acct(r, s), amount: whole(r) },
            7 => Op::Transfer { caller, to: pick_acct(r, s), amount: whole(r), data: None },
            _ => Op::Burn { caller, amount: whole(r) },
        };
    }
    // time: biased to allocation expirations and claim term ends
    let mut targets: Vec<i64> = vec![];
    for a in p.allocs.values() {
        targets.push(a.expiration);
    }
    for c in p.claims.values() {
        targets.push(c.term_start + c.term_max);
    }
    let e = if !targets.is_empty() && r.chance(2, 3) { *r.pick(&targets) + r.range(-1, 1) } else { epoch + r.range(0, 100) * r.range(1, 300) };
    Op::Advance { to_epoch: e.max(epoch) }
}

fn is_dup_unwrap_panic(op: &Op, msg: &str) -> bool {
    let dup = |ids: &Vec<u64>| {
        let mut seen = HashSet::new();
        ids.iter().any(|i| !seen.insert(*i))
    };
    let has_dup = match op {
        Op::RmAllocs { ids, .. } | Op::RmClaims { ids, .. } => dup(ids),
        _ => false,
    };
    has_dup && msg.contains("unwrap") && msg.contains("None")
}

pub struct StepOut {
    pub violation: Option<(String, String)>,
    pub disagreement: Option<(String, String)>,
    pub ok: bool,
    pub class: &'static str,
}

/// Execute one op on the real actors (panic → abort → rollback), run the oracle, and ask the model.
pub fn exec_op(s: &Sys, op: &Op, epoch: i64, g: &mut Ghost, lean: &mut Option<LeanDriver>, lines: &mut Vec<String>, notes: &mut Vec<String>) -> StepOut {
    let before = project(s);
    let b = build(s, op, epoch);
    let root = s.w.vm.checkpoint();
    let res = s.w.apply_raw(&b.from, &b.to, &TokenAmount::zero(), b.method, b.params.clone());
    let traces = s.w.take_trace();
    if res.panicked {
        // a Rust panic is an abort of the message in the real runtime: nothing of it persists
        s.w.vm.rollback(root);
    }
    let after = project(s);
    if std::env::var("BA_DEBUG").is_ok() && !res.ok() {
        eprintln!("[debug] {} -> {} {}", b.line, res.code, res.message);
    }
    let mut class = exit_class(res.code);
    if res.panicked {
        if is_dup_unwrap_panic(op, &res.message) {
            let n = "remove_expired_allocations/claims with a repeated explicit id panics on `.unwrap()` of None: the message aborts, nothing is removed or refunded".to_string();
            if !notes.contains(&n) { notes.push(n); }
            class = "panic";
        } else {
            lines.push(b.line.clone());
            return StepOut { violation: Some(("panic".into(), res.message.clone())), disagreement: None, ok: false, class: "panic" };
        }
    }
    let ret = if res.ok() { impl_ret(op, &res) } else { String::new() };
    let mut o = observe(op, &b.line, res.ok(), &ret, &before, &after, &traces, epoch, g, lean, lines, notes);
    o.class = class;
    o
}

/// Oracle + model comparison for one state-changing call on the registry / token whose effect on
/// the real state is `before → after` (a top-level message, or a call made by the market or a
/// miner inside a successful top-level message).
#[allow(clippy::too_many_arguments)]
pub fn observe(op: &Op, line: &str, ok: bool, ret: &str, before: &Proj, after: &Proj, traces: &[InvocationTrace], epoch: i64, g: &mut Ghost, lean: &mut Option<LeanDriver>, lines: &mut Vec<String>, notes: &mut Vec<String>) -> StepOut {
    lines.push(line.to_string());
    let mut out = StepOut { violation: None, disagreement: None, ok, class: if ok { "ok" } else { "err" } };
    if ok {
        update_ghost(g, traces);
    }
    if let Some(v) = oracle(before, after, op, ok, epoch, g, notes) {
        out.violation = Some(v);
        return out;
    }
    if let Some(l) = lean.as_mut() {
        let m = l.ask(line).unwrap();
        let i = if ok { format!("ok {} | {}", ret, show(after)) } else { format!("err | {}", show(after)) };
        let m_norm = if m.starts_with("err ") { format!("err | {}", m.splitn(2, " | ").nth(1).unwrap_or("")) } else { m.clone() };
        if m_norm != i {
            out.disagreement = Some((i, m));
        }
    }
    out
}

pub fn run_generic(prop: &str, cfg: &RunCfg, rep: &mut Report, nseq: u64, maxlen: u64, seq_base: u64) {
    let mut lean = if cfg.use_lean { Some(LeanDriver::spawn("verifreg").expect("lean driver")) } else { None };
    let mut seen = HashSet::new();
    let seqs: Vec<u64> = match cfg.only_seq {
        Some(k) => if k >= seq_base && k < 100_000 { vec![k] } else { vec![] },
        None => (seq_base..seq_base + nseq).collect(),
    };
    'seqs: for seq in seqs {
        let mut r = seq_rng(cfg.seed, seq);
        let s = setup(5, 2);
        let mut epoch: i64 = r.range(0, 50);
        s.w.vm.set_epoch(epoch);
        let mut lines: Vec<String> = vec![s.init_line()];
        let mut agree = true;
        if let Some(l) = lean.as_mut() {
            let m = l.ask(&lines[0]).unwrap();
            let i = format!("ok | {}", show(&project(&s)));
            if m != i {
                agree = false;
                rep.disagreements.push(Disagreement { seq, step: 0, op: "init".into(), impl_out: i, model_out: m, replay: String::new() });
            }
        }
        rep.sequences += 1;
        let len = r.range(10, maxlen as i64) as u64;
        let mut g = Ghost::default();
        let (mut n_claimed, mut n_refunded) = (0u64, 0u64);
        for step in 0..len {
            let p = project(&s);
            let op = gen_op(&mut r, &s, &p, epoch);
            rep.op(op.name());
            if let Op::ExtendTerms { terms, .. } = &op {
                if terms.iter().any(|t| p.claims.get(&t.claim).map(|c| c.term_max > MAX_TERM && t.term_max < c.term_max && t.term_max >= MAX_TERM - 1).unwrap_or(false)) { rep.branch("extend-terms-below-an-over-limit-term"); }
            }
            if p.claims.values().any(|c| c.term_max > MAX_TERM) { rep.branch("step-with-claim-above-max-term"); }
            if let Op::Advance { to_epoch } = op {
                epoch = to_epoch;
                s.w.vm.set_epoch(epoch);
                lines.push(format!("# epoch {}", epoch));
                continue;
            }
            let mut notes = vec![];
            let o = exec_op(&s, &op, epoch, &mut g, &mut lean, &mut lines, &mut notes);
            for n in notes { if !rep.notes.contains(&n) { rep.notes.push(n); } }
            rep.ops += 1;
            if o.ok { rep.ops_ok += 1; } else { rep.err(&format!("{}:{}", op.name(), o.class)); }
            let hdr = vec![
                format!("property {} seed {} seq {} (re-run: ba_harness {} --seed {} --only-seq {})", prop, cfg.seed, seq, prop.to_lowercase(), cfg.seed, seq),
                format!("failing step {}: {:?}", step, op),
            ];
            if let Some((kind, detail)) = o.violation {
                let path = write_replay(prop, &format!("{}-{}", cfg.seed, seq), &hdr, &lines);
                rep.violations.push(Violation { kind, detail, replay: path });
                continue 'seqs;
            }
            if let Some((i, m)) = o.disagreement {
                agree = false;
                let path = write_replay(prop, &format!("corr-{}-{}", cfg.seed, seq), &hdr, &lines);
                rep.disagreements.push(Disagreement { seq, step, op: lines.last().unwrap().clone(), impl_out: i, model_out: m, replay: path });
                continue 'seqs;
            }
        }
        n_claimed += g.fate.values().filter(|f| **f).count() as u64;
        n_refunded += g.fate.values().filter(|f| !**f).count() as u64;
        if agree && lean.is_some() { rep.traces_validated += 1; }
        let nontrivial = n_claimed > 0 || n_refunded > 0;
        if n_claimed > 0 { rep.branch("sequence-with-claim"); }
        if n_refunded > 0 { rep.branch("sequence-with-refund"); }
        if nontrivial && seen.insert(hash_lines(&lines)) { rep.distinct_nontrivial += 1; }
        if rep.samples.len() < 3 && nontrivial {
            rep.samples.push(json!({"seq": seq, "ops": lines.iter().take(14).collect::<Vec<_>>()}));
        }
    }
}

/// Market-mediated allocations: real `PublishStorageDeals` (verified deals) on the market actor.
/// The `TransferFrom` the market sends to the datacap actor (operator = market, infinite
/// allowance from the grant) is read from the invocation trace and is the model's op.
pub fn run_market(prop: &str, cfg: &RunCfg, rep: &mut Report, nseq: u64, seq_base: u64) {
    use fil_actor_market::{ClientDealProposal, DealProposal, Label, Method as MarketMethod, PublishStorageDealsParams};
    use fil_actors_runtime::STORAGE_MARKET_ACTOR_ADDR;
    let mut lean = if cfg.use_lean { Some(LeanDriver::spawn("verifreg").expect("lean driver")) } else { None };
    let seqs: Vec<u64> = match cfg.only_seq {
        Some(k) => if k >= seq_base && k < seq_base + 100_000 { vec![k] } else { vec![] },
        None => (seq_base..seq_base + nseq).collect(),
    };
    'seqs: for seq in seqs {
        let mut r = seq_rng(cfg.seed, seq);
        let s = setup(4, 1);
        let mut epoch: i64 = r.range(1, 40);
        s.w.vm.set_epoch(epoch);
        let mut lines: Vec<String> = vec![s.init_line()];
        if let Some(l) = lean.as_mut() { l.ask(&lines[0]).unwrap(); }
        rep.sequences += 1;
        let mut g = Ghost::default();
        let mut notes: Vec<String> = vec![];
        let (owner, verifier) = (s.accounts[0], s.accounts[1].id().unwrap());
        let clients = [s.accounts[2], s.accounts[3]];
        let maddr = s.miners[0];
        let hdr = |step: &str| vec![
            format!("property {} seed {} seq {} (re-run: ba_harness {} --seed {} --only-seq {})", prop, cfg.seed, seq, prop.to_lowercase(), cfg.seed, seq),
            format!("market scenario, failing step: {}", step),
        ];
        macro_rules! run_op {
            ($op:expr) => {{
                let op = $op;
                rep.op(op.name());
                rep.ops += 1;
                let o = exec_op(&s, &op, epoch, &mut g, &mut lean, &mut lines, &mut notes);
                if o.ok { rep.ops_ok += 1; } else { rep.err(&format!("{}:{}", op.name(), o.class)); }
                if let Some((kind, detail)) = o.violation {
                    let path = write_replay(prop, &format!("{}-{}", cfg.seed, seq), &hdr(&format!("{:?}", op)), &lines);
                    rep.violations.push(Violation { kind, detail, replay: path });
                    continue 'seqs;
                }
                if let Some((i, m)) = o.disagreement {
                    let path = write_replay(prop, &format!("corr-{}-{}", cfg.seed, seq), &hdr(&format!("{:?}", op)), &lines);
                    rep.disagreements.push(Disagreement { seq, step: lines.len() as u64, op: lines.last().unwrap().clone(), impl_out: i, model_out: m, replay: path });
                    continue 'seqs;
                }
            }};
        }
        run_op!(Op::AddVerifier { caller: ROOT_ID, addr: verifier, allowance: BigInt::from(MIN_ALLOC_SIZE) * BigInt::from(64) });
        run_op!(Op::AddClient { caller: verifier, client: clients[0].id().unwrap(), allowance: BigInt::from(MIN_ALLOC_SIZE) * BigInt::from(r.range(2, 8)) });
        if r.chance(1, 2) {
            run_op!(Op::AddClient { caller: verifier, client: clients[1].id().unwrap(), allowance: BigInt::from(MIN_ALLOC_SIZE) * BigInt::from(r.range(1, 3)) });
        }
        // escrow for the clients and the provider
        for c in clients.iter() {
            let a = s.w.apply(c, &STORAGE_MARKET_ACTOR_ADDR, &TokenAmount::from_whole(50), MarketMethod::AddBalance as u64, Some(*c));
            assert!(a.ok(), "market AddBalance: {:?}", a);
        }
        let a = s.w.apply(&owner, &STORAGE_MARKET_ACTOR_ADDR, &TokenAmount::from_whole(500), MarketMethod::AddBalance as u64, Some(maddr));
        assert!(a.ok(), "market AddBalance: {:?}", a);
        s.w.take_trace();
        let n_pub = r.range(1, 4);
        let mut label_k = 0u64;
        for _ in 0..n_pub {
            let client = *r.pick(&clients);
            let nd = r.range(1, 3);
            let mut deals = vec![];
            for _ in 0..nd {
                let size = (MIN_ALLOC_SIZE as u64) << r.below(3);
                let start = epoch + r.range(200, 3000);
                let lifetime = MIN_TERM + r.range(0, 30) * 2880;
                let label = format!("p{}", label_k % N_DATA);
                label_k += 1;
                let proposal = DealProposal {
                    piece_cid: make_piece_cid(label.as_bytes()),
                    piece_size: PaddedPieceSize(size),
                    verified_deal: r.chance(4, 5),
                    client,
                    provider: maddr,
                    label: Label::String(label),
                    start_epoch: start,
                    end_epoch: start + lifetime,
                    storage_price_per_epoch: TokenAmount::from_atto(1u64 << 10),
                    provider_collateral: TokenAmount::from_whole(2),
                    client_collateral: TokenAmount::from_whole(1),
                };
                let sig = Signature { sig_type: SignatureType::BLS, bytes: RawBytes::serialize(&proposal).unwrap().to_vec() };
                deals.push(ClientDealProposal { proposal, client_signature: sig });
            }
            let before = project(&s);
            let res = s.w.apply(&owner, &STORAGE_MARKET_ACTOR_ADDR, &TokenAmount::zero(), MarketMethod::PublishStorageDeals as u64, Some(PublishStorageDealsParams { deals }));
            let traces = s.w.take_trace();
            let after = project(&s);
            rep.op("publish-deals");
            lines.push(format!("# epoch {} market PublishStorageDeals by {} for client {} -> {}", epoch, owner.id().unwrap(), client.id().unwrap(), exit_class(res.code)));
            if res.panicked {
                let path = write_replay(prop, &format!("{}-{}", cfg.seed, seq), &hdr("publish"), &lines);
                rep.violations.push(Violation { kind: "panic".into(), detail: res.message.clone(), replay: path });
                continue 'seqs;
            }
            // successful TransferFrom calls of the market inside a successful publish
            let mut calls: Vec<&InvocationTrace> = vec![];
            fn find<'a>(t: &'a InvocationTrace, out: &mut Vec<&'a InvocationTrace>) {
                if !t.exit_code.is_success() { return; }
                if t.to == DATACAP_TOKEN_ACTOR_ADDR && t.method == DcMethod::TransferFromExported as u64 { out.push(t); }
                for x in &t.subinvocations { find(x, out); }
            }
            if res.ok() { for t in &traces { find(t, &mut calls); } }
            if calls.is_empty() {
                if before != after {
                    let path = write_replay(prop, &format!("{}-{}", cfg.seed, seq), &hdr("publish"), &lines);
                    rep.violations.push(Violation { kind: "registry-or-token-changed-without-datacap-call".into(), detail: format!("{} -> {}", show(&before), show(&after)), replay: path });
                    continue 'seqs;
                }
                continue;
            }
            if calls.len() > 1 {
                rep.notes.push("publish with more than one TransferFrom call skipped".into());
                break;
            }
            let t = calls[0];
            let tp: TransferFromParams = t.params.clone().unwrap().deserialize().unwrap();
            let reqs: AllocationRequests = fvm_ipld_encoding::from_slice(tp.operator_data.bytes()).unwrap();
            let data = Some((
                reqs.allocations.iter().map(|a| AReq { provider: a.provider, data: s.data_of(&a.data), size: a.size.0 as i64, term_min: a.term_min, term_max: a.term_max, expiration: a.expiration }).collect::<Vec<_>>(),
                reqs.extensions.iter().map(|e| EReq { provider: e.provider, claim: e.claim, term_max: e.term_max }).collect::<Vec<_>>(),
            ));
            let op = Op::TransferFrom { caller: t.from, from: tp.from.id().unwrap(), to: tp.to.id().unwrap(), amount: tp.amount.atto().clone(), data };
            let line = format!("transferfrom {} {} {} {} {} {}", epoch, t.from, tp.from.id().unwrap(), tp.to.id().unwrap(), tp.amount.atto(), match &op { Op::TransferFrom { data, .. } => data_line(data), _ => unreachable!() });
            let tr: TransferFromReturn = t.return_value.clone().unwrap().deserialize().unwrap();
            let ar: AllocationsResponse = fvm_ipld_encoding::from_slice(tr.recipient_data.bytes()).unwrap();
            let mut codes = codes_of(&ar.allocation_results);
            codes.extend(codes_of(&ar.extension_results));
            let ret = show_ret(codes, ar.new_allocations.clone(), vec![]);
            rep.op("transferfrom-by-market");
            rep.ops += 1;
            rep.ops_ok += 1;
            rep.branch("market-mediated-allocation");
            let o = observe(&op, &line, true, &ret, &before, &after, &traces, epoch, &mut g, &mut lean, &mut lines, &mut notes);
            if let Some((kind, detail)) = o.violation {
                let path = write_replay(prop, &format!("{}-{}", cfg.seed, seq), &hdr("market TransferFrom"), &lines);
                rep.violations.push(Violation { kind, detail, replay: path });
                continue 'seqs;
            }
            if let Some((i, m)) = o.disagreement {
                let path = write_replay(prop, &format!("corr-{}-{}", cfg.seed, seq), &hdr("market TransferFrom"), &lines);
                rep.disagreements.push(Disagreement { seq, step: lines.len() as u64, op: line, impl_out: i, model_out: m, replay: path });
                continue 'seqs;
            }
            epoch += r.range(0, 50);
            s.w.vm.set_epoch(epoch);
        }
        // then a stretch of the generic history over the market-made allocations
        for _ in 0..r.range(5, 25) {
            let p = project(&s);
            let op = gen_op(&mut r, &s, &p, epoch);
            if let Op::Advance { to_epoch } = op {
                epoch = to_epoch;
                s.w.vm.set_epoch(epoch);
                lines.push(format!("# epoch {}", epoch));
                rep.op("advance");
                continue;
            }
            run_op!(op);
        }
        for n in notes { if !rep.notes.contains(&n) { rep.notes.push(n); } }
        if lean.is_some() { rep.traces_validated += 1; }
    }
}

pub fn run(cfg: &RunCfg) -> Report {
    let mut rep = Report::new("C09", cfg.seed, &cfg.tier);
    rep.nontrivial_rule = "a sequence is non-trivial when at least one allocation ended (claimed by a miner or expired and refunded); distinct = distinct hash of the op lines".into();
    let (nseq, maxlen) = if cfg.thorough() { (3000u64, 300u64) } else { (120, 70) };
    run_generic("C09", cfg, &mut rep, nseq * cfg.budget, maxlen, 0);
    run_market("C09", cfg, &mut rep, (if cfg.thorough() { 300 } else { 15 }) * cfg.budget, 100_000);
    rep
}
